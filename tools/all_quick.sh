#!/bin/bash
# every registered check against /repo (quick tier), in parallel; prints one line per check
cd /verif
for c in C01 C02 C03 C04 C05 C06 C07 C08 C09 C10 C11 C12 C14 C15 C16 C17 C18 C19 C20; do
  ( s=$(date +%s); out=$(./check $c ${@} 2>&1); rc=$?; e=$(date +%s); echo "$c exit=$rc $((e-s))s $(echo "$out" | grep -c '^KNOWN-FINDING') known $(echo "$out" | grep -m1 'analysed' | sed 's/.*analysed: //')"; [ $rc -ne 0 ] && echo "$out" | grep -A2 " violated \|ANALYSIS-ERROR" | cut -c1-250 | head -8 ) &
done
wait
