#!/usr/bin/env python3
"""
Re-run the kept behaviour-preserving refactorings (seeded/refactor_*): each patch is applied to a scratch copy of
/repo's package (outside /repo and /verif, removed afterwards) and ALL checks run against it with --repo; every
check must stay at exit 0 (KNOWN-FINDING lines allowed).

usage: tools/refactor_run.py [refactor_C01_a ...] [--own]     (--own: only the refactoring's own property check)
"""
import json
import shutil
import subprocess
import sys
import tempfile
from concurrent.futures import ThreadPoolExecutor
from pathlib import Path

VERIF = Path(__file__).resolve().parent.parent
CHECKS = [f"C{i:02d}" for i in range(1, 21) if i != 13]
if __import__("os").environ.get("REFACTOR_RUN_CHECKS"):
    CHECKS = __import__("os").environ["REFACTOR_RUN_CHECKS"].split(",")  # a sub-set of the checks (after a change to those engines only)


def one(d, own):
    tmp = Path(tempfile.mkdtemp(prefix="cg_refactor_"))
    try:
        # the committed tree (not the working tree: tools/seeded_run.py patches that transiently and may run at the same time)
        subprocess.run(f"git -C /repo archive HEAD circuitgraph setup.py | tar -x -C {tmp}", shell=True, check=True)
        p = subprocess.run(["git", "apply", str(d / "patch.diff")], cwd=tmp, capture_output=True, text=True)
        if p.returncode != 0:
            return d.name, {"apply": p.stderr[:200]}
        meta = json.load(open(d / "meta.json"))
        alarms = {}
        for c in ([meta["property"]] if own else CHECKS):
            r = subprocess.run(["./check", c, "--repo", str(tmp), "--no-evidence", "--evidence-dir", str(tmp / "ev")], cwd=VERIF, capture_output=True, text=True)
            if r.returncode != 0:
                lines = [l for l in r.stdout.splitlines() if " violated " in l or l.startswith("ANALYSIS-ERROR")]
                alarms[c] = {"exit": r.returncode, "first": lines[:2]}
        return d.name, alarms
    finally:
        shutil.rmtree(tmp, ignore_errors=True)


def main():
    args = [a for a in sys.argv[1:] if not a.startswith("--")]
    own = "--own" in sys.argv
    dirs = sorted((VERIF / "seeded").glob("refactor_*"))
    if args:
        dirs = [d for d in dirs if d.name in args]
    bad = 0
    with ThreadPoolExecutor(16) as ex:
        for name, alarms in ex.map(lambda d: one(d, own), dirs):
            print(f"{name}: {'silent' if not alarms else 'ALARM ' + json.dumps(alarms)[:400]}")
            bad += bool(alarms)
    print(f"{len(dirs) - bad}/{len(dirs)} silent")
    return 1 if bad else 0


if __name__ == "__main__":
    sys.exit(main())
