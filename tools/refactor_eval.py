#!/usr/bin/env python3
"""
Evaluate behaviour-preserving refactorings written by independent sub-agents: every check must stay at exit 0.

usage: tools/refactor_eval.py <worktree> <Cxx> [a b c ...]

For each refactor_<x>.diff in the worktree: apply it there, confirm the baseline pass-set is unchanged, run ALL
checks against the worktree (`--repo`), revert.  Kept refactorings are stored under /verif/seeded/refactor_<Cxx>_<x>/.
"""
import concurrent.futures as cf
import json
import shutil
import subprocess
import sys
from pathlib import Path

VERIF = Path(__file__).resolve().parent.parent
PY = "/venv/bin/python"
ALL = [f"C{i:02d}" for i in range(1, 21) if i != 13]


def sh(cmd, cwd=None):
    p = subprocess.run(cmd, shell=True, cwd=cwd, capture_output=True, text=True)
    return p.returncode, p.stdout + p.stderr


def passing(wt):
    rc, out = sh(f"{PY} -m pytest -q -p no:cacheprovider --timeout=900 tests -rA 2>&1 | grep -E '^PASSED' | sort", cwd=wt)
    return sorted(l.split()[1] for l in out.splitlines() if l.startswith("PASSED"))


def main():
    wt = Path(sys.argv[1])
    pid = sys.argv[2]
    which = sys.argv[3:] or ["a", "b", "c"]
    base = json.load(open("/tmp/baseline_pass.json"))
    for x in which:
        diff = wt / f"refactor_{x}.diff"
        if not diff.exists():
            print(f"{pid}_{x}: missing")
            continue
        sh("git checkout -- . && git clean -fdq circuitgraph", cwd=wt)
        rc, out = sh(f"git apply {diff.name}", cwd=wt)
        if rc:
            print(f"{pid}_{x}: diff does not apply: {out[:150]}")
            continue
        same = passing(wt) == base
        results = {}

        def run(c):
            rc, out = sh(f"./check {c} --repo {wt} --no-evidence --evidence-dir /tmp/rf_ev_{pid}_{x}_{c}", cwd=VERIF)
            return c, rc, [l for l in out.splitlines() if l.startswith(("ANALYSIS-ERROR",)) or " violated " in l][:3]

        with cf.ThreadPoolExecutor(max_workers=8) as ex:
            for c, rc, lines in ex.map(run, ALL):
                if rc != 0:
                    results[c] = {"exit": rc, "lines": lines}
        sh("rm -rf /tmp/rf_ev_*")
        sh("git checkout -- . && git clean -fdq circuitgraph", cwd=wt)
        meta = {"id": f"refactor_{pid}_{x}", "property": pid, "kind": "behaviour-preserving refactoring (independent sub-agent)", "tests_same_as_clean": same,
                "alarms": results, "silent": not results, "notes": (wt / f"refactor_{x}_notes.md").read_text()[:1200] if (wt / f"refactor_{x}_notes.md").exists() else ""}
        out_dir = VERIF / "seeded" / meta["id"]
        out_dir.mkdir(parents=True, exist_ok=True)
        shutil.copy(diff, out_dir / "patch.diff")
        (out_dir / "meta.json").write_text(json.dumps(meta, indent=1) + "\n")
        print(json.dumps({"id": meta["id"], "tests_same": same, "silent": not results}), json.dumps(results)[:600])


if __name__ == "__main__":
    main()
