ENGINES = [
    {"name": "cgstatic", "path": "/verif/cgstatic", "serves_properties": ["C01", "C02", "C03", "C04", "C05", "C06", "C07", "C08", "C09", "C10", "C11", "C12", "C14", "C15", "C16", "C17", "C18", "C19", "C20"],
     "kind_free_text": "repository-specific static analysis over Python ast (program model, effect/alias/freshness dataflow, type-literal tables, guard tabulation over finite abstract domains, clause-schema and gate-template extraction with finite truth-table oracles, statement CFG for ordering rules), the Lark grammar read as data, regex literals via re._parser; never imports or runs circuitgraph"},
]
NOTES = ("All checks are static: they parse /repo's current working tree on every run. Exit 0 = all obligations discharged (KNOWN-FINDING lines for entries of known_findings.json that still reproduce); "
         "exit 1 + VIOLATION = an obligation failed; exit 2 + ANALYSIS-ERROR = the analysis itself could not be carried out (vanished anchor / unrecognised idiom) - never a silent pass.")
NOT_APPLICABLE = [
    {"property_id": "C13", "reason": "numerical results of width-indexed generators (ripple adder, mux select order, popcount padding queue, clog2/int_to_bin arithmetic): no clause whose truth is visible in the shape of the code is both necessary and robust; deciding it would need executing the generators for concrete widths, which is not static analysis (DESIGN.md section 3, C13)"},
]
CHECKS = {
 "C20": {
  "technique": "static: guard extraction from lint's AST + exhaustive tabulation over a finite abstract domain; literal-vocabulary rule; exception-discipline rule",
  "text": "lint()'s own rule set is decided: every per-node and per-pin guard is extracted from the syntax tree and tabulated over all abstract states (type x fan-in x fan-out x output x load type x name form x flags) against the documented rules, in both fail_fast modes; vocabulary of every type literal; only ValueError escapes. The clause 'every library output is lint-clean' is not decided (behavioural over all generator outputs).",
  "design_ref": "DESIGN.md section 3 C20",
  "note": "Trusted: the extractor (cgstatic), Python ast; counts abstracted to 0..K with K above every integer constant in the guards; Circuit.type raising KeyError on a typeless node.",
 },
 "C19": {
  "technique": "static: interprocedural effect / alias / freshness dataflow over ast (parameter-part tags, per-function summaries to a fixpoint over the resolved call graph)",
  "text": "Purity and return-freshness are decided for every public function of tx, props, sat, io, utils, logic, the parsers and every read-only Circuit/BlackBox method: no effect (direct or through any resolved callee, on normal or raising paths) on the circuit object, graph, node views/attribute dicts or registry of a Circuit/graph parameter, and nothing returned aliases them; the derived Circuit mutator table equals the documented one. Sound modulo the stated networkx copy facts and absence of reflection (checked).",
  "design_ref": "DESIGN.md section 2 E2, section 3 C19",
  "note": "Trusted: cgstatic's abstract interpreter; library tables (which networkx/dict/set methods mutate, which copy); node attribute values immutable; BlackBox objects shared by design. A call that passes parameter state to an unresolved callee is ANALYSIS-ERROR, not a pass.",
 },
 "C07": {
  "technique": "static: guard + mutation-statement extraction from circuit.py tabulated over finite abstract domains; writer-site allow-table; syntax-directed check-before-mutate ordering walk; exhaustive short call histories (and uid histories without state de-duplication) evaluated on the repository's own class by the checker's AST evaluator",
  "text": "For connect, add, uid and set_type every abstract call state (types x existing fan-in/fan-out x argument shapes x flags) is tabulated: a call whose post-state would break a wiring invariant raises ValueError having added no edge, accepted calls leave a legal post-state with edges in the right direction, uid never returns a used name. Raw graph/registry writers in class Circuit are confined to an allow-table; in add/add_blackbox/add_subcircuit/fill_blackbox no explicit-raise-capable point follows an edge-adding point (known findings listed). The invariant over arbitrary call histories is the inductive consequence and is argued, not mechanised.",
  "design_ref": "DESIGN.md section 3 C07",
  "note": "Trusted: cgstatic's extractor and model circuit; networkx add_node/add_edges_from/update semantics; implicit exceptions (KeyError on a missing node in set_output) are outside the ordering rule; callers editing c.graph directly are out of scope.",
 },
 "C01": {
  "technique": "static: sat.py's encoder evaluated by the checker's own AST evaluator over model objects (recording CNF, injective IDPool, scripted solver, and a DPLL solver model with the PySAT interface for solve() end to end) + exhaustive truth-table / consistent-valuation oracle incl. cyclic circuits; structural rules (dispatch exhaustiveness, IDPool key taint); stale-state rule; no import, no real solver",
  "text": "For every supported gate type and fan-in arity 1..K (K=4 quick, 6 thorough) and for multi-gate model circuits (shared parity fan-in, constants, blackbox pins, single-input demotion, adversarial names) the clauses cnf() emits are compared by exhaustive enumeration with the gate relation, including unique extension of auxiliary variables; auxiliary keys can never equal a node name; every node variable occurs; assumption polarity, the non-node guard, formula hand-over and solve()'s model read-back are decided against PySAT's documented contract.",
  "design_ref": "DESIGN.md section 3 C01",
  "note": "Trusted: cgstatic's evaluator and model classes (IDPool/CNF/Solver contracts are frozen facts since python-sat is not installed); the external solver; arities above K are covered only by the arity-generic shape of the emission code.",
 },
 "C08": {
  "technique": "static: sat.model_count / approx_model_count / props.signal_probability evaluated by the checker's AST evaluator with a scripted solver and fake file/process objects; model_count end to end against a DPLL solver model vs the definition (incl. unloaded startpoints, cyclic circuits); syntactic blocking-clause rule; DIMACS text parsed and enumerated",
  "text": "Blocking clauses are the negated model literals on exactly the startpoints (inputs and blackbox outputs) and the count is the number of models produced; signal_probability counts the reflexive fan-in cone under {n: True} and normalises by that sub-circuit's own startpoints; the default-mode DIMACS text declares the startpoints as sampling set, has a consistent header, equals cnf(c) plus assumption units and has the expected projected model count on model circuits (exhaustive enumeration) - all of it read off the file as flushed when the external counter is started; signal_probability also on feedback cones whose startpoint valuations have one or no consistent extension.",
  "design_ref": "DESIGN.md section 3 C08",
  "note": "Trusted: cgstatic's evaluator; PySAT/approxmc interface conventions; exactness on a real solver follows from C01 plus the blocking-clause rule and is argued, not mechanised; use_xor_clauses mode not covered.",
 },
 "C02": {
  "technique": "static: verilog.lark loaded as data (lark LALR tables) + transformer callbacks evaluated from source by the checker's own AST evaluator (cgstatic.minieval) over reference model objects (cgstatic.refmodel); the package is never imported or run by CPython, no solver; reference Verilog-2001 expression parser/evaluator as oracle; rule/callback agreement",
  "text": "For systematic families of continuous assignments (all operator pairs/triples without parentheses, unary forms, parenthesised and nested conditionals, constants), primitive instances of every type (several per statement), named-port blackbox instances (connected / unconnected pins) and port-list mismatches, the circuit built by the grammar + callbacks is compared by exhaustive simulation with what the netlist denotes; declared ports are exactly the io; mismatching port lists are rejected; names colliding with the parser's synthetic names are probed (three known findings); the diagnostics flags (warnings / error_on_warning) only report; the order family and use-before-definition netlists are parsed a second time with circuit.py's own Circuit class under the transformer.",
  "design_ref": 'DESIGN.md section 3 C02',
  "note": "Trusted: lark's LALR engine and Transformer protocol (reproduced by a 20-line driver); the checker's reference expression semantics; netlists outside the enumerated families are not decided.",
 },
 "C03": {
  "technique": "static: io.circuit_to_verilog / verilog_to_circuit / to_file / from_file evaluated from source by the checker's own AST evaluator (cgstatic.minieval) over reference model objects (cgstatic.refmodel); the package is never imported or run by CPython, no solver; text parsed with the grammar-as-data driver; in-memory file model",
  "text": 'For model circuits covering every gate type at fan-in 1..3, multi-level circuits, constants incl. x, outputs that are inputs or constants, blackboxes with connected/unconnected pins and escaped identifiers, in both output styles, reading back the written text preserves name, io sets, blackbox pins and the function at every output and blackbox input pin; without constants the primitive form round-trips to an identical graph; same through to_file/from_file (also file names that are not words); unknown formats raise; escaped instance and module names, port-less circuits; blackbox models again with the own Circuit class of circuit.py under writer and reader.',
  "design_ref": 'DESIGN.md section 3 C03',
  "note": 'Trusted: the C02 driver; the in-memory file model; circuits outside the families are not decided.',
 },
 "C04": {
  "technique": "static: tx.miter evaluated from source by the checker's own AST evaluator (cgstatic.minieval) over reference model objects (cgstatic.refmodel); the package is never imported or run by CPython, no solver; exhaustive simulation oracle",
  "text": "On pairs of model circuits (identical, one gate retyped, different io sets, self-miter, explicit startpoint/endpoint subsets) the miter's inputs are the tied startpoints, its only output is sat, and sat equals 'some compared endpoint differs' for every valuation of tied and independent untied startpoints, with values taken from the original circuits; defaults are the intersections; blackboxes are rejected.",
  "design_ref": 'DESIGN.md section 3 C04',
  "note": 'Trusted: reference Circuit model (add_subcircuit semantics are decided separately by C06); pairs outside the families.',
 },
 "C05": {
  "technique": "static: helper-gate table rule (syntactic, arity independent) + limit_fanin/limit_fanout/insert_registers/acyclic_unroll evaluated from source by the checker's own AST evaluator (cgstatic.minieval) over reference model objects (cgstatic.refmodel); stale-state and earlier-calls rules (no state carried between calls: caches, mutable default arguments); the package is never imported or run by CPython, no solver",
  "text": 'The helper-gate table equals the non-inverting base table (algebraic, every arity). On every gate type at fan-in 1..5 and multi-level model circuits, k in {2,3}: same io, bound respected at every node, every original node keeps its function, k<2 raises; flops inserted by insert_registers replaced by d->q wires give an equivalent circuit; acyclic_unroll of an acyclic circuit is equivalent.',
  "design_ref": 'DESIGN.md section 3 C05',
  "note": 'Trusted: reference Circuit model; circuits outside the families; depth arithmetic of insert_registers beyond the families.',
 },
 "C06": {
  "technique": "static: Circuit.add_subcircuit / fill_blackbox (methods, self = reference model) and tx.strip_blackboxes evaluated from source by the checker's own AST evaluator (cgstatic.minieval) over reference model objects (cgstatic.refmodel); the package is never imported or run by CPython, no solver; functional-substitution oracle; E2 effect dataflow rules (child neither mutated nor retained; no function edits a shared BlackBox definition's pin sets)",
  "text": "On model parents/children (connected and unconnected io, child output that is an input, constants, sub-blackboxes, both strip_io settings): spliced nodes compute the child's function of the attached nets, untouched nodes keep theirs, io sets and registry bookkeeping are as documented, the child is unchanged, rejected calls raise ValueError (and merge nothing where checked before merging); strip_blackboxes exposes pins as inst_pin io, deletes ignored pins, keeps every other function. Call histories about composition (the same child object instantiated again after an in-place edit, rejected splices beside nodes that share the instance prefix, fills, self-splices) are replayed on the repository's own Circuit class evaluated from source against the documented semantics (C06.H).",
  "design_ref": 'DESIGN.md section 3 C06',
  "note": 'Trusted: reference DiGraph model of relabel_nodes / update; families only.',
 },
 "C09": {
  "technique": "static: tx.unroll / tx.sequential_unroll evaluated from source by the checker's own AST evaluator (cgstatic.minieval) over reference model objects (cgstatic.refmodel); the package is never imported or run by CPython, no solver; iterated / cycle-accurate reference simulation",
  "text": 'On model state machines (1-2 state bits, with and without free inputs, flip-flop blackboxes) and n = 1..3: free inputs are step-0 state plus per-step inputs, io_map[o][t] equals iterated execution for every initial state and input sequence, flop outputs exposed only on request, initial values applied to step 0, clock pins removed (and only pins: nets named after instances and pins stay); guards raise; one recorded name clash of unroll with its own naming.',
  "design_ref": 'DESIGN.md section 3 C09',
  "note": 'Trusted: reference Circuit model; step counts / machines outside the families.',
 },
 "C10": {
  "technique": "static: tx.ternary evaluated from source by the checker's own AST evaluator (cgstatic.minieval) over reference model objects (cgstatic.refmodel); the package is never imported or run by CPython, no solver; Kleene three-valued oracle",
  "text": 'On every gate type at fan-in 1..3, two-level and multi-level model circuits: the binary rail is the unchanged circuit, companions are fresh and distinct, and for every (value, X-flag) input assignment mapping[n]==1 iff Kleene evaluation gives X, else n carries the Kleene value.',
  "design_ref": 'DESIGN.md section 3 C10',
  "note": 'Trusted: reference Circuit model; the induction over circuit structure is argued, families only.',
 },
 "C11": {
  "technique": "static: sensitization/sensitivity transforms and props.sensitize/sensitivity/influence/avg_sensitivity evaluated from source by the checker's own AST evaluator (cgstatic.minieval) over reference model objects (cgstatic.refmodel); the package is never imported or run by CPython, no solver with a reference brute-force SAT layer",
  "text": "For every node of the model circuits: sat of the sensitization transform equals 'inverting n changes a (selected) endpoint'; sensitize returns None iff unsensitizable, else a sensitizing startpoint valuation; dif_out_s equals 'flipping s flips n' and sen_out encodes their count; sensitivity is the maximum count; exact influence is the per-startpoint fraction and avg_sensitivity their sum.",
  "design_ref": 'DESIGN.md section 3 C11',
  "note": 'Trusted: sat.solve / sat.model_count replaced by reference brute force (the real ones are decided by C01/C08); approx modes not covered; supergates=True on one tree-shaped model (two known findings: the supergate path is not exact).',
 },
 "C12": {
  "technique": "static: Circuit's query methods evaluated from source by the checker's own AST evaluator (cgstatic.minieval) over reference model objects (cgstatic.refmodel); the package is never imported or run by CPython, no solver, exhaustive over all labelled digraphs on <= 3 nodes (subset/all on 4); syntactic direction-table rule; structural call-depth rule (no call to itself per step along fan-in / fan-out)",
  "text": 'fanin/fanout, transitive_fanin/out, startpoints/endpoints (reflexive, with blackbox pins), is_cyclic, topo_sort, fanin_depth/fanout_depth, reconvergent_fanout_nodes/has_reconvergent_fanout, kcuts (size bound + separation) and props.levelize agree with their graph-theoretic definitions on every enumerated graph, cyclic ones included (raise where documented), for single nodes, node lists and empty node lists; three recorded findings: fanin_depth / fanout_depth / kcuts recurse once per step along the graph (RecursionError on a chain of about 1000 nodes).',
  "design_ref": 'DESIGN.md section 3 C12',
  "note": 'Trusted: reference DiGraph model of predecessors/successors/ancestors/descendants/topological order; graphs above 4 nodes.',
 },
 "C14": {
  "technique": "static: regex-literal character classes (re._parser) vs the grammar's identifier terminal; fast parser evaluated from source by the checker's own AST evaluator (cgstatic.minieval) over reference model objects (cgstatic.refmodel); the package is never imported or run by CPython, no solver with a faithful re model and compared with the full parser",
  "text": "Identifier sub-patterns of the fast parser accept every first/following character the grammar accepts; on the library writer's output for model circuits and on synthesis-style netlists (underscore names, constant operands, net/constant assigns, blackbox pins connected/constant/unconnected, multi-line declarations, nets named tie0/tie1) both parsers return the same io, blackbox pins and identical graphs up to constant node names.",
  "design_ref": 'DESIGN.md section 3 C14',
  "note": "Trusted: Python's re on plain strings; the C02 driver; language equivalence on all texts is not decided.",
 },
 "C15": {
  "technique": "static: keyword-table rule on the reader's literal list; io.bench_to_circuit / circuit_to_bench evaluated from source by the checker's own AST evaluator (cgstatic.minieval) over reference model objects (cgstatic.refmodel); the package is never imported or run by CPython, no solver; operand-multiplicity rule on emitted lines",
  "text": 'Every dialect keyword in both cases with 1..3 operands, BUFF, use-before-definition, spacing variants and DFF lines read to circuits with the declared io whose nets compute what the text denotes (DFF = flip-flop blackbox between D and Q nets); writing model circuits (incl. constants) and reading back preserves io and output functions; no emitted gate repeats an operand; blackboxes / x are rejected.',
  "design_ref": 'DESIGN.md section 3 C15',
  "note": "Trusted: Python's re; texts/circuits outside the families.",
 },
 "C16": {
  "technique": "static: Circuit.remove_unloaded evaluated from source by the checker's own AST evaluator (cgstatic.minieval) over reference model objects (cgstatic.refmodel); the package is never imported or run by CPython, no solver, exhaustive over small labelled DAGs with all output-mark choices, both flags",
  "text": 'Removed set equals the dead gates and constants (no endpoint reachable), inputs/blackbox pins never removed with inputs=False and dead inputs removed with inputs=True, remaining nodes untouched, return value equals the removed set, second call removes nothing; one known finding (dead combinational loop).',
  "design_ref": 'DESIGN.md section 3 C16',
  "note": 'Trusted: reference Circuit model; DAGs above 4 nodes.',
 },
 "C17": {
  "technique": "static: networkx immediate_dominators contract read from the installed source (ast) + tx.supergates evaluated from source by the checker's own AST evaluator (cgstatic.minieval) over reference model objects (cgstatic.refmodel); the package is never imported or run by CPython, no solver with a textbook dominator model",
  "text": "supergates does not assume a dominator-map key the library deletes; on model circuits every block is a single-output sub-circuit of the fan-in-limited circuit with its wiring, blocks are in topological order and cover the output cones, block inputs have pairwise disjoint reflexive fan-in, and filling the super-circuit's blackboxes reproduces an equivalent circuit.",
  "design_ref": 'DESIGN.md section 3 C17',
  "note": 'Trusted: the dominator model; maximality/minimality of the cover and circuits outside the families are not decided.',
 },
 "C18": {
  "technique": "static: must-pass-through rule on acyclic_unroll's exits (syntactic) + acyclic_unroll evaluated from source by the checker's own AST evaluator (cgstatic.minieval) over reference model objects (cgstatic.refmodel); the package is never imported or run by CPython, no solver; model cyclic circuits incl. every cyclic wiring of 3 gates and a sample of 4-gate ones; exhaustive stable-state enumeration; copy-index rule; stale-state rule",
  "text": 'lint and the is_cyclic guard dominate the return, the blackbox guard comes first; on SR latch / gated ring / interlocked loops / loops through outputs the result is acyclic, lint-clean, has the same outputs and original inputs plus auxiliary inputs, and every stable state is preserved when auxiliaries take the stable values of their feedback nodes.',
  "design_ref": 'DESIGN.md section 3 C18',
  "note": 'Trusted: reference Circuit model; utils.lint (decided by C20); cyclic circuits outside the families.',
 },
}
