ENGINES = [
    {"name": "cgstatic", "path": "/verif/cgstatic", "serves_properties": ["C01", "C02", "C03", "C04", "C05", "C06", "C07", "C08", "C09", "C10", "C11", "C12", "C14", "C15", "C16", "C17", "C18", "C19", "C20"],
     "kind_free_text": "repository-specific static analysis over Python ast (program model, effect/alias/freshness dataflow, type-literal tables, guard tabulation over finite abstract domains, clause-schema and gate-template extraction with finite truth-table oracles, statement CFG for ordering rules), the Lark grammar read as data, regex literals via re._parser; never imports or runs circuitgraph"},
]
NOTES = ("All checks are static: they parse /repo's current working tree on every run. Exit 0 = all obligations discharged (KNOWN-FINDING lines for entries of known_findings.json that still reproduce); "
         "exit 1 + VIOLATION = an obligation failed; exit 2 + ANALYSIS-ERROR = the analysis itself could not be carried out (vanished anchor / unrecognised idiom) - never a silent pass.")
NOT_APPLICABLE = [
    {"property_id": "C13", "reason": "numerical results of width-indexed generators (ripple adder, mux select order, popcount padding queue, clog2/int_to_bin arithmetic): no clause whose truth is visible in the shape of the code is both necessary and robust; deciding it would need executing the generators for concrete widths, which is not static analysis (DESIGN.md section 3, C13)"},
]
CHECKS = {
 "C20": {
  "technique": "static: guard extraction from lint's AST + exhaustive tabulation over a finite abstract domain; literal-vocabulary rule; exception-discipline rule",
  "text": "lint()'s own rule set is decided: every per-node and per-pin guard is extracted from the syntax tree and tabulated over all abstract states (type x fan-in x fan-out x output x load type x name form x flags) against the documented rules, in both fail_fast modes; vocabulary of every type literal; only ValueError escapes. The clause 'every library output is lint-clean' is not decided (behavioural over all generator outputs).",
  "design_ref": "DESIGN.md section 3 C20",
  "note": "Trusted: the extractor (cgstatic), Python ast; counts abstracted to 0..K with K above every integer constant in the guards; Circuit.type raising KeyError on a typeless node.",
 },
}
