ENGINES = [
    {"name": "cgstatic", "path": "/verif/cgstatic", "serves_properties": ["C01", "C02", "C03", "C04", "C05", "C06", "C07", "C08", "C09", "C10", "C11", "C12", "C14", "C15", "C16", "C17", "C18", "C19", "C20"],
     "kind_free_text": "repository-specific static analysis over Python ast (program model, effect/alias/freshness dataflow, type-literal tables, guard tabulation over finite abstract domains, clause-schema and gate-template extraction with finite truth-table oracles, statement CFG for ordering rules), the Lark grammar read as data, regex literals via re._parser; never imports or runs circuitgraph"},
]
NOTES = ("All checks are static: they parse /repo's current working tree on every run. Exit 0 = all obligations discharged (KNOWN-FINDING lines for entries of known_findings.json that still reproduce); "
         "exit 1 + VIOLATION = an obligation failed; exit 2 + ANALYSIS-ERROR = the analysis itself could not be carried out (vanished anchor / unrecognised idiom) - never a silent pass.")
NOT_APPLICABLE = [
    {"property_id": "C13", "reason": "numerical results of width-indexed generators (ripple adder, mux select order, popcount padding queue, clog2/int_to_bin arithmetic): no clause whose truth is visible in the shape of the code is both necessary and robust; deciding it would need executing the generators for concrete widths, which is not static analysis (DESIGN.md section 3, C13)"},
]
CHECKS = {
 "C20": {
  "technique": "static: guard extraction from lint's AST + exhaustive tabulation over a finite abstract domain; literal-vocabulary rule; exception-discipline rule",
  "text": "lint()'s own rule set is decided: every per-node and per-pin guard is extracted from the syntax tree and tabulated over all abstract states (type x fan-in x fan-out x output x load type x name form x flags) against the documented rules, in both fail_fast modes; vocabulary of every type literal; only ValueError escapes. The clause 'every library output is lint-clean' is not decided (behavioural over all generator outputs).",
  "design_ref": "DESIGN.md section 3 C20",
  "note": "Trusted: the extractor (cgstatic), Python ast; counts abstracted to 0..K with K above every integer constant in the guards; Circuit.type raising KeyError on a typeless node.",
 },
 "C19": {
  "technique": "static: interprocedural effect / alias / freshness dataflow over ast (parameter-part tags, per-function summaries to a fixpoint over the resolved call graph)",
  "text": "Purity and return-freshness are decided for every public function of tx, props, sat, io, utils, logic, the parsers and every read-only Circuit/BlackBox method: no effect (direct or through any resolved callee, on normal or raising paths) on the circuit object, graph, node views/attribute dicts or registry of a Circuit/graph parameter, and nothing returned aliases them; the derived Circuit mutator table equals the documented one. Sound modulo the stated networkx copy facts and absence of reflection (checked).",
  "design_ref": "DESIGN.md section 2 E2, section 3 C19",
  "note": "Trusted: cgstatic's abstract interpreter; library tables (which networkx/dict/set methods mutate, which copy); node attribute values immutable; BlackBox objects shared by design. A call that passes parameter state to an unresolved callee is ANALYSIS-ERROR, not a pass.",
 },
 "C07": {
  "technique": "static: guard + mutation-statement extraction from circuit.py tabulated over finite abstract domains; writer-site allow-table; syntax-directed check-before-mutate ordering walk",
  "text": "For connect, add, uid and set_type every abstract call state (types x existing fan-in/fan-out x argument shapes x flags) is tabulated: a call whose post-state would break a wiring invariant raises ValueError having added no edge, accepted calls leave a legal post-state with edges in the right direction, uid never returns a used name. Raw graph/registry writers in class Circuit are confined to an allow-table; in add/add_blackbox/add_subcircuit/fill_blackbox no explicit-raise-capable point follows an edge-adding point (known findings listed). The invariant over arbitrary call histories is the inductive consequence and is argued, not mechanised.",
  "design_ref": "DESIGN.md section 3 C07",
  "note": "Trusted: cgstatic's extractor and model circuit; networkx add_node/add_edges_from/update semantics; implicit exceptions (KeyError on a missing node in set_output) are outside the ordering rule; callers editing c.graph directly are out of scope.",
 },
 "C01": {
  "technique": "static: sat.py's encoder evaluated by the checker's own AST evaluator over model objects (recording CNF, injective IDPool, scripted solver) + exhaustive truth-table oracle; no import, no solver",
  "text": "For every supported gate type and fan-in arity 1..K (K=4 quick, 6 thorough) and for multi-gate model circuits (shared parity fan-in, constants, blackbox pins, single-input demotion, adversarial names) the clauses cnf() emits are compared by exhaustive enumeration with the gate relation, including unique extension of auxiliary variables; auxiliary keys can never equal a node name; every node variable occurs; assumption polarity, the non-node guard, formula hand-over and solve()'s model read-back are decided against PySAT's documented contract.",
  "design_ref": "DESIGN.md section 3 C01",
  "note": "Trusted: cgstatic's evaluator and model classes (IDPool/CNF/Solver contracts are frozen facts since python-sat is not installed); the external solver; arities above K are covered only by the arity-generic shape of the emission code.",
 },
 "C08": {
  "technique": "static: sat.model_count / approx_model_count / props.signal_probability evaluated by the checker's AST evaluator with a scripted solver and fake file/process objects; DIMACS text parsed and enumerated",
  "text": "Blocking clauses are the negated model literals on exactly the startpoints (inputs and blackbox outputs) and the count is the number of models produced; signal_probability counts the reflexive fan-in cone under {n: True} and normalises by that sub-circuit's own startpoints; the default-mode DIMACS text declares the startpoints as sampling set, has a consistent header, equals cnf(c) plus assumption units and has the expected projected model count on model circuits (exhaustive enumeration).",
  "design_ref": "DESIGN.md section 3 C08",
  "note": "Trusted: cgstatic's evaluator; PySAT/approxmc interface conventions; exactness on a real solver follows from C01 plus the blocking-clause rule and is argued, not mechanised; use_xor_clauses mode not covered.",
 },
}
