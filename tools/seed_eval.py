#!/usr/bin/env python3
"""
Confirm and evaluate one independently written seeded change.

usage: tools/seed_eval.py <worktree> <a|b> <Cxx> [--checks C01,C19] [--keep]

1. in the scratch worktree: apply the diff, run the demonstration (must fail), run the baseline
   tests (the set of passing tests must equal the clean set), revert, run the demonstration (must pass)
2. apply the diff to /repo, run the named checks (quick tier), undo it straight afterwards
3. store patch.diff, the demonstration and meta.json under /verif/seeded/<Cxx>_<a|b>/
"""
import argparse
import json
import shutil
import subprocess
import sys
from pathlib import Path

VERIF = Path(__file__).resolve().parent.parent
REPO = Path("/repo")
PY = "/venv/bin/python"


def sh(cmd, cwd=None, timeout=1800):
    p = subprocess.run(cmd, shell=True, cwd=cwd, capture_output=True, text=True, timeout=timeout)
    return p.returncode, p.stdout + p.stderr


def passing_tests(wt):
    rc, out = sh(f"{PY} -m pytest -q -p no:cacheprovider --timeout=900 tests -rA 2>&1 | grep -E '^PASSED' | sort", cwd=wt)
    return sorted(l.split()[1] for l in out.splitlines() if l.startswith("PASSED"))


def main():
    ap = argparse.ArgumentParser()
    ap.add_argument("worktree")
    ap.add_argument("which")  # the seed letter
    ap.add_argument("pid")
    ap.add_argument("--checks", default=None)
    ap.add_argument("--baseline", default="/tmp/baseline_pass.json")
    args = ap.parse_args()
    wt = Path(args.worktree)
    diff = wt / f"seed_{args.which}.diff"
    demo = wt / f"seed_{args.which}_demo.py"
    notes = wt / f"seed_{args.which}_notes.md"
    meta = {"id": f"{args.pid}_{args.which}", "property": args.pid, "source": "independent sub-agent given only the property text and a scratch worktree"}
    if not diff.exists() or not demo.exists():
        print(f"{meta['id']}: missing files")
        return 2
    sh("git checkout -- . && git clean -fdq circuitgraph", cwd=wt)
    base = json.load(open(args.baseline)) if Path(args.baseline).exists() else None
    if base is None:
        base = passing_tests(wt)
        json.dump(base, open(args.baseline, "w"))
    rc, out = sh(f"{PY} {demo.name}", cwd=wt)
    meta["demo_on_clean_tree"] = rc
    rc_apply, out_apply = sh(f"git apply {diff.name}", cwd=wt)
    if rc_apply != 0:
        print(f"{meta['id']}: diff does not apply: {out_apply[:200]}")
        return 2
    rc2, out2 = sh(f"{PY} {demo.name}", cwd=wt)
    meta["demo_with_change"] = rc2
    meta["demo_message"] = out2.strip().splitlines()[-1][:300] if out2.strip() else ""
    now = passing_tests(wt)
    meta["tests_passing_with_change"] = len(now)
    meta["tests_same_as_clean"] = now == base
    sh("git checkout -- . && git clean -fdq circuitgraph", cwd=wt)
    confirmed = meta["demo_on_clean_tree"] == 0 and meta["demo_with_change"] != 0 and meta["tests_same_as_clean"]
    meta["confirmed"] = confirmed
    # run my checks against it
    checks = args.checks.split(",") if args.checks else [args.pid]
    assert sh("git status --porcelain", cwd=REPO)[1].strip() == "", "/repo not clean"
    rc_apply, out_apply = sh(f"git apply {diff}", cwd=REPO)
    results = {}
    try:
        if rc_apply != 0:
            results = {"error": f"diff does not apply to /repo: {out_apply[:200]}"}
        else:
            for c in checks:
                rc, out = sh(f"./check {c} --no-evidence --evidence-dir /tmp/seed_ev", cwd=VERIF)
                rules = sorted({l.split("violated ")[1].split(" at ")[0] for l in out.splitlines() if " violated " in l})
                results[c] = {"exit": rc, "violated_rules": rules[:12], "analysis_error": [l for l in out.splitlines() if l.startswith("ANALYSIS-ERROR")][:1]}
    finally:
        sh("git checkout -- . && git clean -fdq circuitgraph", cwd=REPO)
        shutil.rmtree("/tmp/seed_ev", ignore_errors=True)
    meta["checks"] = results
    meta["caught"] = any(isinstance(v, dict) and v.get("exit") == 1 for v in results.values())
    meta["needs_to_manifest"] = notes.read_text()[:1500] if notes.exists() else ""
    meta["what_was_run"] = "demo on clean worktree (exit 0 expected), demo with the change (non-zero expected), baseline pytest pass-set comparison, then ./check <ids> --no-evidence against /repo with the diff applied (undone afterwards)"
    out_dir = VERIF / "seeded" / meta["id"]
    if confirmed:
        out_dir.mkdir(parents=True, exist_ok=True)
        shutil.copy(diff, out_dir / "patch.diff")
        shutil.copy(demo, out_dir / "demo.py")
        for extra in wt.glob("pysat*"):
            if extra.is_dir():
                shutil.copytree(extra, out_dir / extra.name, dirs_exist_ok=True)
        for extra in wt.glob("seed_*stub*"):
            if extra.is_dir():
                shutil.copytree(extra, out_dir / extra.name, dirs_exist_ok=True)
        (out_dir / "meta.json").write_text(json.dumps(meta, indent=1) + "\n")
    print(json.dumps({k: meta[k] for k in ("id", "confirmed", "caught", "demo_on_clean_tree", "demo_with_change", "tests_same_as_clean")}), json.dumps(results)[:400])
    return 0


if __name__ == "__main__":
    sys.exit(main())
