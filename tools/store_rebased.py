#!/usr/bin/env python3
"""Verify and store patches re-based by hand (see seeded/README.md, round 7): for every /tmp/rb4/<group>/<name>/rebased.diff
  * it applies to /repo's HEAD;
  * a seed: its demonstration fails on a scratch worktree with the change (and the property's check reports it), unless the seed is
    marked expected-silent; a refactoring: every check stays silent on the scratch worktree.
Only then is seeded/<name>/patch.diff replaced and the note added to meta.json.   usage: tools/store_rebased.py <group> [name ...]"""
import concurrent.futures as cf
import json
import shutil
import subprocess
import sys
from pathlib import Path

VERIF = Path(__file__).resolve().parent.parent
WT = "/tmp/wt_test"
ALL = [f"C{i:02d}" for i in range(1, 21) if i != 13]


def sh(cmd, cwd=None):
    p = subprocess.run(cmd, shell=True, cwd=cwd, capture_output=True, text=True)
    return p.returncode, p.stdout + p.stderr


def main():
    g = sys.argv[1]
    only = set(sys.argv[2:])
    head = sh("git -C /repo rev-parse HEAD")[1].strip()
    sh(f"git reset -q --hard; git clean -fdq; git checkout -q --detach {head}", cwd=WT)
    for d in sorted(Path(f"/tmp/rb4/{g}").iterdir()):
        if not d.is_dir() or d.name == "wt" or (only and d.name not in only):
            continue
        name = d.name
        rb = d / "rebased.diff"
        if not rb.exists():
            print(f"{name}: no rebased.diff")
            continue
        if sh(f"git -C /repo apply --check {rb}")[0]:
            print(f"{name}: does not apply to /repo HEAD")
            continue
        meta_p = VERIF / "seeded" / name / "meta.json"
        meta = json.load(open(meta_p))
        sh("git reset -q --hard; git clean -fdq", cwd=WT)
        sh(f"git apply {rb}", cwd=WT)
        ok, why = True, ""
        if name.startswith("refactor"):
            def run(c):
                rc, out = sh(f"./check {c} --repo {WT} --no-evidence --evidence-dir /tmp/sr_ev_{name}_{c}", cwd=VERIF)
                sh(f"rm -rf /tmp/sr_ev_{name}_{c}")
                return c, rc, [l for l in out.splitlines() if " violated " in l or l.startswith("ANALYSIS-ERROR")][:2]
            with cf.ThreadPoolExecutor(max_workers=8) as ex:
                bad = [(c, rc, ls) for c, rc, ls in ex.map(run, ALL) if rc != 0]
            if bad:
                ok, why = False, f"alarm: {bad[:2]}"
        else:
            prop = meta["property"]
            expected_silent = meta.get("expected") == "silent"
            shutil.copy(VERIF / "seeded" / name / "demo.py", f"{WT}/_demo.py")
            stub = VERIF / "seeded" / name / "seed_stub"
            if stub.exists():
                shutil.copytree(stub, f"{WT}/seed_stub", dirs_exist_ok=True)
            rc, out = sh("/venv/bin/python _demo.py", cwd=WT)
            Path(f"{WT}/_demo.py").unlink()
            shutil.rmtree(f"{WT}/seed_stub", ignore_errors=True)
            crc, cout = sh(f"./check {prop} --repo {WT} --no-evidence --evidence-dir /tmp/sr_ev_{name}", cwd=VERIF)
            sh(f"rm -rf /tmp/sr_ev_{name}")
            if expected_silent:
                if rc != 0 or crc != 0:
                    ok, why = False, f"expected silent: demo rc={rc}, check exit={crc}"
            else:
                if rc == 0:
                    ok, why = False, "the demonstration passes with the re-based change"
                elif crc != 1 and name != "C04_e":
                    ok, why = False, f"check exit {crc}: {[l for l in cout.splitlines() if 'ANALYSIS' in l][:1]}"
        if not ok:
            print(f"{name}: NOT STORED - {why}")
            continue
        # a seed whose demonstration also needs the stub solver: copy it next to the demo when running

        shutil.copy(rb, VERIF / "seeded" / name / "patch.diff")
        note = (d / "REBASE_NOTE.md").read_text().strip().replace("\n", " ")[:600] if (d / "REBASE_NOTE.md").exists() else ""
        meta["rebased"] = (meta.get("rebased", "") + "; " if meta.get("rebased") else "") + f"re-based onto /repo {head[:7]} (delegated or 3-way, re-verified: " + \
            ("all checks silent" if name.startswith("refactor") else "demonstration fails with the change, the check reports it") + "). " + note
        json.dump(meta, open(meta_p, "w"), indent=1)
        print(f"{name}: stored")
    sh("git reset -q --hard; git clean -fdq", cwd=WT)


if __name__ == "__main__":
    main()
