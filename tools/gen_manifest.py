#!/usr/bin/env python3
"""Regenerate /verif/MANIFEST.json from tools/manifest_data.py (claimed checks = rule modules that exist)."""
import json
import os
import sys
from pathlib import Path

HERE = Path(__file__).resolve().parent
VERIF = HERE.parent
sys.path.insert(0, str(HERE))
from manifest_data import CHECKS, NOT_APPLICABLE, ENGINES, NOTES  # noqa: E402

checks = []
na = list(NOT_APPLICABLE)
for pid, d in sorted(CHECKS.items()):
    if not (VERIF / "cgstatic" / "rules" / f"{pid.lower()}.py").exists():
        na.append({"property_id": pid, "reason": "checker not built yet (static rule set designed in DESIGN.md section 3); not claimed until it exists"})
        continue
    checks.append({
        "property_id": pid,
        "quick_cmd": f"./check {pid} --tier quick",
        "thorough_cmd": f"./check {pid} --tier thorough",
        "evidence_file": f"/verif/evidence/{pid}.json",
        "replay_cmd_template": f"./check {pid} --replay {{path}}",
        "engine": "cgstatic",
        "level_claimed": {"category": "other", "text": d["text"], "design_ref": d["design_ref"]},
        "level_note": d["note"],
        "technique": d["technique"],
    })
have = {c["property_id"] for c in checks} | {n["property_id"] for n in na}
for i in range(1, 21):
    pid = f"C{i:02d}"
    if pid not in have:
        na.append({"property_id": pid, "reason": "checker not built yet (static rule set designed in DESIGN.md section 3); not claimed until it exists"})
m = {
    "version": 1,
    "setup_cmd": "true",
    "hooks": {
        "guard": "CIRCUITGRAPH_VERIF",
        "enable": "no hooks: every check parses /repo's working tree with ast/lark/re._parser and never imports it; the guard variable is reserved and unused",
        "baseline_off_cmd": "/verif/baseline_off.sh",
        "source_commits": [],
        "add_only": True,
    },
    "engines": ENGINES,
    "checks": checks,
    "notes": NOTES,
    "not_applicable": sorted(na, key=lambda x: x["property_id"]),
}
(VERIF / "MANIFEST.json").write_text(json.dumps(m, indent=1) + "\n")
print(f"claimed: {[c['property_id'] for c in checks]}")
print(f"not_applicable: {[n['property_id'] for n in m['not_applicable']]}")
