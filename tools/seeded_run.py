#!/usr/bin/env python3
"""Apply every kept seeded patch to /repo in turn, run the property's quick check, undo the patch."""
import json
import subprocess
import sys
from pathlib import Path

VERIF = Path(__file__).resolve().parent.parent
bad = 0
assert subprocess.run("git -C /repo status --porcelain", shell=True, capture_output=True, text=True).stdout.strip() == "", "/repo not clean"
for d in sorted((VERIF / "seeded").glob("C*_*")):
    meta = json.load(open(d / "meta.json"))
    checks = list(meta["checks"]) if isinstance(meta.get("checks"), dict) else [meta["property"]]
    subprocess.run(f"git -C /repo apply {d / 'patch.diff'}", shell=True, check=True)
    try:
        hit = []
        for c in checks:
            p = subprocess.run(f"./check {c} --no-evidence --evidence-dir /tmp/seed_ev", shell=True, cwd=VERIF, capture_output=True, text=True)
            if p.returncode == 1 and "VIOLATION" in p.stdout:
                hit.append(c)
    finally:
        subprocess.run("git -C /repo checkout -- .", shell=True, check=True)
        subprocess.run("rm -rf /tmp/seed_ev", shell=True)
    print(f"{meta['id']}: {'reported by ' + ','.join(hit) if hit else 'NOT REPORTED'}")
    bad += 0 if hit else 1
sys.exit(1 if bad else 0)
