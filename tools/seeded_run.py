#!/usr/bin/env python3
"""Apply every kept seeded patch to a scratch copy of /repo's committed package in turn (8 at a time) and run the property's quick check against it.
Writes seeded/now.json (which rules report which seed today) and, with --readme, regenerates the table in seeded/README.md."""
import json
import subprocess
import sys
from pathlib import Path

VERIF = Path(__file__).resolve().parent.parent
bad = 0
now = {}
import shutil
import tempfile
from concurrent.futures import ThreadPoolExecutor


def one(d):
    """The patch on a scratch copy of /repo's committed package (outside /repo and /verif, removed afterwards); the property's quick
    check(s) against it."""
    meta = json.load(open(d / "meta.json"))
    checks = list(meta["checks"]) if isinstance(meta.get("checks"), dict) else [meta["property"]]
    tmp = Path(tempfile.mkdtemp(prefix="cg_seed_"))
    try:
        subprocess.run(f"git -C /repo archive HEAD circuitgraph | tar -x -C {tmp}", shell=True, check=True)
        subprocess.run(["git", "apply", str(d / "patch.diff")], cwd=tmp, check=True)
        hit, res = [], {"exit": {}, "rules": []}
        for c in checks:
            p = subprocess.run(f"./check {c} --repo {tmp} --no-evidence --evidence-dir {tmp}/ev", shell=True, cwd=VERIF, capture_output=True, text=True)
            if p.returncode == 1 and "VIOLATION" in p.stdout:
                hit.append(c)
            res["exit"][c] = p.returncode
            res["rules"] += sorted({l.split("violated ")[1].split(" at ")[0] for l in p.stdout.splitlines() if " violated " in l})
        return meta, hit, res
    finally:
        shutil.rmtree(tmp, ignore_errors=True)


only = [a for a in sys.argv[1:] if not a.startswith("--")]
dirs = [d for d in sorted((VERIF / "seeded").glob("C*_*")) if not only or d.name in only]
with ThreadPoolExecutor(int(__import__("os").environ.get("SEEDED_RUN_JOBS", "8"))) as ex:
    for meta, hit, res in ex.map(one, dirs):
        now[meta["id"]] = res
        if meta.get("expected") == "silent":
            # a seed that a later repair of the repository made harmless (see meta.json): the checks must now stay silent on it
            print(f"{meta['id']}: {'SILENT as expected (obsolete after ' + meta.get('obsolete_after_fix', '?') + ')' if not hit else 'REPORTED although the change no longer breaks the property'}", flush=True)
            bad += 1 if hit else 0
            continue
        print(f"{meta['id']}: {'reported by ' + ','.join(hit) if hit else 'NOT REPORTED'}", flush=True)
        bad += 0 if hit else 1
if only:
    sys.exit(1 if bad else 0)
(VERIF / "seeded" / "now.json").write_text(json.dumps(now, indent=1, sort_keys=True) + "\n")
if "--readme" in sys.argv:
    readme = VERIF / "seeded" / "README.md"
    text = readme.read_text()
    head = "| seed | property | round | reported at first run | rules reporting it now |"
    i = text.index(head)
    j = text.index("\n\n", i)
    rows = [head, "|---|---|---|---|---|"]
    for d in sorted((VERIF / "seeded").glob("C*_*")):
        meta = json.load(open(d / "meta.json"))
        rnd = {"a": 1, "b": 1, "c": 2, "d": 2, "e": 3, "f": 3, "g": 4, "h": 4, "i": 5, "j": 5, "k": 6, "l": 6, "m": 7, "n": 7, "o": 8, "p": 8, "q": 9, "r": 9, "s": 10, "t": 10, "u": 11, "v": 11, "w": 12, "x": 12}[meta["id"][-1]]
        first = meta.get("first_run_reported", meta.get("caught"))
        rows.append(f"| {meta['id']} | {meta['property']} | {rnd} | {'yes' if first else 'no'} | {', '.join(now[meta['id']]['rules']) or 'not reported (' + meta.get('not_reported_reason', 'obsolete after fix ' + meta['obsolete_after_fix'] if meta.get('obsolete_after_fix') else '?') + ')'} |")
    readme.write_text(text[:i] + "\n".join(rows) + text[j:])
sys.exit(1 if bad else 0)
