#!/bin/bash
# run every check against a scratch worktree; print the checks that do not exit 0
wt=$1; shift
ids=${@:-C01 C02 C03 C04 C05 C06 C07 C08 C09 C10 C11 C12 C14 C15 C16 C17 C18 C19 C20}
cd /verif
for c in $ids; do
  ( out=$(./check $c --repo $wt --no-evidence --evidence-dir /tmp/wt_ev_$$_$c 2>&1); rc=$?; if [ $rc -ne 0 ]; then echo "== $c exit $rc"; echo "$out" | grep -A2 " violated \|ANALYSIS-ERROR\|^cgstatic.*Unsupported\|^[A-Za-z]*Error" | cut -c1-260 | tail -6; fi; rm -rf /tmp/wt_ev_$$_$c ) &
done
wait
echo "done $wt"
