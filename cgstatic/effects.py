"""
E2 - interprocedural effect / alias / freshness analysis.

Abstract value (AV): a set of *tags* plus an inferred kind.  A tag
(p, part) says "this value may be (a part of) the mutable state reachable from
the object that was passed as parameter p of the function under analysis":

    part = 'self'      the object itself (a Circuit, a graph, a dict ...)
           'graph'     the networkx graph of a Circuit
           'nodeview'  G.nodes / G.edges / G.pred ... (views into the graph)
           'attrdict'  G.nodes[n] (the attribute dict of one node)
           'registry'  the blackbox registry dict of a Circuit
           'regvalues' .values()/.items() view of the registry
           'blackbox'  a BlackBox object (shared by design; never mutated)
           'bbfield'   a BlackBox's internal input/output set

Effects are (p, part, how, line).  Per-function summaries (mutated parts of
parameters, what the return value may alias, what is stored into which
parameter) are computed to a fixpoint over the resolved call graph.
"""
import ast

from .astutil import docstring_param_types, dotted, func_params, kwarg, method_name, walk_no_nested
from .core import AnalysisError, norm

VIOLATING_PARTS = {"self", "graph", "nodeview", "attrdict", "registry", "regvalues"}
BB_PARTS = {"blackbox", "bbfield"}

MODULES = {
    "circuit": "circuit.py",
    "tx": "tx.py",
    "sat": "sat.py",
    "props": "props.py",
    "io": "io.py",
    "utils": "utils.py",
    "logic": "logic.py",
    "parsing": "parsing/__init__.py",
    "parsing.verilog": "parsing/verilog.py",
    "parsing.fast_verilog": "parsing/fast_verilog.py",
}

# library methods -----------------------------------------------------------
MUTATOR_METHODS = {
    # networkx graph
    "add_node", "add_nodes_from", "remove_node", "remove_nodes_from", "add_edge", "add_edges_from",
    "add_weighted_edges_from", "remove_edge", "remove_edges_from", "update", "clear", "clear_edges",
    # dict / set / list / queue
    "pop", "popitem", "setdefault", "append", "extend", "insert", "remove", "discard", "add", "sort", "reverse",
    "difference_update", "intersection_update", "symmetric_difference_update", "put", "appendleft", "popleft",
    "__setitem__", "__delitem__", "__ior__", "__iand__", "__isub__", "__ixor__", "__iadd__",
}
# mutators that exist on networkx graphs (a `reverse`/`pop`/`sort` on a graph is not one)
PURE_VIEW_METHODS = {
    # return something that still refers to the receiver's state
    "subgraph", "edge_subgraph", "nodes", "edges", "items", "values", "keys", "get", "predecessors", "successors",
    "neighbors", "in_edges", "out_edges", "adj", "pred", "succ", "nbunch_iter", "get_edge_data", "data", "__getitem__",
    "to_directed_class", "to_undirected_class",
}
PURE_FRESH_METHODS = {
    "copy", "in_degree", "out_degree", "degree", "has_node", "has_edge", "number_of_nodes", "number_of_edges", "order", "size",
    "is_directed", "is_multigraph", "__contains__", "__len__", "to_undirected", "to_directed", "has_successor", "has_predecessor",
    "union", "intersection", "difference", "symmetric_difference", "issubset", "issuperset", "isdisjoint", "index", "count",
    "split", "rsplit", "join", "strip", "lstrip", "rstrip", "replace", "startswith", "endswith", "lower", "upper", "format", "zfill",
    "isdigit", "isidentifier", "encode", "decode", "partition", "find", "rfind", "title", "capitalize",
    "empty", "qsize", "group", "groups", "start", "end", "span",
    "absolute", "with_suffix", "exists", "is_file", "mkdir", "glob", "unlink", "read", "write", "flush", "close", "seek", "read_text",
    "id", "obj",
}
PURE_FUNCS = {
    "len", "set", "list", "tuple", "sorted", "dict", "frozenset", "str", "repr", "int", "bool", "float", "isinstance", "print", "any", "all",
    "sum", "min", "max", "enumerate", "zip", "reversed", "iter", "next", "range", "map", "filter", "type", "id", "hash", "bytes", "open",
    "reduce", "combinations", "product", "permutations", "chain", "defaultdict", "Queue", "Path", "getattr", "hasattr", "abs", "round",
    "NamedTemporaryFile", "format", "vars", "callable", "super",
    # logging / warnings / diagnostics never touch their arguments
    "debug", "info", "warning", "error", "exception", "critical", "log", "warn", "pprint", "pformat", "dumps", "cast", "TypeVar", "namedtuple", "field", "lru_cache", "wraps",
    "islice", "accumulate", "zip_longest", "count", "repeat", "starmap", "groupby", "partial", "deque", "Counter", "OrderedDict", "frozenset", "bytes", "divmod", "pow",
}
NX_MUTATING_FUNCS = {"set_node_attributes", "set_edge_attributes", "freeze"}


class AV:
    """tags: what this value *is*; g / r: what its graph / registry field is (Circuit objects
    built with graph=/blackboxes=); elems: what it *contains* (container elements, registry values)."""

    __slots__ = ("tags", "g", "r", "elems", "kind", "fields", "cls", "fn", "pos")

    def __init__(self, tags=frozenset(), kind=None, g=frozenset(), r=frozenset(), elems=frozenset(), fields=None, cls=None, fn=frozenset()):
        # fn: the callables this value may be or may hold (a repository function, a lambda, a functools.partial, an
        # operator.methodcaller / attrgetter, a bound method of a helper object) - what a call through it may reach
        self.fn = frozenset(fn)
        self.tags = frozenset(tags)
        self.g = frozenset(g)
        self.r = frozenset(r)
        self.elems = frozenset(elems)
        self.kind = kind
        # kind == "record": an instance of a helper class the package defines for its own use (NamedTuple, dataclass,
        # small state object); `fields` maps attribute names to abstract values (field-sensitive), `cls` = (file, class)
        self.fields = fields
        self.cls = cls
        # the result of a function that returns `(x, y)` on every path: the abstract values position by position, so that
        # `a, b = f(...)` gives each name its own (None: not known by position)
        self.pos = None

    def join(self, other):
        if other is None:
            return self
        if self.pos is not None and other.pos is not None and len(self.pos) == len(other.pos) and self.kind != "record" and other.kind != "record":
            out = self._join(other)
            out.pos = [a.join(b) for a, b in zip(self.pos, other.pos)]
            return out
        return self._join(other)

    def _join(self, other):
        if self.kind == "record" or other.kind == "record":
            if self.kind == other.kind and self.cls == other.cls:
                if self.fields is other.fields:
                    return self
                f = dict(self.fields)
                for k, v in other.fields.items():
                    f[k] = f[k].join(v) if k in f else v
                return AV((), "record", fields=f, cls=self.cls, fn=self.fn | other.fn)
            if self.kind == other.kind == "record" and self.cls is not None and other.cls is not None and self.fields is not None and other.fields is not None:
                # one of several helper classes (strategy objects picked at run time): the fields of both, the classes remembered -
                # a method call is analysed for every class the object may have
                alts = frozenset(alts_of(self)) | frozenset(alts_of(other))
                f = dict(self.fields)
                for k, v in other.fields.items():
                    f[k] = f[k].join(v) if k in f else v
                return AV((), "record", fields=f, cls=(self.cls[0], "|".join(sorted(a[1] for a in alts)), alts), fn=self.fn | other.fn)
            return flatten_record(self).join(flatten_record(other))
        if self.kind == other.kind:
            k = self.kind
        elif self.kind and other.kind:
            k = None
        else:
            k = self.kind or other.kind
        return AV(self.tags | other.tags, k, self.g | other.g, self.r | other.r, self.elems | other.elems, fn=self.fn | other.fn)

    def with_fn(self, fn):
        return AV(self.tags, self.kind, self.g, self.r, self.elems, self.fields, self.cls, fn=fn)

    def any_tags(self):
        return self.tags | self.g | self.r | self.elems

    def key(self):
        return (self.tags, self.g, self.r, self.elems, self.kind, self.fn)

    def __eq__(self, o):
        return isinstance(o, AV) and self.key() == o.key()

    def __hash__(self):
        return hash(self.key())

    def __repr__(self):
        return f"AV(is={sorted(self.tags)}, g={sorted(self.g)}, r={sorted(self.r)}, elems={sorted(self.elems)}, {self.kind})"


FRESH = AV()


def alts_of(av):
    """The helper classes a record value may be an instance of: [(file, class), ...]."""
    if av.cls is None:
        return []
    if len(av.cls) == 3:
        return sorted(av.cls[2])
    return [av.cls]


def as_class(av, cls):
    return av if av.cls == cls else AV(av.tags, av.kind, av.g, av.r, av.elems, av.fields, cls, fn=av.fn)


def flatten_record(av, depth=0):
    """A record seen from outside the field-sensitive part of the analysis: a value that may be / may hold anything its
    fields are or hold."""
    if av.kind != "record" or depth > 4:
        return av
    tags, g, r, elems, fn = set(), set(), set(), set(), set(av.fn)
    for f in (av.fields or {}).values():
        f = flatten_record(f, depth + 1)
        elems |= set(f.tags) | set(f.elems)
        g |= set(f.g)
        r |= set(f.r)
        fn |= f.fn
    return AV((), None, elems=elems | g | r, fn=fn)


def compose(part0, rel):
    if rel == "self":
        return part0
    return rel


def project(av, rel):
    av = flatten_record(av)
    """Tags denoted by 'part `rel` of the value av'."""
    if rel == "self":
        return set(av.tags)
    out = set()
    if rel == "graph":
        out |= {(p, compose(part, "graph")) for (p, part) in av.tags if part == "self"}
        out |= {(p, part) for (p, part) in av.tags if part != "self" and part not in BB_PARTS}
        out |= av.g
    elif rel in ("nodeview", "attrdict"):
        out |= {(p, rel) for (p, part) in av.tags if part not in BB_PARTS and part not in ("registry", "regvalues")}
        out |= {(p, rel) for (p, part) in av.g}
    elif rel in ("registry", "regvalues"):
        out |= {(p, rel) for (p, part) in av.tags if part in ("self", "registry", "regvalues")}
        out |= {(p, rel) for (p, part) in av.r}
    elif rel in ("blackbox", "bbfield"):
        out |= {(p, rel) for (p, part) in av.tags if part in ("self", "registry", "regvalues", "blackbox", "bbfield")}
        out |= {(p, rel) for (p, part) in av.r}
        out |= {(p, rel) for (p, part) in av.elems if part in BB_PARTS}
    else:
        out |= {(p, rel) for (p, part) in av.tags}
    return out


class Summary:
    def __init__(self, fi):
        self.fi = fi
        self.params = func_params(fi.node)
        self.mut = set()  # (param, relpart, rootcause)
        self.ret = set()  # (slot, param, relpart)   slot in tags/g/r/elems
        self.ret_kind = None
        self.stores = set()  # (dst_param, slot, src_param, src_relpart)
        self.effects = []
        self.unknown_calls = []
        self.returns_seen = 0
        self.ret_fn = frozenset()  # callables the returned value may be (descriptors of AV.fn: valid across functions)
        self.ret_pos = None  # [(ret-set, kind), ...] per position when every `return` gives a tuple literal of one length

    def key(self):
        return (frozenset(self.mut), frozenset(self.ret), self.ret_kind, frozenset(self.stores), self.ret_fn,
                None if self.ret_pos is None else tuple((frozenset(r_), k_) for r_, k_ in self.ret_pos))


class Resolver:
    """Resolve dotted callee names to repository functions / classes."""

    def __init__(self, repo):
        self.repo = repo
        self.pkg_exports = {}  # name -> ('func', file, qual) | ('class', file, name) | ('module', file)
        self._parse_init()
        self.file_aliases = {}
        for rel in repo.src:
            self.file_aliases[rel] = self._parse_imports(rel)
        # module-level dispatch tables: NAME = {key: function, ...} / (f, g, ...) / [f, g]
        self.function_tables = {}
        self.tuple_classes = {}  # (file, NAME) -> [field names]   for NAME = namedtuple("NAME", ...)
        # (file, NAME) -> value expression of the module-level `NAME = <expr>` / `NAME: T = <expr>` (tables of callables are read through AV.fn)
        self.module_consts = {}
        for rel_, tree_ in repo.tree.items():
            for st_ in tree_.body:
                if isinstance(st_, ast.Assign) and len(st_.targets) == 1 and isinstance(st_.targets[0], ast.Name):
                    self.module_consts[(rel_, st_.targets[0].id)] = st_.value
                elif isinstance(st_, ast.AnnAssign) and isinstance(st_.target, ast.Name) and st_.value is not None:
                    self.module_consts[(rel_, st_.target.id)] = st_.value
        # registries filled by decorators: `@_rule(_SINK_RULES, "input")` (the table is handed to the decorator) or `@_handles("and")`
        # (the decorator's body stores into a module-level table): the decorated function may be any member of such a table
        self.decorator_registered = {}  # (file, TABLE) -> {function name}
        for rel_, tree_ in repo.tree.items():
            consts_ = {k_[1] for k_ in self.module_consts if k_[0] == rel_}
            defs_ = {st_.name: st_ for st_ in tree_.body if isinstance(st_, ast.FunctionDef)}
            for st_ in ast.walk(tree_):
                if not isinstance(st_, ast.FunctionDef):
                    continue
                for dec_ in st_.decorator_list:
                    if not (isinstance(dec_, ast.Call) and isinstance(dec_.func, ast.Name) and dec_.func.id in defs_):
                        continue
                    tables_ = {a_.id for a_ in dec_.args if isinstance(a_, ast.Name) and a_.id in consts_}
                    for x_ in ast.walk(defs_[dec_.func.id]):
                        tgt_ = None
                        if isinstance(x_, ast.Call) and isinstance(x_.func, ast.Attribute) and x_.func.attr in ("append", "add", "setdefault", "update", "insert", "extend") and isinstance(x_.func.value, ast.Name):
                            tgt_ = x_.func.value.id
                        elif isinstance(x_, (ast.Assign, ast.AugAssign)):
                            for t_ in (x_.targets if isinstance(x_, ast.Assign) else [x_.target]):
                                if isinstance(t_, ast.Subscript) and isinstance(t_.value, ast.Name):
                                    tgt_ = t_.value.id
                        if tgt_ in consts_:
                            tables_.add(tgt_)
                    for t_ in tables_:
                        self.decorator_registered.setdefault((rel_, t_), set()).add(st_.name)
        self.row_tables = {}  # (file, NAME) -> [row expression nodes]   for NAME = [(a, lambda ...: ..., "msg"), ...]
        self.accessors = {}  # (file, NAME) -> ('method' | 'attr', name)   for NAME = methodcaller("io") / attrgetter("x")
        for rel, tree in repo.tree.items():
            for st in tree.body:
                if isinstance(st, ast.Assign) and len(st.targets) == 1 and isinstance(st.targets[0], ast.Name) and isinstance(st.value, ast.Call):
                    cn = (dotted(st.value.func) or "").split(".")[-1]
                    a0 = st.value.args
                    if cn == "namedtuple" and len(a0) >= 2:
                        fl = a0[1]
                        if isinstance(fl, ast.Constant) and isinstance(fl.value, str):
                            self.tuple_classes[(rel, st.targets[0].id)] = fl.value.replace(",", " ").split()
                        elif isinstance(fl, (ast.List, ast.Tuple)) and all(isinstance(e, ast.Constant) for e in fl.elts):
                            self.tuple_classes[(rel, st.targets[0].id)] = [e.value for e in fl.elts]
                    elif cn in ("methodcaller", "attrgetter") and len(a0) == 1 and isinstance(a0[0], ast.Constant) and isinstance(a0[0].value, str) and not st.value.keywords:
                        self.accessors[(rel, st.targets[0].id)] = ("method" if cn == "methodcaller" else "attr", a0[0].value)
                if isinstance(st, ast.Assign) and len(st.targets) == 1 and isinstance(st.targets[0], ast.Name) and isinstance(st.value, (ast.Tuple, ast.List)) \
                        and st.value.elts and all(isinstance(e, (ast.Tuple, ast.List)) for e in st.value.elts):
                    self.row_tables[(rel, st.targets[0].id)] = list(st.value.elts)
                if isinstance(st, ast.Assign) and len(st.targets) == 1 and isinstance(st.targets[0], ast.Name):
                    vals = st.value.values if isinstance(st.value, ast.Dict) else st.value.elts if isinstance(st.value, (ast.Tuple, ast.List)) else None
                    if not vals:
                        continue
                    targets = []
                    for v in vals:
                        for leaf in (v.elts if isinstance(v, (ast.Tuple, ast.List)) else [v]):
                            d = dotted(leaf) if isinstance(leaf, (ast.Name, ast.Attribute)) else None
                            t = self.resolve(rel, d, None) if d else None
                            if t and t[0] == "func":
                                targets.append((t[1], t[2]))
                    if targets:
                        self.function_tables[(rel, st.targets[0].id)] = targets

    def _mod_file(self, modname):
        # 'circuitgraph.io' -> io.py
        if modname == "circuitgraph":
            return "__init__.py"
        if modname.startswith("circuitgraph."):
            m = modname[len("circuitgraph."):]
            return MODULES.get(m) or self.repo.module_rel(modname)
        return None

    def _lookup_in_file(self, rel, name, depth=0):
        if rel is None or depth > 4:
            return None
        if rel == "__init__.py":
            return self.pkg_exports.get(name)
        if (rel, name) in self.repo.funcs:
            return ("func", rel, name)
        if (rel, name) in self.repo.classes:
            return ("class", rel, name)
        # re-export (parsing/__init__.py)
        for st in self.repo.tree[rel].body:
            if isinstance(st, ast.ImportFrom) and (st.module or st.level):
                for al in st.names:
                    if (al.asname or al.name) == name:
                        f = self.repo.module_rel(st.module, st.level, rel) if st.level else self._mod_file(st.module)
                        if st.level and f and f.endswith("__init__.py"):
                            sub = self.repo.imported_names(rel).get(name)
                            if sub and sub[0] == "module":
                                return ("module", sub[1])
                        if f == "__init__.py":
                            return self.pkg_exports.get(al.name)
                        r = self._lookup_in_file(f, al.name, depth + 1)
                        if r:
                            return r
        return None

    def _parse_init(self):
        tree = self.repo.tree["__init__.py"]
        for st in tree.body:
            if isinstance(st, ast.ImportFrom) and st.module:
                if st.module == "circuitgraph":
                    for al in st.names:
                        if al.name in MODULES:
                            self.pkg_exports[al.asname or al.name] = ("module", MODULES[al.name])
                    continue
                f = self._mod_file(st.module)
                for al in st.names:
                    r = self._lookup_in_file(f, al.name)
                    if r:
                        self.pkg_exports[al.asname or al.name] = r
        for m, f in MODULES.items():
            if "." not in m:
                self.pkg_exports.setdefault(m, ("module", f))

    def _parse_imports(self, rel):
        al = {}
        for st in ast.walk(self.repo.tree[rel]):
            if isinstance(st, ast.Import):
                for a in st.names:
                    if a.name == "circuitgraph":
                        al[a.asname or "circuitgraph"] = ("module", "__init__.py")
                    elif a.name == "networkx":
                        al[a.asname or "networkx"] = ("nx",)
                    elif a.name.startswith("circuitgraph."):
                        f = self._mod_file(a.name)
                        if f and a.asname:
                            al[a.asname] = ("module", f)
            elif isinstance(st, ast.ImportFrom) and (st.module or st.level):
                f = self.repo.module_rel(st.module, st.level, rel) if st.level else self._mod_file(st.module)
                if f is None:
                    continue
                for a in st.names:
                    r = None
                    if f.endswith("__init__.py"):  # `from . import _helpers`, `from circuitgraph import tx`: a module of the package
                        d = f[: -len("__init__.py")]
                        for sub in (d + a.name + ".py", d + a.name + "/__init__.py"):
                            if sub in self.repo.tree:
                                r = ("module", sub)
                                break
                    if r is None:
                        r = self._lookup_in_file(f, a.name)
                    if r is None and st.module == "circuitgraph" and a.name in MODULES:
                        r = ("module", MODULES[a.name])
                    if r:
                        al[a.asname or a.name] = r
        return al

    def resolve(self, rel, name_dotted, scope_fi=None):
        """-> ('func', file, qual) | ('class', file, name) | ('nx', fname) | None"""
        if not name_dotted:
            return None
        parts = name_dotted.split(".")
        if any(p.endswith("()") or p.endswith("[]") for p in parts):
            return None
        head = parts[0]
        # nested functions / same-module functions
        if len(parts) == 1:
            fi = scope_fi
            while fi is not None:
                q = f"{fi.qual}.{head}"
                if (rel, q) in self.repo.funcs:
                    return ("func", rel, q)
                fi = fi.parent
            if (rel, head) in self.repo.funcs:
                return ("func", rel, head)
            if (rel, head) in self.repo.classes:
                return ("class", rel, head)
        cur = self.file_aliases.get(rel, {}).get(head)
        if cur is None:
            return None
        for p in parts[1:]:
            if cur[0] == "nx":
                return ("nx", ".".join(parts[1:]))
            if cur[0] == "module":
                nxt = self._lookup_in_file(cur[1], p)
                if nxt is None:
                    return None
                cur = nxt
            elif cur[0] == "class":
                q = f"{cur[2]}.{p}"
                if (cur[1], q) in self.repo.funcs:
                    cur = ("func", cur[1], q)
                else:
                    return None
            else:
                return None
        if cur[0] in ("func", "class"):
            return cur
        return None


def kind_from_doc(typ):
    if typ is None:
        return None
    t = typ.replace("circuitgraph.", "")
    if t.startswith("Circuit") or t.startswith("Circut"):
        return "Circuit"
    if t.startswith("BlackBox"):
        return "BlackBox"
    if "DiGraph" in t:
        return "Graph"
    return None


class _AliasDict(dict):
    """Table keyed by (file, qualified name); an inherited method's key `(file, 'Circuit.m')` answers with the entry of the
    function that defines it (`(file of the mixin, 'Mixin.m')`)."""

    def __init__(self, d, aliases):
        super().__init__(d)
        self._aliases = aliases

    def __missing__(self, k):
        if k in self._aliases and dict.__contains__(self, self._aliases[k]):
            return dict.__getitem__(self, self._aliases[k])
        raise KeyError(k)

    def get(self, k, default=None):
        try:
            return self[k]
        except KeyError:
            return default

    def __contains__(self, k):
        return dict.__contains__(self, k) or (k in self._aliases and dict.__contains__(self, self._aliases[k]))


class Analyzer:
    def __init__(self, repo):
        self.repo = repo
        self.res = Resolver(repo)
        self.summ = _AliasDict({k: Summary(fi) for k, fi in repo.funcs.items() if k not in repo.inherited}, repo.inherited)
        # a class of the package that Circuit / BlackBox inherits from (a mixin, possibly in its own module) holds methods of that class
        self.class_kind = {}
        for top in ("Circuit", "BlackBox"):
            for (r_, c_) in repo.class_mro.get(("circuit.py", top), [("circuit.py", top)]):
                self.class_kind.setdefault((r_, c_), top)
        self.observed_kinds = {}
        self.inferred_kinds = {}
        self.module_const_fn = {}
        self.lambda_nodes = {}  # id(Lambda node) -> node                             } side tables of the callable descriptors
        self.hinsts = {}  # ((file, CONST), index) -> record value: an instance of a helper class with __call__ held by a module-level constant
        self.mcalls = {}  # id(methodcaller(name, *args) call node) -> (method names, bound, keywords)
        self.partials = {}  # id(partial(...) call node) -> (callables, bound, keywords) } carried in AV.fn
        self.recmethods = {}  # id(Attribute node) -> (record value, method name)       }
        self.boundmethods = {}  # id(Attribute node) -> (receiver value, method name): `c.set_output` used as a value
        self.class_methods = {}
        for (rel, q), fi in repo.funcs.items():
            if fi.cls and q.count(".") == 1 and (rel, q) not in repo.inherited:
                self.class_methods.setdefault(fi.node.name, []).append(fi)
        # methods a class decorator of the package installs on Circuit / BlackBox when the class statement runs:
        # `setattr(cls, name, partialmethod(cls._prunable, stage=..., loads=...))` - a call of the installed name is a call of the
        # method(s) the stored value is made from (keyword-bound only: the positional parameters keep their places)
        self.installed_methods = {}
        self.installed_funcs = set()  # module-level functions stored on a class: their first parameter is the object, whatever its name
        for (r_, c_), kind_ in self.class_kind.items():
            cdef = repo.classes.get((r_, c_))
            for dec in (cdef.decorator_list if cdef is not None else ()):
                dfi = repo.func_of_callee(r_, dec.func if isinstance(dec, ast.Call) else dec)
                if dfi is None:
                    continue
                given = {k.arg for k in dec.keywords if k.arg} | {a.value for a in dec.args if isinstance(a, ast.Constant) and isinstance(a.value, str)} if isinstance(dec, ast.Call) else set()
                cls_param = next(iter(func_params(dfi.node)), None)
                for x in ast.walk(dfi.node):
                    name_expr = value = None
                    if isinstance(x, ast.Call) and isinstance(x.func, ast.Name) and x.func.id == "setattr" and len(x.args) == 3:
                        name_expr, value = x.args[1], x.args[2]
                    elif isinstance(x, ast.Assign) and len(x.targets) == 1 and isinstance(x.targets[0], ast.Attribute) and isinstance(x.targets[0].value, ast.Name) and x.targets[0].value.id == cls_param:
                        # `cls._claim_names = _claim_names`: a function of the decorator's module becomes a method
                        name_expr, value = ast.Constant(value=x.targets[0].attr), x.value
                    if value is None:
                        continue
                    fn_targets = [f_ for v_ in ast.walk(value) if isinstance(v_, ast.Name) for f_ in [repo.func_of_name(dfi.file, v_.id)] if f_ is not None and f_.cls is None and func_params(f_.node)]
                    if fn_targets and isinstance(name_expr, ast.Constant) and not any(isinstance(v_, ast.Call) and len(v_.args) > 1 for v_ in ast.walk(value)):
                        for f_ in fn_targets:
                            self.installed_methods.setdefault((kind_, name_expr.value), []).append(f_)
                            self.installed_funcs.add((f_.file, f_.qual))
                        continue
                    names = {name_expr.value} if isinstance(name_expr, ast.Constant) and isinstance(name_expr.value, str) else given
                    positional_bound = any(isinstance(v_, ast.Call) and (dotted(v_.func) or "").split(".")[-1] in ("partialmethod", "partial") and len(v_.args) > 1 for v_ in ast.walk(value))
                    targets = [m for v_ in ast.walk(value) if isinstance(v_, ast.Attribute) and isinstance(v_.value, ast.Name)
                               for m in self.class_methods.get(v_.attr, []) if self.class_kind.get((m.file, m.cls)) == kind_]
                    if targets and not positional_bound:
                        for nm_ in names:
                            self.installed_methods.setdefault((kind_, nm_), []).extend(t for t in targets if t not in self.installed_methods.get((kind_, nm_), []))
        self.param_kinds = _AliasDict({}, repo.inherited)
        for k, fi in repo.funcs.items():
            if k in repo.inherited:
                continue
            doc = docstring_param_types(fi.node)
            pk = {}
            params = func_params(fi.node)
            for p in params:
                pk[p] = kind_from_doc(doc.get(p))
            if fi.cls and params and params[0] == "self":
                pk["self"] = self.class_kind.get((fi.file, fi.cls))
            self.param_kinds[k] = pk
        self.notes = []
        self.call_sites = 0
        self.resolved_sites = 0
        self.mutator_sites = 0

    def run(self, max_rounds=12):
        for rnd in range(max_rounds):
            changed = False
            self.call_sites = self.resolved_sites = self.mutator_sites = 0
            self.observed_kinds = {}
            for k in sorted(self.repo.funcs):
                old = self.summ[k].key()
                s = FuncAnalysis(self, self.repo.funcs[k]).analyze()
                self.summ[k] = s
                if s.key() != old:
                    changed = True
            # a private helper's undocumented parameter has the kind of what every call site in the package passes for it
            # (`def _gate_lines(c)` called only with Circuit objects): the public functions document theirs, users cannot call these
            for (k, p_), kinds in sorted(self.observed_kinds.items()):
                fi = self.repo.funcs.get(k)
                # (the functions of a private module - `_walk.py`, `_impl/counting.py` - are private helpers whatever their own names)
                private_module = any(part.startswith("_") and not part.startswith("__") for part in k[0].split("/"))
                if fi is None or not (fi.node.name.startswith("_") and not fi.node.name.startswith("__") or fi.parent is not None or private_module):
                    continue
                if self.param_kinds[k].get(p_) is None and p_ != "self" and len(kinds) == 1 and next(iter(kinds)) in ("Circuit", "BlackBox", "Graph") and (k, p_) not in self.inferred_kinds:
                    self.param_kinds[k][p_] = next(iter(kinds))
                    self.inferred_kinds[(k, p_)] = next(iter(kinds))
                    changed = True
            if not changed:
                self.rounds = rnd + 1
                return
        raise AnalysisError("effect analysis did not reach a fixpoint")


class FuncAnalysis:
    def __init__(self, an, fi):
        self.an = an
        self.fi = fi
        self.repo = an.repo
        self.rel = fi.file
        self.s = Summary(fi)
        self.params = self.s.params
        self.ret_av = None
        self.ret_pos_avs = None  # per-position values of `return (x, y)`; False once a return is not such a tuple
        self.fn_vars = {}  # local name -> [(file, qual)] of the repository functions it may denote
        self.lambda_vars = {}  # local name -> [ast.Lambda] it may denote (columns of module-level rule tables, local lambdas)
        self.accessor_vars = {}  # local name -> ('method' | 'attr', name) for methodcaller / attrgetter objects
        self._fn_seen = {}  # id(expression node) -> callables its value may be / hold (see AV.fn)
        self.partial_vars = {}  # local name -> (callee expression node, [bound AVs], {bound keyword AVs})
        self.inline_stack = []
        self.in_loop = 0
        self.const_vars = {}  # loop variable -> [str constants] for `for kind in ("inputs", "outputs"):`
        self.local_rows = {}  # local name -> [column, ...]; column = (lambdas, function keys): rule tables filtered / re-packed locally

    def function_targets(self, node):
        """Repository functions an expression may denote: a function name, TABLE[key], TABLE.get(key[, default])."""
        tabs = self.an.res.function_tables
        if isinstance(node, ast.Name):
            if node.id in self.fn_vars:
                return self.fn_vars[node.id]
            t = self.an.res.resolve(self.rel, node.id, self.fi)
            if t and t[0] == "func" and node.id not in self.env:
                return [(t[1], t[2])]
            return None
        if isinstance(node, ast.Subscript) and isinstance(node.value, ast.Name) and (self.rel, node.value.id) in tabs:
            return tabs[(self.rel, node.value.id)]
        if isinstance(node, ast.Call) and isinstance(node.func, ast.Attribute) and node.func.attr == "get" and isinstance(node.func.value, ast.Name) and (self.rel, node.func.value.id) in tabs:
            out = list(tabs[(self.rel, node.func.value.id)])
            if len(node.args) > 1:
                extra = self.function_targets(node.args[1])
                if extra:
                    out += extra
            return out
        if isinstance(node, ast.IfExp):
            a, b = self.function_targets(node.body), self.function_targets(node.orelse)
            if a and b:
                return a + b
        return None

    # ------------------------------------------------------------------
    def analyze(self):
        env = {}
        pk = self.an.param_kinds[(self.rel, self.fi.qual)]
        for p in self.params:
            env[p] = AV({(p, "self")}, pk.get(p))
        a = self.fi.node.args
        if a.vararg:
            env[a.vararg.arg] = FRESH
        if a.kwarg:
            env[a.kwarg.arg] = FRESH
        # closure: parameters of enclosing functions are visible with tags prefixed by '^'
        outer = self.fi.parent
        while outer is not None:
            opk = self.an.param_kinds[(self.rel, outer.qual)]
            for p in func_params(outer.node):
                env.setdefault(p, AV({(f"^{p}", "self")}, opk.get(p)))
            outer = outer.parent
        self.env = env
        self.block(self.fi.node.body)
        if self.ret_av is not None:
            for slot in ("tags", "g", "r", "elems"):
                for (p, part) in getattr(self.ret_av, slot):
                    self.s.ret.add((slot, p, part))
            self.s.ret_kind = self.ret_av.kind
            self.s.ret_fn = frozenset(d for d in self.ret_av.fn if d[0] in ("func", "lambda", "partial", "hclass", "accessor", "mcall", "hinst"))
        if self.ret_pos_avs:
            self.s.ret_pos = [({(slot, p, part) for slot in ("tags", "g", "r", "elems") for (p, part) in getattr(av_, slot)}, av_.kind) for av_ in self.ret_pos_avs]
        return self.s

    # ---- environment helpers ------------------------------------------
    def join_env(self, a, b):
        out = dict(a)
        for k, v in b.items():
            out[k] = v.join(a[k]) if k in a else v
        return out

    def effect(self, av, how, node, relpart="self"):
        root = how.split(" via ")[0].split(" (in nested")[0]
        for (p, part) in sorted(project(av, relpart)):
            self.s.mut.add((p, part, root))
            self.s.effects.append({"param": p, "part": part, "how": how, "line": getattr(node, "lineno", None), "text": norm(node)[:160]})

    def root_name(self, node):
        while isinstance(node, (ast.Attribute, ast.Subscript)):
            node = node.value
        if isinstance(node, ast.Name) and node.id in self.env:
            return node.id
        return None

    def store_into(self, holder_node, slot, carried):
        """The object denoted by holder_node now has `carried` tags in `slot`."""
        carried = frozenset(carried)
        if not carried:
            return
        holder = self.ev_quiet(holder_node)
        # holder is (part of) a parameter: record in the summary
        for (p, part) in holder.tags:
            if part == "self":
                for (q, qpart) in carried:
                    if q != p:
                        self.s.stores.add((p, slot, q, qpart))
            elif part == "registry":
                for (q, qpart) in carried:
                    if q != p:
                        self.s.stores.add((p, "elems", q, qpart))
        name = self.root_name(holder_node)
        if name is not None:
            cur = self.env[name]
            direct = isinstance(holder_node, ast.Name)
            if direct:
                kw = {"g": cur.g, "r": cur.r, "elems": cur.elems}
                kw[slot if slot in kw else "elems"] = kw[slot if slot in kw else "elems"] | carried
                self.env[name] = AV(cur.tags, cur.kind, kw["g"], kw["r"], kw["elems"], cur.fields, cur.cls, fn=cur.fn)
            else:
                # stored somewhere inside the object held by `name`
                s2 = "r" if (isinstance(holder_node, ast.Attribute) and holder_node.attr == "blackboxes" and slot == "self_replace") else "elems"
                self.env[name] = AV(cur.tags, cur.kind, cur.g, cur.r, cur.elems | carried, cur.fields, cur.cls, fn=cur.fn)

    def ev_quiet(self, node):
        saved_eff = len(self.s.effects)
        saved_mut = set(self.s.mut)
        saved_unknown = len(self.s.unknown_calls)
        saved_counts = (self.an.call_sites, self.an.resolved_sites, self.an.mutator_sites)
        saved_env = dict(self.env)
        saved_stores = set(self.s.stores)
        av = self.ev(node)
        del self.s.effects[saved_eff:]
        self.s.mut = saved_mut
        del self.s.unknown_calls[saved_unknown:]
        self.an.call_sites, self.an.resolved_sites, self.an.mutator_sites = saved_counts
        self.env = saved_env
        self.s.stores = saved_stores
        return av

    # ---- statements ---------------------------------------------------
    def block(self, stmts):
        for st in stmts:
            self.stmt(st)

    def stmt(self, st):
        m = getattr(self, "st_" + type(st).__name__, None)
        if m:
            return m(st)
        for ch in ast.iter_child_nodes(st):
            if isinstance(ch, ast.expr):
                self.ev(ch)
            elif isinstance(ch, ast.stmt):
                self.stmt(ch)

    def st_FunctionDef(self, st):
        k = (self.rel, f"{self.fi.qual}.{st.name}")
        sub = self.an.summ.get(k)
        if sub:
            for (p, part, how) in sub.mut:
                if p.startswith("^"):
                    name = p[1:]
                    if name in self.env:
                        self.effect(self.env[name], f"{how} (in nested def {st.name})", st, relpart=part)

    st_AsyncFunctionDef = st_FunctionDef

    def st_ClassDef(self, st):
        pass

    def _ret(self, av):
        if av.kind == "record" and not self.inline_stack:
            av = flatten_record(av)  # summaries are field-insensitive
        self.ret_av = av if self.ret_av is None else self.ret_av.join(av)

    def tuple_record_positions(self, av):
        """The fields of a NamedTuple / namedtuple record in positional order (what unpacking the value yields), or None."""
        if av.kind != "record" or av.cls is None or len(av.cls) != 2 or av.fields is None:
            return None
        rel, cname = av.cls
        names = self.an.res.tuple_classes.get((rel, cname))
        if names is None:
            cdef = self.repo.classes.get((rel, cname))
            if cdef is None or not any((dotted(b) or "").split(".")[-1] == "NamedTuple" for b in cdef.bases):
                return None
            names = [st.target.id for st in cdef.body if isinstance(st, ast.AnnAssign) and isinstance(st.target, ast.Name)]
        if not names or "*" in av.fields or any(nm not in av.fields for nm in names):
            return None
        return [flatten_record(av.fields[nm]) for nm in names]

    def st_Return(self, st):
        self.s.returns_seen += 1
        rv = self.ev(st.value) if st.value is not None else FRESH
        rec_pos = self.tuple_record_positions(rv) if not self.inline_stack else None
        self._ret(rv)
        if not self.inline_stack:
            if rec_pos is not None and self.ret_pos_avs is not False:
                # `return Plan(a, b, c)` of a NamedTuple the caller unpacks: positional, like a tuple display
                if self.ret_pos_avs is None:
                    self.ret_pos_avs = rec_pos
                elif len(self.ret_pos_avs) == len(rec_pos):
                    self.ret_pos_avs = [a.join(b) for a, b in zip(self.ret_pos_avs, rec_pos)]
                else:
                    self.ret_pos_avs = False
            elif isinstance(st.value, ast.Tuple) and not any(isinstance(e, ast.Starred) for e in st.value.elts) and self.ret_pos_avs is not False:
                avs = [flatten_record(self.ev(e)) for e in st.value.elts]
                if self.ret_pos_avs is None:
                    self.ret_pos_avs = avs
                elif len(self.ret_pos_avs) == len(avs):
                    self.ret_pos_avs = [a.join(b) for a, b in zip(self.ret_pos_avs, avs)]
                else:
                    self.ret_pos_avs = False
            else:
                self.ret_pos_avs = False

    def st_Expr(self, st):
        v = st.value
        if isinstance(v, (ast.Yield, ast.YieldFrom)):
            self.s.returns_seen += 1
            av = self.ev(v.value) if v.value is not None else FRESH
            self._ret(AV((), None, elems=flat(av), fn=av.fn))  # (a generator of callables: iterating it yields them)
            return
        self.ev(v)

    def bind(self, target, av):
        if isinstance(target, ast.Name):
            self.env[target.id] = av
        elif isinstance(target, (ast.Tuple, ast.List)):
            # unpacking a pair such as (node, attribute dict) from G.nodes(data=True) / .items(): the abstract value of the pair
            # "is or holds" the live dictionary, so each unpacked name may be it
            if av.pos is not None and len(av.pos) == len(target.elts) and not any(isinstance(e, ast.Starred) for e in target.elts):
                for e, v in zip(target.elts, av.pos):
                    self.bind(e, v)
                return
            held = AV({t for t in flatten_record(av).tags if t[1] == "attrdict"})
            for e in target.elts:
                if isinstance(e, ast.Starred):
                    e = e.value
                self.bind(e, elem_of(av).join(held) if held.tags else elem_of(av))
        elif isinstance(target, ast.Attribute):
            recv = self.ev(target.value)
            if recv.kind == "record":
                setters = [m for m in (self.find_method(a_[0], a_[1], f"{target.attr}.setter") for a_ in alts_of(recv)) if m is not None]
                if setters:
                    # a property with a setter: the assignment runs the setter's body
                    for m in setters:
                        ps = func_params(m.node)
                        self.inline_call(m, {ps[0]: recv, **({ps[1]: av} if len(ps) > 1 else {})}, target)
                    return
                recv.fields[target.attr] = av if target.attr not in recv.fields or not self.in_loop else recv.fields[target.attr].join(av)
                return
            self.effect(recv, f"attribute store .{target.attr}", target)
            slot = {"graph": "g", "blackboxes": "r"}.get(target.attr, "elems")
            if slot == "elems":
                self.store_into(target.value, "elems", flat(av))
            else:
                self.store_into(target.value, slot, av.tags)
                if slot == "r":
                    self.store_into(target.value, "elems", av.elems)
        elif isinstance(target, ast.Subscript):
            recv = self.ev(target.value)
            self.ev(target.slice)
            self.effect(recv, "item store", target)
            self.store_into(target.value, "elems", flat(av))
        elif isinstance(target, ast.Starred):
            self.bind(target.value, av)

    def st_Assign(self, st):
        if len(st.targets) == 1 and isinstance(st.targets[0], ast.Name):
            nm = st.targets[0].id
            ft = self.function_targets(st.value)
            if ft:
                self.fn_vars[nm] = ft
            if isinstance(st.value, ast.Lambda):
                self.lambda_vars[nm] = [st.value]
            elif isinstance(st.value, ast.Call):
                cn = (dotted(st.value.func) or "").split(".")[-1]
                a0 = st.value.args
                if cn in ("methodcaller", "attrgetter") and len(a0) == 1 and isinstance(a0[0], ast.Constant) and isinstance(a0[0].value, str) and not st.value.keywords:
                    self.accessor_vars[nm] = ("method" if cn == "methodcaller" else "attr", a0[0].value)
                elif cn in ("methodcaller", "attrgetter") and len(a0) == 1 and isinstance(a0[0], ast.Name) and a0[0].id in self.const_vars and not st.value.keywords:
                    self.accessor_vars[nm] = ("method" if cn == "methodcaller" else "attr", list(self.const_vars[a0[0].id]))
                elif cn == "partial" and a0:
                    self.partial_vars[nm] = (a0[0], [self.ev(x) for x in a0[1:]], {k.arg: self.ev(k.value) for k in st.value.keywords if k.arg})
            dr = self.derived_rows(st.value)
            if dr is not None:
                self.local_rows[nm] = dr
        if len(st.targets) == 1 and isinstance(st.targets[0], (ast.Tuple, ast.List)) and isinstance(st.value, (ast.Tuple, ast.List)) and len(st.targets[0].elts) == len(st.value.elts):
            vals = [self.ev(v) for v in st.value.elts]
            for te, v in zip(st.targets[0].elts, vals):
                self.bind(te, v)
            return
        av = self.ev(st.value)
        for t in st.targets:
            self.bind(t, av)

    def st_AnnAssign(self, st):
        if st.value is not None:
            self.bind(st.target, self.ev(st.value))

    def st_AugAssign(self, st):
        v = self.ev(st.value)
        t = st.target
        if isinstance(t, ast.Name):
            cur = self.env.get(t.id, FRESH)
            # `x op= y` on a name aliasing a mutable part of a parameter is an in-place update
            inplace = AV({x for x in cur.tags if x[1] != "self"})
            self.effect(inplace, f"in-place operator {type(st.op).__name__}=", st)
            self.env[t.id] = AV(cur.tags, cur.kind, cur.g, cur.r, cur.elems | flat(v), cur.fields, cur.cls, fn=cur.fn | v.fn)
        else:
            recv = self.ev(t.value)
            self.effect(recv, "augmented store", st)
            self.store_into(t.value, "elems", flat(v))

    def st_Delete(self, st):
        for t in st.targets:
            if isinstance(t, ast.Subscript):
                self.effect(self.ev(t.value), "del item", st)
            elif isinstance(t, ast.Attribute):
                self.effect(self.ev(t.value), "del attribute", st)
            elif isinstance(t, ast.Name):
                self.env.pop(t.id, None)

    def table_columns(self, node):
        """Columns of a table of rows an expression denotes: a module-level `NAME = ((a, lambda ...: ..., "msg"), ...)`, a local
        name derived from one by a comprehension that filters / re-packs rows."""
        if not isinstance(node, ast.Name):
            return None
        if node.id in self.local_rows:
            return self.local_rows[node.id]
        if (self.rel, node.id) in self.an.res.row_tables and node.id not in self.env:
            rows = self.an.res.row_tables[(self.rel, node.id)]
            width = max(len(r.elts) for r in rows)
            cols = []
            for i in range(width):
                lams, fns = [], []
                for row in rows:
                    if i < len(row.elts):
                        cell = row.elts[i]
                        if isinstance(cell, ast.Lambda):
                            lams.append(cell)
                        elif isinstance(cell, (ast.Name, ast.Attribute)):
                            t = self.an.res.resolve(self.rel, dotted(cell), self.fi)
                            if t and t[0] == "func":
                                fns.append((t[1], t[2]))
                cols.append((lams, fns))
            return cols
        return None

    def derived_rows(self, comp):
        """[(violated, message) for flag, violated, message in RULES if ...] -> the columns of the new rows."""
        if not isinstance(comp, (ast.ListComp, ast.GeneratorExp, ast.SetComp)) or len(comp.generators) != 1:
            return None
        g = comp.generators[0]
        cols = self.table_columns(g.iter)
        if cols is None or not isinstance(g.target, (ast.Tuple, ast.List)):
            return None
        pos = {te.id: i for i, te in enumerate(g.target.elts) if isinstance(te, ast.Name)}
        elts = comp.elt.elts if isinstance(comp.elt, (ast.Tuple, ast.List)) else None
        if elts is None:
            return None
        return [cols[pos[e.id]] if isinstance(e, ast.Name) and e.id in pos and pos[e.id] < len(cols) else ([], []) for e in elts]

    def st_For(self, st):
        it = self.ev(st.iter)
        el = elem_of(it)
        # `for flag, violated, message in RULES:` over a table of rows: the columns that hold lambdas / functions
        cols = self.table_columns(st.iter) or self.derived_rows(st.iter)
        if cols is not None and isinstance(st.target, (ast.Tuple, ast.List)):
            for i, te in enumerate(st.target.elts):
                if isinstance(te, ast.Name) and i < len(cols):
                    lams, fns = cols[i]
                    if lams:
                        self.lambda_vars[te.id] = lams
                    if fns:
                        self.fn_vars[te.id] = fns
        if isinstance(st.target, ast.Name) and isinstance(st.iter, (ast.Tuple, ast.List)) and st.iter.elts and all(isinstance(e, ast.Constant) and isinstance(e.value, str) for e in st.iter.elts):
            self.const_vars[st.target.id] = [e.value for e in st.iter.elts]
        # `for f, c in zip(FS, cs):` / `for i, x in enumerate(xs):` - each name gets the elements of its own iterable
        itc = st.iter
        if isinstance(itc, ast.Call) and isinstance(itc.func, ast.Name) and itc.func.id in ("zip", "enumerate") and itc.func.id not in self.env and isinstance(st.target, (ast.Tuple, ast.List)) \
                and not any(isinstance(a, ast.Starred) for a in itc.args) and not any(isinstance(e, ast.Starred) for e in st.target.elts):
            parts = [elem_of(self.ev_quiet(a)) for a in itc.args] if itc.func.id == "zip" else ([FRESH, elem_of(self.ev_quiet(itc.args[0]))] if itc.args else [])
            if len(parts) == len(st.target.elts) and parts:
                el = AV(el.tags, el.kind, el.g, el.r, el.elems, el.fields, el.cls, fn=el.fn)
                el.pos = parts
        before = dict(self.env)
        self.in_loop += 1
        for _ in range(2):
            self.bind(st.target, el)
            self.block(st.body)
            self.env = self.join_env(before, self.env)
        self.in_loop -= 1
        self.block(st.orelse)

    st_AsyncFor = st_For

    def st_While(self, st):
        before = dict(self.env)
        self.in_loop += 1
        for _ in range(2):
            self.ev(st.test)
            self.block(st.body)
            self.env = self.join_env(before, self.env)
        self.in_loop -= 1
        self.block(st.orelse)

    def st_If(self, st):
        self.ev(st.test)
        before = dict(self.env)
        self.block(st.body)
        after_body = self.env
        self.env = dict(before)
        self.block(st.orelse)
        self.env = self.join_env(after_body, self.env)

    def st_Match(self, st):
        subj = self.ev(st.subject)
        before = dict(self.env)
        out = None
        for case in st.cases:
            self.env = dict(before)
            # every capture may be the subject itself or something it holds
            cap = subj.join(elem_of(subj))
            for n in ast.walk(case.pattern):
                if isinstance(n, (ast.MatchAs, ast.MatchStar)) and n.name:
                    self.env[n.name] = cap
                elif isinstance(n, ast.MatchMapping) and n.rest:
                    self.env[n.rest] = cap
                elif isinstance(n, ast.MatchValue):
                    self.ev(n.value)
            if case.guard is not None:
                self.ev(case.guard)
            self.block(case.body)
            out = dict(self.env) if out is None else self.join_env(out, self.env)
        # no case may match: the state before is a possible outcome too
        self.env = self.join_env(before, out) if out is not None else before

    def st_With(self, st):
        for item in st.items:
            av = self.ev(item.context_expr)
            if item.optional_vars is not None:
                self.bind(item.optional_vars, av)
        self.block(st.body)

    st_AsyncWith = st_With

    def st_Try(self, st):
        before = dict(self.env)
        self.block(st.body)
        envs = [self.env]
        for h in st.handlers:
            self.env = self.join_env(before, envs[0])
            if h.name:
                self.env[h.name] = FRESH
            self.block(h.body)
            envs.append(self.env)
        self.env = envs[0]
        self.block(st.orelse)
        out = self.env
        for e in envs[1:]:
            out = self.join_env(out, e)
        self.env = out
        self.block(st.finalbody)

    st_TryStar = st_Try

    def st_Raise(self, st):
        if st.exc is not None:
            self.ev(st.exc)

    def st_Assert(self, st):
        self.ev(st.test)

    def st_Import(self, st):
        pass

    st_ImportFrom = st_Import
    st_Pass = st_Import
    st_Break = st_Import
    st_Continue = st_Import
    st_Global = st_Import
    st_Nonlocal = st_Import

    # ---- expressions --------------------------------------------------
    # expression kinds whose value may hold whatever callables their operands hold (containers, selections, unpackings)
    _FN_FLOW = (ast.Dict, ast.List, ast.Tuple, ast.Set, ast.ListComp, ast.SetComp, ast.DictComp, ast.GeneratorExp, ast.Subscript, ast.IfExp, ast.BoolOp, ast.Starred, ast.BinOp)
    _FN_CARRY_FUNCS = {"next", "iter", "reversed", "enumerate", "zip", "filter", "list", "set", "tuple", "sorted", "frozenset", "dict", "max", "min", "chain", "MappingProxyType", "OrderedDict", "deque", "islice", "cast"}
    _FN_CARRY_METHODS = {"get", "items", "values", "pop", "setdefault", "copy", "popitem", "__getitem__", "from_iterable"}

    def _fn_operands(self, n):
        if isinstance(n, (ast.ListComp, ast.SetComp, ast.GeneratorExp)):
            return [n.elt]
        if isinstance(n, ast.DictComp):
            return [n.value]
        if isinstance(n, ast.Dict):
            return [v for v in n.values if v is not None]
        if isinstance(n, ast.Subscript):
            return [n.value]
        if isinstance(n, ast.IfExp):
            return [n.body, n.orelse]
        if isinstance(n, ast.Call):
            f = n.func
            if isinstance(f, ast.Name) and f.id in self._FN_CARRY_FUNCS and f.id not in self.env:
                return list(n.args)
            if isinstance(f, ast.Attribute) and f.attr in self._FN_CARRY_METHODS:
                return [f.value] + list(n.args)
            if isinstance(f, ast.Attribute) and f.attr in self._FN_CARRY_FUNCS and isinstance(f.value, ast.Name) and f.value.id in ("itertools", "types", "collections", "typing", "builtins"):
                return list(n.args)
            return []
        return [ch for ch in ast.iter_child_nodes(n) if isinstance(ch, ast.expr)]

    def ev(self, n):
        if n is None:
            return FRESH
        m = getattr(self, "ex_" + type(n).__name__, None)
        if m:
            av = m(n)
            if isinstance(n, self._FN_FLOW) or isinstance(n, ast.Call):
                fn = set()
                for ch in self._fn_operands(n):
                    fn |= self._fn_seen.get(id(ch), frozenset())
                if fn - av.fn:
                    av = av.with_fn(av.fn | fn)
            if av.fn or id(n) in self._fn_seen:
                self._fn_seen[id(n)] = av.fn
            return av
        out = set()
        for ch in ast.iter_child_nodes(n):
            if isinstance(ch, ast.expr):
                out |= bb_tags(self.ev(ch))
        return AV((), None, elems=out)

    def ex_Constant(self, n):
        return FRESH

    def ex_Name(self, n):
        if n.id in self.env:
            return self.env[n.id]
        t = self.an.res.resolve(self.rel, n.id, self.fi)
        if t and t[0] == "func" and (t[1], t[2]) in self.an.summ:
            return AV(fn={("func", t[1], t[2])})  # a repository function used as a value
        if t and t[0] == "class" and (t[1], t[2]) in self.repo.classes and t[2] not in ("Circuit", "BlackBox"):
            return self.class_value(t[1], t[2])  # a helper class used as a value
        mc = self.an.res.module_consts.get((self.rel, n.id))
        if mc is not None and not getattr(self, "_in_module_const", 0) > 3:
            # a module-level constant: only the callables it may hold matter here (a table of functions / lambdas / accessors)
            key = (self.rel, n.id)
            if key not in self.an.module_const_fn:
                self._in_module_const = getattr(self, "_in_module_const", 0) + 1
                saved_env, self.env = self.env, {}
                try:
                    self.an.module_const_fn[key] = self.ev_quiet(mc).fn
                    # ... and the instances of helper classes with `__call__` it holds (`_COPIES = (_Copy("c0"), _Copy("c1"))`): built
                    # from constants at import time, they hold no circuit state of any caller
                    elts = mc.elts if isinstance(mc, (ast.Tuple, ast.List, ast.Set)) else mc.values if isinstance(mc, ast.Dict) else [mc]
                    for i_, e_ in enumerate(elts):
                        if not isinstance(e_, ast.Call):
                            continue
                        v_ = self.ev_quiet(e_)
                        if v_.kind == "record" and v_.cls is not None and len(v_.cls) == 2 and v_.fields is not None and self.find_method(v_.cls[0], v_.cls[1], "__call__") is not None and not flatten_record(v_).any_tags():
                            self.an.hinsts[(key, i_)] = v_
                            self.an.module_const_fn[key] = frozenset(self.an.module_const_fn[key]) | {("hinst", key, i_)}
                except Exception:
                    self.an.module_const_fn[key] = frozenset()
                finally:
                    self.env = saved_env
                    self._in_module_const -= 1
                reg = {("func", self.rel, fname) for fname in self.an.res.decorator_registered.get(key, ()) if (self.rel, fname) in self.an.summ}
                if reg:
                    self.an.module_const_fn[key] = frozenset(self.an.module_const_fn[key]) | reg
            fn = self.an.module_const_fn[key]
            return AV(fn=fn) if fn else FRESH
        return FRESH

    def ex_Attribute(self, n):
        base = self.ev(n.value)
        a = n.attr
        if base.kind == "record":
            return self.record_attr(base, a, n)
        hcs = [d for d in base.fn if d[0] == "hclass"]
        if hcs and not base.any_tags():
            out = None
            for d in sorted(hcs):
                av = self.class_attr(d[1], d[2], a, n)
                if av is not None:
                    out = av if out is None else out.join(av)
            if out is not None:
                return out
        if a == "graph" and base.kind in ("Circuit", None):
            tags = {(p, "graph") for (p, part) in base.tags if part == "self"} | {(p, "attrdict") for (p, part) in base.tags if part in ("graph", "nodeview")} | set(base.g)
            tags |= {(p, part) for (p, part) in base.tags if part not in ("self", "graph", "nodeview") and part not in BB_PARTS and base.kind is None}
            return AV(tags, "Graph")
        if a == "blackboxes" and base.kind in ("Circuit", None):
            tags = {(p, "registry") for (p, part) in base.tags if part == "self"} | set(base.r)
            elems = {(p, "blackbox") for (p, part) in tags} | {t for t in base.elems if t[1] in BB_PARTS}
            return AV(tags, "dict", elems=elems)
        if a == "name":
            return FRESH
        if a in ("input_set", "output_set"):
            return AV({(p, "bbfield") for (p, part) in base.tags if part in ("self", "blackbox")})
        if a == "graph" and base.kind == "Graph":
            return AV({(p, "attrdict") for (p, part) in base.tags})
        tags = set()
        graphish = base.kind == "Graph"
        for (p, part) in base.tags:
            if part == "graph" or (part == "self" and graphish):
                if a in ("nodes", "edges", "pred", "succ", "adj", "_node", "_adj", "_pred", "_succ", "in_edges", "out_edges", "degree", "in_degree", "out_degree"):
                    tags.add((p, "nodeview"))
                else:
                    tags.add((p, part))
            else:
                tags.add((p, part))
        out = AV(tags, None, base.g, base.r, base.elems)
        if a not in ("nodes", "edges", "pred", "succ", "adj", "_node", "_adj", "_pred", "_succ", "degree", "in_degree", "out_degree") and not (a.startswith("__") and a.endswith("__") and a not in ("__contains__", "__getitem__", "__setitem__", "__delitem__", "__ior__")):
            # `c.set_output` / `g.add_edge` / `found.update` taken as a value (a bound method): calling the value later is calling the
            # method on `base` - also for a fresh local container (what the call stores goes into that container)
            self.an.boundmethods[id(n)] = (base, a, n)
            out = out.with_fn(out.fn | {("boundmethod", id(n))})
        return out

    def ex_Subscript(self, n):
        base = self.ev(n.value)
        if isinstance(n.slice, ast.Slice):
            for x in (n.slice.lower, n.slice.upper, n.slice.step):
                if x is not None:
                    self.ev(x)
            return AV(base.tags, base.kind, base.g, base.r, base.elems, base.fields, base.cls, fn=base.fn)
        self.ev(n.slice)
        tags = set(base.elems)
        kind = None
        for (p, part) in base.tags:
            if part in ("registry", "regvalues"):
                tags.add((p, "blackbox"))
                kind = "BlackBox"
            elif part == "nodeview":
                tags.add((p, "attrdict"))
            elif part == "attrdict":
                pass  # node attribute values are immutable scalars (str / bool)
            elif part == "graph" or (part == "self" and base.kind == "Graph"):
                tags.add((p, "nodeview"))
            elif part == "self" and base.kind in ("Circuit", "dict"):
                pass
            else:
                tags.add((p, part))
        return AV(tags, kind)

    def ex_BinOp(self, n):
        """`a | b`, `a + b`, `a - b` ... on containers build a NEW container holding (some of) the operands' elements; on
        scalars a new scalar.  The elements of a BlackBox's pin set are pin names (immutable), so `bb.inputs() | bb.outputs()`
        holds nothing of the BlackBox."""
        out = set()
        for a in (self.ev(n.left), self.ev(n.right)):
            out |= {t for t in elem_of(a).tags if t[1] in BB_PARTS}
        return AV((), None, elems=out)

    def ex_BoolOp(self, n):
        out = FRESH
        for v in n.values:
            out = out.join(self.ev(v))
        return out

    def ex_IfExp(self, n):
        self.ev(n.test)
        return self.ev(n.body).join(self.ev(n.orelse))

    def ex_NamedExpr(self, n):
        av = self.ev(n.value)
        self.bind(n.target, av)
        return av

    def ex_Starred(self, n):
        return self.ev(n.value)

    def ex_Lambda(self, n):
        saved = dict(self.env)
        for p in func_params_lambda(n):
            self.env[p] = FRESH
        self.ev(n.body)
        self.env = saved
        self.an.lambda_nodes[id(n)] = n
        return AV(fn={("lambda", id(n))})

    def _comp(self, n, elts):
        saved = dict(self.env)
        out = set()
        for g in n.generators:
            it = self.ev(g.iter)
            self.bind(g.target, elem_of(it))
            for c in g.ifs:
                self.ev(c)
        for e in elts:
            out |= flat(self.ev(e))
        self.env = saved
        return AV((), None, elems=out)

    def ex_ListComp(self, n):
        return self._comp(n, [n.elt])

    ex_SetComp = ex_ListComp
    ex_GeneratorExp = ex_ListComp

    def ex_DictComp(self, n):
        return self._comp(n, [n.key, n.value])

    def ex_List(self, n):
        out = set()
        for e in n.elts:
            out |= flat(self.ev(e))
        return AV((), None, elems=out)

    ex_Tuple = ex_List
    ex_Set = ex_List

    def ex_Dict(self, n):
        out = set()
        for k, v in zip(n.keys, n.values):
            if k is not None:
                self.ev(k)
            out |= flat(self.ev(v))
        return AV((), "dict", elems=out)

    # ---- calls --------------------------------------------------------
    def ex_Call(self, n):
        self.an.call_sites += 1
        argav = [self.ev(a) for a in n.args]
        kwav = {k.arg: self.ev(k.value) for k in n.keywords}
        f = n.func
        cn_ = (dotted(f) or "").split(".")[-1]
        if cn_ == "partial" and n.args and not (isinstance(f, ast.Name) and f.id in self.env):
            inner = self._fn_seen.get(id(n.args[0]), frozenset()) or argav[0].fn
            if inner:
                self.an.partials[id(n)] = (inner, list(argav[1:]), {k: v for k, v in kwav.items() if k})
                return AV(fn={("partial", id(n))})
        if cn_ == "methodcaller" and n.args and (len(n.args) > 1 or n.keywords) and not (isinstance(f, ast.Name) and f.id in self.env):
            # methodcaller("add", net, "input"): calling it on an object calls that method with the arguments kept here
            a0 = n.args[0]
            names = [a0.value] if isinstance(a0, ast.Constant) and isinstance(a0.value, str) else (list(self.const_vars[a0.id]) if isinstance(a0, ast.Name) and a0.id in self.const_vars else None)
            if names and all(k.arg for k in n.keywords) and not any(isinstance(a, ast.Starred) for a in n.args):
                self.an.mcalls[id(n)] = (names, list(argav[1:]), {k: v for k, v in kwav.items() if k})
                return AV(fn={("mcall", id(n))})
        if cn_ in ("methodcaller", "attrgetter", "itemgetter") and len(n.args) == 1 and not n.keywords and not (isinstance(f, ast.Name) and f.id in self.env):
            a0 = n.args[0]
            names = [a0.value] if isinstance(a0, ast.Constant) and isinstance(a0.value, str) else (list(self.const_vars[a0.id]) if isinstance(a0, ast.Name) and a0.id in self.const_vars else None)
            if names and cn_ != "itemgetter":
                return AV(fn={("accessor", "method" if cn_ == "methodcaller" else "attr", nm_) for nm_ in names})
        if isinstance(f, ast.Name) and f.id in ("setattr", "delattr") and f.id not in self.env and len(n.args) >= 2:
            # setattr(obj, name, value): an attribute store under a computed name
            self.an.resolved_sites += 1
            recv = argav[0]
            val = argav[2] if len(argav) > 2 else FRESH
            if recv.kind == "record" and recv.fields is not None:
                a1 = n.args[1]
                key = a1.value if isinstance(a1, ast.Constant) and isinstance(a1.value, str) else "*"
                recv.fields[key] = val if key not in recv.fields else recv.fields[key].join(val)
                return FRESH
            self.effect(recv, f"{f.id}()", n)
            if len(argav) > 2:
                self.store_into(n.args[0], "elems", flat(val))
            return FRESH
        applied = self.apply_callable_arguments(n, cn_, argav, kwav)
        if applied is not None:
            return applied
        if isinstance(f, ast.Attribute):
            dn = dotted(f)
            target = self.an.res.resolve(self.rel, dn, self.fi) if dn else None
            if target and target[0] == "nx":
                return self.call_nx(n, target[1], argav, kwav)
            if target and target[0] == "func":
                self.an.resolved_sites += 1
                return self.apply_summary(n, self.an.summ[(target[1], target[2])], argav, kwav, None)
            if target and target[0] == "class":
                self.an.resolved_sites += 1
                return self.construct(n, target, argav, kwav)
            if isinstance(f.value, ast.Name) and f.value.id not in self.env and (self.rel, f.value.id) in self.repo.classes and f.value.id not in ("Circuit", "BlackBox"):
                m = self.find_method(self.rel, f.value.id, f.attr)
                if m is not None:
                    decs = {ast.unparse(d).split(".")[-1].split("(")[0] for d in m.node.decorator_list}
                    params = func_params(m.node)
                    if "staticmethod" in decs or "classmethod" in decs:
                        # `Helper.make(...)`: an alternative constructor / static helper of a class of the package, analysed inline
                        self.an.resolved_sites += 1
                        actual = self.bind_actuals(params if "staticmethod" in decs else params[1:], argav, kwav)
                        if "classmethod" in decs and params:
                            actual[params[0]] = self.class_value(self.rel, f.value.id, with_subclasses=True)
                        return self.inline_call(m, actual, n)
            recv = self.ev(f.value)
            if recv.kind == "record":
                return self.call_record_method(n, recv, f.attr, argav, kwav)
            return self.call_method(n, recv, f.attr, argav, kwav)
        if isinstance(f, ast.Name):
            is_local = f.id in self.env
            acc = self.accessor_vars.get(f.id) or (None if is_local else self.an.res.accessors.get((self.rel, f.id)))
            if acc and argav:
                out = None
                for name_ in (acc[1] if isinstance(acc[1], list) else [acc[1]]):
                    if acc[0] == "attr":
                        fake = ast.copy_location(ast.Attribute(value=n.args[0], attr=name_, ctx=ast.Load()), n)
                        av = self.ex_Attribute(fake)
                    elif argav[0].kind == "record":
                        av = self.call_record_method(n, argav[0], name_, argav[1:], kwav)
                    else:
                        av = self.call_method(n, argav[0], name_, argav[1:], kwav)
                    out = av if out is None else out.join(av)
                return out
            if f.id in self.lambda_vars:
                out = None
                for lam in self.lambda_vars[f.id]:
                    saved = dict(self.env)
                    for p_, av_ in zip(func_params_lambda(lam), argav):
                        self.env[p_] = av_
                    for k_, av_ in kwav.items():
                        if k_:
                            self.env[k_] = av_
                    av = self.ev(lam.body)
                    self.env = saved
                    out = av if out is None else out.join(av)
                self.an.resolved_sites += 1
                return out if out is not None else FRESH
            if f.id in self.partial_vars:
                callee, bound, bkw = self.partial_vars[f.id]
                fake = ast.copy_location(ast.Call(func=callee, args=[], keywords=[]), n)
                ft2 = self.function_targets(callee) if isinstance(callee, (ast.Name, ast.Subscript)) else None
                if ft2 is None and isinstance(callee, (ast.Name, ast.Attribute)):
                    t2 = self.an.res.resolve(self.rel, dotted(callee), self.fi)
                    if t2 and t2[0] == "func":
                        ft2 = [(t2[1], t2[2])]
                if ft2:
                    self.an.resolved_sites += 1
                    out = None
                    for key in ft2:
                        av = self.apply_summary(fake, self.an.summ[key], list(bound) + list(argav), {**bkw, **kwav}, None)
                        out = av if out is None else out.join(av)
                    return out
                if isinstance(callee, ast.Attribute):
                    recv = self.ev(callee.value)
                    if recv.kind == "record":
                        return self.call_record_method(n, recv, callee.attr, list(bound) + list(argav), {**bkw, **kwav})
                    return self.call_method(n, recv, callee.attr, list(bound) + list(argav), {**bkw, **kwav})
            if not is_local and (self.rel, f.id) in self.an.res.tuple_classes:
                self.an.resolved_sites += 1
                return self.construct_record(n, self.rel, f.id, argav, kwav, fields=self.an.res.tuple_classes[(self.rel, f.id)])
            if f.id == "cls" and is_local and self.env[f.id].fn and not self.env[f.id].any_tags():
                return self.call_fn(n, self.env[f.id].fn, argav, kwav)  # `cls(...)` in a classmethod: the class it was called on, or one derived from it
            if f.id == "cls" and self.fi.cls and (self.rel, self.fi.cls) in self.repo.classes and self.fi.cls not in ("Circuit", "BlackBox"):
                self.an.resolved_sites += 1
                return self.construct_record(n, self.rel, self.fi.cls, argav, kwav)
        ft = self.function_targets(f) if isinstance(f, (ast.Subscript, ast.Call)) or (isinstance(f, ast.Name) and f.id in self.fn_vars) else None
        if ft:
            self.an.resolved_sites += 1
            out = None
            for key in ft:
                av = self.apply_summary(n, self.an.summ[key], argav, kwav, None)
                out = av if out is None else out.join(av)
            return out
        if isinstance(f, ast.Name):
            target = self.an.res.resolve(self.rel, f.id, self.fi)
            if target and target[0] == "func":
                self.an.resolved_sites += 1
                return self.apply_summary(n, self.an.summ[(target[1], target[2])], argav, kwav, None)
            if target and target[0] == "class":
                self.an.resolved_sites += 1
                return self.construct(n, target, argav, kwav)
            fav = self.env.get(f.id)
            if fav is not None and fav.kind == "record" and fav.cls is not None and any(self.find_method(a_[0], a_[1], "__call__") is not None for a_ in alts_of(fav)):
                return self.call_record_method(n, fav, "__call__", argav, kwav)  # an instance of a helper class that defines __call__
            if fav is not None and fav.fn:
                return self.call_fn(n, fav.fn, argav, kwav)
            if fav is not None:
                held = {t[0] for t in flatten_record(fav).any_tags() if t[1] in VIOLATING_PARTS}
                if held:
                    self.s.unknown_calls.append({"line": n.lineno, "text": norm(n)[:120], "params": sorted(held), "why": f"call through the local name {f.id}, a value that aliases (or holds) parameter(s) {sorted(held)} and is not a callable the analysis can follow"})
            return self.call_unknown(n, f.id, argav, kwav)
        fav = self.ev(f)
        if fav.kind == "record" and fav.cls is not None and any(self.find_method(a_[0], a_[1], "__call__") is not None for a_ in alts_of(fav)):
            return self.call_record_method(n, fav, "__call__", argav, kwav)
        if fav.fn:
            return self.call_fn(n, fav.fn, argav, kwav)
        held = {t[0] for t in flatten_record(fav).any_tags() if t[1] in VIOLATING_PARTS}
        if held:
            # the callee is a value that is (part of) a parameter's state, or holds it, and is none of the callables the analysis
            # follows: what the call does to that state is unknown
            self.s.unknown_calls.append({"line": n.lineno, "text": norm(n)[:120], "params": sorted(held), "why": f"call through a value that aliases (or holds) parameter(s) {sorted(held)} and is not a callable the analysis can follow"})
        return self.call_unknown(n, norm(f), argav, kwav)

    # library functions that call a callable they are given: (positions of the callable among the positional arguments, keyword names)
    _APPLIES = {"map": ((0,), ()), "filter": ((0,), ()), "filterfalse": ((0,), ()), "starmap": ((0,), ()), "reduce": ((0,), ()), "accumulate": ((1,), ("func",)),
                "takewhile": ((0,), ()), "dropwhile": ((0,), ()), "sorted": ((), ("key",)), "max": ((), ("key", "default")), "min": ((), ("key", "default")),
                "groupby": ((1,), ("key",)), "defaultdict": ((0,), ()), "sort": ((), ("key",)), "iter": ((0,), ())}

    def apply_callable_arguments(self, n, name, argav, kwav):
        """`map(c.remove, dead)`, `sorted(ns, key=c.fanout)`, `reduce(merge, parts)`: the library function calls the callable it is
        handed on (elements of) its other arguments - the callable's effects and results are those of the call."""
        spec = self._APPLIES.get(name)
        if spec is None:
            return None
        f = n.func
        if isinstance(f, ast.Name) and f.id in self.env:
            return None
        if name == "map" and len(n.args) == 2 and isinstance(n.args[0], ast.Name) and n.args[0].id not in self.env and isinstance(f, ast.Name):
            # `map(set, views)`: a builtin constructor applied to every element - each result is a new container holding the
            # element's elements (node names ...), a scalar builtin gives a fresh value
            inner = elem_of(argav[1])
            if n.args[0].id in ("set", "list", "tuple", "frozenset", "sorted", "dict"):
                held = elem_of(inner)
                return AV((), None, elems=flat(held) | bb_tags(inner))
            if n.args[0].id in ("len", "str", "int", "bool", "repr", "float", "hash", "sum", "any", "all", "abs"):
                return FRESH
        if isinstance(f, ast.Attribute) and not (isinstance(f.value, ast.Name) and f.value.id in ("itertools", "functools", "collections", "builtins") or name == "sort"):
            return None
        cands = [(i, argav[i]) for i in spec[0] if i < len(argav)] + [(k, kwav[k]) for k in spec[1] if k in kwav]
        cands = [(i, av) for i, av in cands if av.fn]
        if not cands:
            return None
        if name == "iter" and len(argav) != 2:
            return None
        if name == "reduce" and len(argav) == 3 and not kwav and cands and all(i == 0 for i, _ in cands):
            # reduce(f, xs, init): the accumulator starts as `init` ITSELF (not as one of its elements), every step hands f the
            # accumulator and an element of xs, and the result is the last accumulator - `init` when xs is empty.  The elements of
            # xs may be callables themselves (`reduce(lambda g, step: step(g), steps, g)`)
            acc = argav[2]
            el = elem_of(argav[1])
            el = AV(el.tags, el.kind, el.g, el.r, el.elems, el.fields, el.cls, fn=el.fn | argav[1].fn)
            for _ in range(2):
                for _, cav in cands:
                    acc = acc.join(self.call_fn(n, cav.fn, [acc, el], {}))
            return acc
        others = [av for j, av in enumerate(argav) if not any(i == j for i, _ in cands)] + [av for k, av in kwav.items() if not any(i == k for i, _ in cands)]
        if isinstance(f, ast.Attribute) and name == "sort":
            others.append(self.ev(f.value))
        elem = None
        for av in others:
            for x in (elem_of(av), elem_of(elem_of(av))) if name == "starmap" else (elem_of(av),):
                elem = x if elem is None else elem.join(x)
        elem = elem if elem is not None else FRESH
        results = None
        for _, cav in cands:
            r = self.call_fn(n, cav.fn, [elem, elem, elem][: 1 if name not in ("reduce", "accumulate", "starmap") else 3], {})
            results = r if results is None else results.join(r)
        held = set()
        for av in others:
            held |= bb_tags(av) | elem_of(av).tags | av.elems
        if name in ("map", "starmap", "reduce", "accumulate", "defaultdict", "iter"):
            out = flat(flatten_record(results)) | (held if name in ("reduce", "accumulate") else set())
            return AV(out if name == "reduce" else (), None, elems=out, fn=results.fn)
        return AV(held if name in ("max", "min") else (), None, elems=held)

    def call_fn(self, n, fn, argav, kwav, depth=0):
        """A call through a value: apply every callable the value may be (AV.fn) and join the results."""
        out = None
        if depth > 4:
            return self.call_unknown(n, "<callable value>", argav, kwav)
        for d in sorted(fn, key=repr):
            if d[0] == "func":
                av = self.apply_summary(n, self.an.summ[(d[1], d[2])], argav, kwav, None)
            elif d[0] == "lambda":
                lam = self.an.lambda_nodes[d[1]]
                saved = dict(self.env)
                for p_, av_ in zip(func_params_lambda(lam), argav):
                    self.env[p_] = av_
                for k_, av_ in kwav.items():
                    if k_:
                        self.env[k_] = av_
                av = self.ev(lam.body)
                self.env = saved
            elif d[0] == "partial":
                inner, bound, bkw = self.an.partials[d[1]]
                av = self.call_fn(n, inner, list(bound) + list(argav), {**bkw, **kwav}, depth + 1)
            elif d[0] == "accessor" and argav:
                if d[1] == "attr":
                    fake = ast.copy_location(ast.Attribute(value=n.args[0], attr=d[2], ctx=ast.Load()), n) if n.args else None
                    av = self.ex_Attribute(fake) if fake is not None else flatten_record(argav[0])
                elif argav[0].kind == "record":
                    av = self.call_record_method(n, argav[0], d[2], argav[1:], kwav)
                else:
                    av = self.call_method(n, argav[0], d[2], argav[1:], kwav)
            elif d[0] == "hinst":
                rec_ = self.an.hinsts[(d[1], d[2])]
                av = self.call_record_method(n, AV((), "record", fields=dict(rec_.fields), cls=rec_.cls, fn=rec_.fn), "__call__", argav, kwav)
            elif d[0] == "mcall" and argav:
                names_, bound_, bkw_ = self.an.mcalls[d[1]]
                av = None
                for nm_ in names_:
                    fake = ast.copy_location(ast.Call(func=ast.copy_location(ast.Attribute(value=n.args[0] if getattr(n, "args", None) else ast.Name(id="<object>", ctx=ast.Load()), attr=nm_, ctx=ast.Load()), n),
                                                      args=[], keywords=[]), n)
                    r_ = (self.call_record_method if argav[0].kind == "record" else self.call_method)(fake, argav[0], nm_, list(bound_) + list(argav[1:]), {**bkw_, **kwav})
                    av = r_ if av is None else av.join(r_)
            elif d[0] == "recmethod":
                base, attr = self.an.recmethods[d[1]]
                av = self.call_record_method(n, base, attr, argav, kwav)
            elif d[0] == "boundmethod":
                base, attr, attr_node = self.an.boundmethods[d[1]]
                # the call as if written on the receiver expression itself, so that what a mutator stores lands in the receiver
                fake = ast.copy_location(ast.Call(func=attr_node, args=list(getattr(n, "args", [])), keywords=list(getattr(n, "keywords", []))), n)
                try:
                    base = base.join(self.ev_quiet(attr_node.value))
                except Exception:
                    pass
                av = self.call_record_method(fake, base, attr, argav, kwav) if base.kind == "record" else self.call_method(fake, base, attr, argav, kwav)
            elif d[0] == "hclass":
                av = self.construct(n, ("class", d[1], d[2]), argav, kwav)
            else:
                av = self.call_unknown(n, f"<{d[0]}>", argav, kwav)
            out = av if out is None else out.join(av)
        self.an.resolved_sites += 1
        return out if out is not None else FRESH

    def bind_actuals(self, params, argav, kwav):
        actual = {}
        for p, av in zip(params, argav):
            actual[p] = av
        for k, av in kwav.items():
            if k is not None and k in params:
                actual[k] = av
        return actual

    # ---- helper classes of the package (records) ----------------------------
    def record_fields_of(self, rel, cname):
        cdef = self.repo.classes.get((rel, cname))
        if cdef is None:
            return None
        names = []
        for b in cdef.bases:
            bn = (dotted(b) or "").split(".")[-1]
            if (rel, bn) in self.repo.classes:
                names += self.record_fields_of(rel, bn) or []
        for st in cdef.body:
            if isinstance(st, ast.AnnAssign) and isinstance(st.target, ast.Name) and "ClassVar" not in ast.unparse(st.annotation):
                names.append(st.target.id)
        return names

    def subclasses_of(self, rel, cname):
        """The helper class and every class of the same module derived from it (transitively)."""
        out, grew = [cname], True
        while grew:
            grew = False
            for (r_, c_), cdef in self.repo.classes.items():
                if r_ == rel and c_ not in out and any((dotted(b) or "").split(".")[-1] in out for b in cdef.bases):
                    out.append(c_)
                    grew = True
        return out

    def class_value(self, rel, cname, with_subclasses=False):
        """A helper class of the package used as a value (stored in a table, bound to `cls`): calling the value constructs it."""
        names = self.subclasses_of(rel, cname) if with_subclasses else [cname]
        return AV(fn={("hclass", rel, c_) for c_ in names})

    def class_attr(self, rel, cname, attr, n, depth=0):
        """`Helper.attr` read on the class itself: the callables a class-level table may hold.  A table of a class whose
        hierarchy defines `__init_subclass__` may have been filled with any class derived from the one that defines the hook
        (the registry idiom); a method is a callable of the class."""
        cdef = self.repo.classes.get((rel, cname))
        if cdef is None or depth > 4:
            return None
        for st in cdef.body:
            value = None
            if isinstance(st, ast.Assign) and any(isinstance(t, ast.Name) and t.id == attr for t in st.targets):
                value = st.value
            elif isinstance(st, ast.AnnAssign) and isinstance(st.target, ast.Name) and st.target.id == attr and st.value is not None:
                value = st.value
            if value is None:
                continue
            saved_env, self.env = self.env, {}
            try:
                fn = set(self.ev_quiet(value).fn)
            except Exception:
                fn = set()
            finally:
                self.env = saved_env
            if self.find_method(rel, cname, "__init_subclass__") is not None:
                for c_ in self.subclasses_of(rel, cname):
                    fn.add(("hclass", rel, c_))
            return AV(fn=frozenset(fn)) if fn else FRESH
        for b in cdef.bases:
            bn = (dotted(b) or "").split(".")[-1]
            if (rel, bn) in self.repo.classes:
                av = self.class_attr(rel, bn, attr, n, depth + 1)
                if av is not None:
                    return av
        return None

    def record_field_defs(self, rel, cname):
        """(name, is_initvar, default expression or None) of the annotated fields of a dataclass-like helper class, bases first."""
        cdef = self.repo.classes.get((rel, cname))
        if cdef is None:
            return []
        out = []
        for b in cdef.bases:
            bn = (dotted(b) or "").split(".")[-1]
            if (rel, bn) in self.repo.classes:
                out += self.record_field_defs(rel, bn)
        for st in cdef.body:
            if isinstance(st, ast.AnnAssign) and isinstance(st.target, ast.Name) and "ClassVar" not in ast.unparse(st.annotation):
                out = [d for d in out if d[0] != st.target.id]
                out.append((st.target.id, ast.unparse(st.annotation).split(".")[-1].startswith("InitVar"), st.value))
        return out

    def field_default(self, value):
        """Abstract value of a dataclass field that the constructor call does not supply: its default (`= expr`,
        `field(default=expr)`) or the result of `field(default_factory=f)`; None when the field has no default."""
        if value is None:
            return None
        expr = value
        if isinstance(value, ast.Call) and (dotted(value.func) or "").split(".")[-1] == "field":
            kws = {k.arg: k.value for k in value.keywords}
            if "default_factory" in kws:
                expr = ast.copy_location(ast.Call(func=kws["default_factory"], args=[], keywords=[]), value)
            elif "default" in kws:
                expr = kws["default"]
            else:
                return None
        saved_env, self.env = self.env, {}
        try:
            return self.ev_quiet(expr)
        except Exception:
            return FRESH
        finally:
            self.env = saved_env

    def find_method(self, rel, cname, mname, depth=0):
        if (rel, f"{cname}.{mname}") in self.repo.funcs:
            return self.repo.funcs[(rel, f"{cname}.{mname}")]
        # a class defined inside a function: its methods are indexed under the enclosing function's name
        nested = [fi for (r_, q_), fi in self.repo.funcs.items() if r_ == rel and q_.endswith(f".{cname}.{mname}")]
        if len(nested) == 1:
            return nested[0]
        cdef = self.repo.classes.get((rel, cname))
        if cdef is not None and depth < 4:
            for b in cdef.bases:
                bn = (dotted(b) or "").split(".")[-1]
                if (rel, bn) in self.repo.classes:
                    m = self.find_method(rel, bn, mname, depth + 1)
                    if m is not None:
                        return m
        return None

    def inline_call(self, fi, actual, n):
        """Analyse a method of a helper class in the caller's context (its abstract values carry the caller's parameter
        tags, its effects land in the caller's summary).  Bounded depth; recursion falls back to a flattened result."""
        key = (fi.file, fi.qual)
        if key in self.inline_stack or len(self.inline_stack) >= 5:
            out = set()
            for a in actual.values():
                out |= flat(flatten_record(a))
            return AV((), None, elems=out)
        sub = FuncAnalysis(self.an, fi)
        sub.s = self.s
        sub.inline_stack = self.inline_stack + [key]
        env = {}
        for p in func_params(fi.node):
            env[p] = actual.get(p, FRESH)
        a = fi.node.args
        if a.vararg:
            env[a.vararg.arg] = FRESH
        if a.kwarg:
            env[a.kwarg.arg] = FRESH
        sub.env = env
        saved_returns = self.s.returns_seen
        sub.block(fi.node.body)
        self.s.returns_seen = saved_returns
        return sub.ret_av if sub.ret_av is not None else FRESH

    def construct_record(self, n, rel, cname, argav, kwav, fields=None):
        rec = AV((), "record", fields={}, cls=(rel, cname))
        init = self.find_method(rel, cname, "__init__") if fields is None else None
        if init is not None:
            params = func_params(init.node)
            actual = {params[0]: rec} if params else {}
            actual.update(self.bind_actuals(params[1:], argav, kwav))
            self.inline_call(init, actual, n)
            return rec
        names = fields if fields is not None else (self.record_fields_of(rel, cname) or [])
        for nm, av in zip(names, argav):
            rec.fields[nm] = av
        for k, av in kwav.items():
            if k is not None:
                rec.fields[k] = av
        extra = argav[len(names):]
        if extra:
            rec.fields["*"] = AV((), None, elems=set().union(*[flat(flatten_record(a)) for a in extra]))
        initvars = []
        if fields is None:
            for nm, is_initvar, dflt in self.record_field_defs(rel, cname):
                if nm not in rec.fields:
                    av = self.field_default(dflt)
                    if av is not None:
                        rec.fields[nm] = av
                if is_initvar:
                    # an InitVar is an argument of __post_init__, never an attribute of the object
                    initvars.append(rec.fields.pop(nm, FRESH))
        post = self.find_method(rel, cname, "__post_init__") if fields is None else None
        if post is not None:
            pparams = func_params(post.node)
            actual = {pparams[0]: rec}
            actual.update(dict(zip(pparams[1:], initvars)))
            self.inline_call(post, actual, n)
        return rec

    def record_attr(self, base, attr, n):
        if base.cls is not None and len(base.cls) == 3:
            out = None
            for alt in alts_of(base):
                av = self.record_attr(as_class(base, alt), attr, n)
                out = av if out is None else out.join(av)
            return out if out is not None else FRESH
        if base.fields is None:
            return flatten_record(AV(base.tags, None, base.g, base.r, base.elems, fn=base.fn))
        if attr in base.fields:
            return base.fields[attr]
        if base.cls is not None:
            m = self.find_method(base.cls[0], base.cls[1], attr)
            if m is not None:
                decs = {ast.unparse(d).split(".")[-1].split("(")[0] for d in m.node.decorator_list}
                if decs & {"property", "cached_property"}:
                    return self.inline_call(m, {func_params(m.node)[0]: base}, n)
                self.an.recmethods[id(n)] = (base, attr)
                return AV(fn={("recmethod", id(n))})  # a bound method object
            cdef = self.repo.classes.get(base.cls)
            if cdef is not None:
                for st in cdef.body:
                    if isinstance(st, ast.Assign) and any(isinstance(t, ast.Name) and t.id == attr for t in st.targets):
                        return FRESH  # class attribute: a constant / table
        if attr in ("_replace", "_asdict", "_fields", "index", "count"):
            return FRESH
        return flatten_record(base)

    def call_record_method(self, n, recv, mname, argav, kwav):
        if recv.cls is not None and len(recv.cls) == 3:
            out = None
            for alt in alts_of(recv):
                av = self.call_record_method(n, as_class(recv, alt), mname, argav, kwav)
                out = av if out is None else out.join(av)
            return out if out is not None else FRESH
        if mname == "_replace":
            f = dict(recv.fields)
            for k, av in kwav.items():
                if k is not None:
                    f[k] = av
            return AV((), "record", fields=f, cls=recv.cls)
        if mname in ("_asdict", "index", "count"):
            return flatten_record(recv)
        m = self.find_method(recv.cls[0], recv.cls[1], mname) if recv.cls is not None else None
        if m is None:
            if mname in recv.fields and recv.fields[mname].fn:
                return self.call_fn(n, recv.fields[mname].fn, argav, kwav)
            if mname in recv.fields:  # a callable stored in a field (a bound method alias, a function)
                out = set()
                for a in list(argav) + list(kwav.values()):
                    out |= bb_tags(flatten_record(a))
                return AV((), None, elems=out)
            return self.call_unknown(n, f"<{recv.cls[1] if recv.cls else 'record'}>.{mname}", [flatten_record(a) for a in argav], {k: flatten_record(v) for k, v in kwav.items()})
        decs = {ast.unparse(d).split(".")[-1].split("(")[0] for d in m.node.decorator_list}
        params = func_params(m.node)
        if "staticmethod" in decs:
            actual = self.bind_actuals(params, argav, kwav)
        elif "classmethod" in decs:
            actual = self.bind_actuals(params[1:], argav, kwav)
            if params and recv.cls is not None:
                actual[params[0]] = self.class_value(recv.cls[0], recv.cls[1], with_subclasses=True)
        else:
            actual = {params[0]: recv} if params else {}
            actual.update(self.bind_actuals(params[1:], argav, kwav))
        return self.inline_call(m, actual, n)

    def construct(self, n, target, argav, kwav):
        _, rel, cname = target
        if cname not in ("Circuit", "BlackBox") and (rel, cname) in self.repo.classes:
            bases = {(dotted(b) or "").split(".")[-1] for b in self.repo.classes[(rel, cname)].bases}
            if not (bases & {"Transformer", "Exception", "ValueError", "Warning"}):
                return self.construct_record(n, rel, cname, argav, kwav)
        init = self.an.summ.get((rel, f"{cname}.__init__"))
        kind = cname if cname in ("Circuit", "BlackBox") else None
        g, r, elems = set(), set(), set()
        if init:
            actual = self.bind_actuals(init.params[1:], argav, kwav)
            for (dst, slot, src, srcpart) in init.stores:
                if dst == "self" and src in actual:
                    carried = project(actual[src], srcpart)
                    if slot == "g":
                        g |= carried
                    elif slot == "r":
                        r |= carried
                        elems |= {t for t in actual[src].elems}
                    else:
                        elems |= carried | flat(actual[src])
        return AV((), kind, g, r, elems)

    def candidates(self, recv, mname):
        meths = self.an.class_methods.get(mname, [])
        if recv.kind in ("Circuit", "BlackBox") and not any(self.an.class_kind.get((m.file, m.cls)) == recv.kind for m in meths) and (recv.kind, mname) in self.an.installed_methods:
            return list(self.an.installed_methods[(recv.kind, mname)]), True  # installed by a class decorator (see Analyzer)
        if recv.kind in ("Circuit", "BlackBox"):
            c = [m for m in meths if self.an.class_kind.get((m.file, m.cls)) == recv.kind]
            return c, bool(c)
        if recv.kind in ("Graph", "dict"):
            return [], False
        return meths, False

    def call_method(self, n, recv, mname, argav, kwav):
        cands, exact = self.candidates(recv, mname)
        out = None
        if cands:
            self.an.resolved_sites += 1
            for m in cands:
                av = self.apply_summary(n, self.an.summ[(m.file, m.qual)], argav, kwav, recv)
                out = av if out is None else out.join(av)
            if exact:
                return out
            # a method name that only the repository's classes define (add_subcircuit, fill_blackbox, uid ...) can only be
            # reached on one of them: the generic "unknown library method may keep its arguments" fallback does not apply
            if mname not in MUTATOR_METHODS and mname not in PURE_VIEW_METHODS and mname not in PURE_FRESH_METHODS and mname not in ("copy", "values", "items", "keys", "get", "__iter__"):
                return out
        lib = self.lib_method(n, recv, mname, argav, kwav)
        return lib if out is None else out.join(lib)

    def lib_method(self, n, recv, mname, argav, kwav):
        allargs = list(argav) + list(kwav.values())
        if mname in MUTATOR_METHODS:
            if recv.tags:
                self.an.mutator_sites += 1
                self.effect(recv, f"mutator call .{mname}()", n)
            if isinstance(n.func, ast.Attribute):
                carried = set()
                for a in allargs:
                    # `s.update(xs)` / `l.extend(xs)` / `s |= xs` put the *elements* of xs into the container, `add` / `append` the object itself
                    carried |= (flat(elem_of(a)) | bb_tags(a)) if mname in ("update", "extend", "__ior__", "intersection_update", "difference_update", "symmetric_difference_update") and a.kind != "record" else flat(a)
                self.store_into(n.func.value, "elems", carried)
                # callables put into a local container (`calls.append(methodcaller(...))`) are what iterating it may yield
                fnset = frozenset().union(*[a.fn for a in allargs]) if allargs else frozenset()
                if fnset and isinstance(n.func.value, ast.Name) and n.func.value.id in self.env and mname in ("append", "add", "insert", "extend", "update", "appendleft", "setdefault"):
                    cur = self.env[n.func.value.id]
                    self.env[n.func.value.id] = AV(cur.tags, cur.kind, cur.g, cur.r, cur.elems, cur.fields, cur.cls, fn=cur.fn | fnset)
            if mname in ("pop", "popitem", "popleft", "setdefault", "get"):
                return elem_of(recv)
            return FRESH
        if mname == "copy":
            # shallow copy: a new container that still holds the same element objects
            el = set(recv.elems) | {(p, "blackbox") for (p, part) in recv.tags if part in ("registry", "regvalues")}
            el |= {t for t in recv.tags if t[1] in BB_PARTS}
            return AV((), recv.kind, elems=el)
        if mname in ("values", "items"):
            tags = {(p, "regvalues") if part == "registry" else (p, part) for (p, part) in recv.tags}
            return AV(tags, None, elems=recv.elems)
        if mname == "keys":
            return AV((), None, elems=bb_tags(recv))
        if mname == "get":
            return elem_of(recv)
        if mname in ("nodes", "data", "items", "values") and any(t[1] in ("graph", "nodeview") or (t[1] == "self" and recv.kind == "Graph") for t in recv.tags) \
                and (mname in ("items", "values", "data") or any(k == "data" for k in kwav) or (mname == "nodes" and argav)):
            # G.nodes(data=True) / G.nodes.data() / G.nodes.items() / G.nodes.values(): the elements are (or contain) the LIVE
            # attribute dictionaries of the nodes - dict(...) / list(...) of it still holds them
            ad = {(p, "attrdict") for (p, part) in recv.tags if part in ("graph", "nodeview") or (part == "self" and recv.kind == "Graph")}
            key = next((k.value for k in getattr(n, "keywords", ()) if k.arg == "data"), None) or (n.args[0] if mname in ("nodes", "data") and getattr(n, "args", None) else None)
            if isinstance(key, ast.Constant) and key.value in ("type", "output"):
                # G.nodes(data="output") / G.nodes.data("type"): pairs of a node name and the *value* of that attribute (a str / bool)
                return AV({(p, "nodeview") for (p, _) in ad}, None, elems=set(recv.elems))
            return AV({(p, "nodeview") for (p, _) in ad}, None, elems=ad | set(recv.elems))
        if mname in PURE_VIEW_METHODS:
            tags = set()
            sub = mname in ("subgraph", "edge_subgraph")
            for (p, part) in recv.tags:
                if (part == "graph" or (part == "self" and recv.kind == "Graph")) and not sub:
                    tags.add((p, "nodeview"))
                else:
                    tags.add((p, part))
            kind = "Graph" if sub else None
            return AV(tags, kind, elems=recv.elems)
        if mname == "__iter__":
            return AV((), None, elems=elem_of(recv).tags)
        if mname in PURE_FRESH_METHODS or (mname.startswith("__") and mname.endswith("__")):
            return AV((), None, elems=bb_tags(recv))
        viol = [t for t in recv.tags if t[1] in VIOLATING_PARTS]
        if viol:
            self.s.unknown_calls.append({"line": n.lineno, "text": norm(n)[:120], "params": sorted({t[0] for t in viol}), "why": f"unknown method .{mname}() on a value aliasing {sorted(viol)}"})
        if isinstance(n.func, ast.Attribute):
            carried = set()
            for a in allargs:
                carried |= flat(a)
            if any(t[1] in VIOLATING_PARTS for t in carried):
                self.store_into(n.func.value, "elems", carried)
        return AV((), None, elems=bb_tags(recv))

    def call_nx(self, n, fname, argav, kwav):
        self.an.resolved_sites += 1
        base = fname.split(".")[-1]
        if base == "relabel_nodes":
            cp = kwarg(n, "copy", 2)
            inplace = cp is not None and isinstance(cp, ast.Constant) and cp.value is False
            unknown_flag = cp is not None and not isinstance(cp, ast.Constant)
            if inplace or unknown_flag:
                if argav:
                    self.an.mutator_sites += 1
                    self.effect(argav[0], "nx.relabel_nodes(copy=False)", n)
                    return argav[0]
            return AV((), "Graph")
        if base in NX_MUTATING_FUNCS:
            if argav:
                self.effect(argav[0], f"nx.{base}", n)
            return FRESH
        if base in ("DiGraph", "Graph", "MultiDiGraph"):
            return AV((), "Graph")
        out = set()
        for a in list(argav) + list(kwav.values()):
            out |= bb_tags(a)
        return AV((), None, elems=out)

    def call_unknown(self, n, name, argav, kwav):
        raw_first = argav[0] if argav else None
        argav = [flatten_record(a) for a in argav]
        kwav = {k: flatten_record(v) for k, v in kwav.items()}
        allargs = list(argav) + list(kwav.values())
        base = name.split(".")[-1] if name else name
        if base in ("deepcopy", "copy") and raw_first is not None and raw_first.kind == "record" and raw_first.fields is not None:
            # a copy of a helper object: a new object of the same class; a shallow copy holds the same field values
            return AV((), "record", fields={k: (FRESH if base == "deepcopy" else v) for k, v in raw_first.fields.items()}, cls=raw_first.cls)
        if base == "deepcopy" and allargs:
            return AV((), allargs[0].kind)
        if name in ("copy.copy", "copy") and len(allargs) == 1 and base == "copy":
            # shallow copy of an object: a new object whose fields are the same objects
            a = allargs[0]
            return AV((), a.kind, g=project(a, "graph") if a.kind in ("Circuit", None) else a.g, r=project(a, "registry") if a.kind in ("Circuit", None) else a.r, elems=a.elems | bb_tags(a))
        if base in PURE_FUNCS:
            out = set()
            carry = base in ("next", "iter", "reversed", "enumerate", "zip", "filter", "map", "list", "set", "tuple", "sorted", "frozenset", "dict", "reduce", "max", "min")
            for a in allargs:
                out |= bb_tags(a)
                if carry:
                    out |= elem_of(a).tags | a.elems
            if base in ("next", "max", "min", "reduce"):
                return AV(out, None, elems=out)
            return AV((), None, elems=out)
        viol = set()
        for a in allargs:
            # what the callee receives: the tracked object itself, or a container / record holding it
            viol |= {t[0] for t in a.tags | a.g | a.r | a.elems if t[1] in VIOLATING_PARTS}
        if viol:
            self.s.unknown_calls.append({"line": n.lineno, "text": norm(n)[:120], "params": sorted(viol), "why": f"unresolved callee {name}() receives a value aliasing (or holding) parameter(s) {sorted(viol)}"})
        out = set()
        for a in allargs:
            out |= bb_tags(a)
        return AV((), None, elems=out)

    def apply_summary(self, n, summ, argav, kwav, recv):
        params = list(summ.params)
        actual = {}
        if recv is not None and params and (params[0] == "self" or (summ.fi.file, summ.fi.qual) in self.an.installed_funcs):
            actual[params[0]] = recv
            params_rest = params[1:]
        else:
            params_rest = params
        actual.update(self.bind_actuals(params_rest, argav, kwav))
        for p_, av_ in actual.items():
            self.an.observed_kinds.setdefault(((summ.fi.file, summ.fi.qual), p_), set()).add(av_.kind if not (av_.kind is None and not av_.any_tags()) else "<untracked>")
        for (p, part, how) in sorted(summ.mut):
            if p.startswith("^"):
                continue
            if p in actual and project(actual[p], part):
                self.an.mutator_sites += 1
                self.effect(actual[p], f"{how} via {summ.fi.qual}()", n, relpart=part)
        for (dst, slot, src, srcpart) in sorted(summ.stores):
            if dst in actual and src in actual:
                carried = project(actual[src], srcpart)
                if srcpart == "self":
                    carried |= set()
                if not carried:
                    continue
                node = None
                if dst == "self" and isinstance(n.func, ast.Attribute):
                    node = n.func.value
                elif dst in params_rest:
                    idx = params_rest.index(dst)
                    if idx < len(n.args):
                        node = n.args[idx]
                    else:
                        for k in n.keywords:
                            if k.arg == dst:
                                node = k.value
                if node is not None:
                    self.store_into(node, slot, carried)
        def from_ret(ret_set, kind_):
            tags, g, r, elems = set(), set(), set(), set()
            for (slot, p, part) in ret_set:
                if p.startswith("^") or p not in actual:
                    continue
                pr = project(actual[p], part)
                if slot == "tags":
                    tags |= pr
                    if part == "self":
                        g |= actual[p].g
                        r |= actual[p].r
                        elems |= actual[p].elems
                    elif part == "registry":
                        elems |= {(q, "blackbox") for (q, _) in pr} | actual[p].elems
                elif slot == "g":
                    g |= pr
                elif slot == "r":
                    r |= pr
                else:
                    elems |= pr
                    if part == "self":
                        elems |= flat(actual[p])
            return AV(tags, kind_, g, r, elems)

        tags, g, r, elems = set(), set(), set(), set()
        for (slot, p, part) in summ.ret:
            if p.startswith("^") or p not in actual:
                continue
            pr = project(actual[p], part)
            if slot == "tags":
                tags |= pr
                if part == "self":
                    g |= actual[p].g
                    r |= actual[p].r
                    elems |= actual[p].elems
                elif part == "registry":
                    elems |= {(q, "blackbox") for (q, _) in pr} | actual[p].elems
            elif slot == "g":
                g |= pr
            elif slot == "r":
                r |= pr
            else:
                elems |= pr
                if part == "self":
                    elems |= flat(actual[p])
        # callables handed in (alone or inside a table) may come back as the result (`_lookup(table, key)`): the result carries them
        fn = (frozenset().union(*[a_.fn for a_ in actual.values()]) if actual else frozenset()) | summ.ret_fn
        out = AV(tags, summ.ret_kind, g, r, elems, fn=fn)
        if summ.ret_pos is not None:
            out.pos = [from_ret(r_, k_).with_fn(fn) for r_, k_ in summ.ret_pos]
        return out


def func_params_lambda(n):
    a = n.args
    return [x.arg for x in a.posonlyargs + a.args + a.kwonlyargs]


def bb_tags(av):
    av = flatten_record(av)
    return {t for t in av.tags | av.elems if t[1] in BB_PARTS}


def flat(av):
    """Everything a value is or holds (used when it is put into a container)."""
    av = flatten_record(av)
    return set(av.tags) | set(av.g) | set(av.r) | set(av.elems)


def elem_of(av):
    """Abstract element obtained by iterating / unpacking / popping from av."""
    av = flatten_record(av)
    if av.kind in ("Circuit", "Graph"):
        return FRESH  # iterating a circuit / graph yields node names
    tags = set(av.elems)
    kind = None
    for (p, part) in av.tags:
        if part == "regvalues":
            tags.add((p, "blackbox"))
        elif part in ("registry", "graph", "nodeview", "attrdict"):
            pass  # keys / node names / attribute names: immutable
        elif part == "self" and av.kind in ("Circuit", "Graph", "dict"):
            pass
        elif part == "bbfield":
            pass  # pin names
        elif part == "blackbox":
            tags.add((p, part))
        else:
            tags.add((p, part))
    if tags and all(t[1] == "blackbox" for t in tags):
        kind = "BlackBox"
    return AV(tags, kind, fn=av.fn)
