"""cgstatic - repository-specific static checkers for circuitgraph properties C01-C20."""
