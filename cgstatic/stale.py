"""
Stale-state rule: a transform / encoder called twice on the *same object*, with an in-place edit in between that
keeps node and edge counts (retyping a gate, re-wiring one edge), must give the second time what it gives on a
fresh, identical circuit.  Catches memoisation keyed on object identity or on a coarse shape stamp.
"""
from .minieval import ModelRaise
from .refmodel import RefCircuit, build


def edits():
    def retype(c):
        g = sorted(n for n in c.nodes() if c.type(n) in ("and", "or", "nand", "nor", "xor", "xnor"))[0]
        new = {"and": "or", "or": "and", "nand": "nor", "nor": "nand", "xor": "xnor", "xnor": "xor"}[c.type(g)]
        c.set_type(g, new)
        return f"set_type({g!r}, {new!r})"

    def rewire(c):
        g = sorted(n for n in c.nodes() if len(c.fanin(n)) >= 1 and c.type(n) not in ("input", "buf", "not"))[0]
        old = sorted(c.fanin(g))[0]
        cand = sorted(n for n in c.inputs() if n not in c.fanin(g) and n != g)
        if not cand:
            return None
        c.disconnect(old, g)
        c.connect(cand[0], g)
        return f"disconnect({old!r}, {g!r}); connect({cand[0]!r}, {g!r})"

    return [("retype", retype), ("rewire", rewire)]


def base_model():
    return build({"a": ("input", []), "b": ("input", []), "c": ("input", []), "g": ("and", ["a", "b"]), "h": ("xor", ["g", "b"]), "o": ("nor", ["h", "a"])}, outputs=["o", "g"])


def stale_state_rule(chk, rule, call, snapshot, file, func, models=None):
    """call(c) -> result or raises ModelRaise; snapshot(result) -> comparable."""
    n = 0
    for mname, mk in (models or [("base", base_model)]):
        for ename, edit in edits():
            c = mk()
            try:
                first = call(c)
                # results are the caller's: damage the first one - a later call must not hand it (or a part of it) out again
                for part in (first if isinstance(first, (tuple, list)) else [first]):
                    if isinstance(part, RefCircuit) and part is not c:
                        for n_ in list(part.nodes())[::2]:
                            part.graph.remove_node(n_)
                        part.blackboxes.clear()
                    elif isinstance(part, dict):
                        part.clear()
                what = edit(c)
                if what is None:
                    continue
                second = snapshot(call(c))
                fresh = c.copy()
                expected = snapshot(call(fresh))
            except ModelRaise as e:
                chk.ob(rule, f"{func}::{mname}::{ename}", False, file=file, func=func, fact={"raises": f"{e.kind}: {e.what}"[:160]}, expect="same result as on a fresh identical circuit")
                continue
            n += 1
            chk.ob(rule, f"{func}::{mname}::{ename}", second == expected, file=file, func=func,
                   fact={"edit": what, "stale": second != expected}, expect="the second call on the edited object equals a call on a fresh identical circuit (no stale memoised state)")
    return n


def circuit_snapshot(r):
    if isinstance(r, tuple):
        return tuple(circuit_snapshot(x) for x in r)
    if isinstance(r, RefCircuit):
        return r._snapshot()[1:3]
    if isinstance(r, dict):
        return tuple(sorted((k, str(v)) for k, v in r.items()))
    return str(r)


def earlier_calls_rule(chk, rule, make_caller, snapshot, file, func, inputs):
    """State that outlives a call (a mutable default argument, a module-level table, a class attribute): a sequence of
    calls made through *one* evaluation environment must give, call by call, what the same call gives as the first
    call of a *fresh* environment.  make_caller() -> call(x) bound to a fresh Package; inputs: [(name, make_input)]."""
    n = 0
    shared = make_caller()
    for i, (iname, mk) in enumerate(inputs):
        key = f"{func}::call {i + 1} of a sequence::{iname}"
        try:
            got = ("ok", snapshot(shared(mk())))
        except ModelRaise as e:
            got = ("raise", e.kind)
        try:
            want = ("ok", snapshot(make_caller()(mk())))
        except ModelRaise as e:
            want = ("raise", e.kind)
        n += 1
        chk.ob(rule, key, got == want, file=file, func=func, fact={"position_in_sequence": i + 1, "differs_from_first_call_in_a_fresh_environment": got != want,
                                                                  "got": str(got)[:160] if got != want else None, "fresh": str(want)[:160] if got != want else None},
               expect="a call's result does not depend on the calls made before it")
    return n
