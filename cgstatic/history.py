"""
Call-history evaluation ("full stack"): scripted sequences of construction-API calls are applied, in lock step,
to (a) an instance of the repository's own `Circuit` class - every method evaluated from circuit.py's source over
the graph model - and (b) the reference Circuit model.  After every call the outcome (returns / raises <kind>), the
observable state (nodes, types, output marks, edges, registry keys), the wiring invariants and the query methods
are compared.  This reaches what per-method tabulation cannot: state carried between calls (caches, flags,
partially applied edits) and two methods that are each fine alone.
"""
import itertools

from .minieval import ModelRaise, Unsupported
from .core import AnalysisError
from .pkgenv import Package
from .refmodel import RefBlackBox, RefCircuit
from .typetables import NO_FANIN, NO_FANOUT, SINGLE_FANIN


def state_of(c):
    g = c.graph
    return {
        "nodes": {n: (a.get("type"), bool(a.get("output", False))) for n, a in g._node.items()},
        "edges": sorted((u, v) for u in g._succ for v in g._succ[u]),
        "registry": sorted(c.blackboxes),
    }


def illegal(st):
    bad = []
    fanin, fanout = {}, {}
    for u, v in st["edges"]:
        fanout.setdefault(u, []).append(v)
        fanin.setdefault(v, []).append(u)
    for n, (t, out) in st["nodes"].items():
        fi, fo = fanin.get(n, []), fanout.get(n, [])
        if t is None:
            bad.append(f"node {n} has no type")
        if t in NO_FANIN and fi:
            bad.append(f"fan-in on {t} {n}")
        if t in SINGLE_FANIN and len(fi) > 1:
            bad.append(f"more than one fan-in on {t} {n}")
        if t in NO_FANOUT and fo:
            bad.append(f"fan-out from {t} {n}")
        if t == "bb_output" and (len(fo) > 1 or any(st["nodes"][v][0] != "buf" for v in fo)):
            bad.append(f"bb_output {n} drives {fo}")
    return bad


def child_ha(mk):
    c = mk("ha")
    c.add("x", "input")
    c.add("y", "input")
    c.add("c", "and", fanin=["x", "y"], output=True)
    c.add("s", "xor", fanin=["x", "y"], output=True)
    return c


def child_loop(mk):
    # a cyclic child: q = nor(r, qn), qn = nor(s, q)
    c = mk("latch")
    c.add("s", "input")
    c.add("r", "input")
    c.add("q", "nor", output=True)
    c.add("qn", "nor", fanin=["s", "q"], output=True)
    c.connect(["r", "qn"], "q")
    return c


def child_with_blackbox(mk, mkbb):
    # a child that carries a blackbox instance of its own: a -> r.d, r.q -> w -> o
    c = mk("cbb")
    c.add("x", "input")
    c.add("w", "buf")
    c.add("o", "and", fanin=["w", "x"], output=True)
    c.add_blackbox(mkbb("ff1", ["d"], ["q"]), "r", {"d": "x", "q": "w"})
    return c


def child_pin_output(mk, mkbb):
    # a child whose only output is an output pin of a blackbox instance of its own (marked with set_output), which also feeds a
    # buffer inside the child: x -> r.d, r.q -> qb, outputs == {r.q}
    c = mk("cpin")
    c.add("x", "input")
    c.add("qb", "buf")
    c.add_blackbox(mkbb("ff1", ["d"], ["q"]), "r", {"d": "x", "q": "qb"})
    c.set_output("r.q")
    return c


def child_feedthrough(mk):
    c = mk("ft")
    c.add("d", "input")
    c.add("q", "buf", fanin="d", output=True)
    return c


def child_cell(mk):
    # a cell that is instantiated several times and edited in place in between: en is a constant, w an internal net
    c = mk("cell")
    c.add("a", "input")
    c.add("en", "1")
    c.add("w", "not", fanin="a")
    c.add("y", "and", fanin=["a", "en"], output=True)
    return c


# each history: list of (method, args, kwargs); special methods start with '@'
def histories():
    A = lambda *a, **k: ("add", a, k)
    H = {}
    H["build-and-query"] = [A("a", "input"), A("b", "input"), A("g", "and", fanin=["a", "b"]), A("h", "not", fanin="g", output=True), ("set_output", ("g",), {}), ("set_output", ("g", False), {}),
                            A("k", "or", fanin=["h", "a"], output=True), ("disconnect", ("a", "k"), {}), ("connect", ("b", "k"), {}), ("remove", ("h",), {}), ("remove_unloaded", (), {})]
    H["rejected-adds"] = [A("a", "input"), A("a", "input"), A("0bad", "buf"), A("n", "mystery"), A("n", "buf", fanin=["a", "a2"]), A("z", "0", fanin="a"), A("i2", "input", fanin=["a"]),
                          A("g", "and", fanin=["a", "ghost"]), A("g2", "or", fanin="a"), A("a", "buf", allow_redefinition=True), A("a", "input", uid=True), A("w", "x"), ("connect", ("a", "w"), {})]
    H["rejected-connects"] = [A("a", "input"), A("b", "input"), A("n", "not", fanin="a"), ("connect", ("b", "n"), {}), ("connect", (["a", "b"], "n"), {}), ("connect", ("n", "a"), {}),
                              A("g", "and"), ("connect", ("a", ["g", "b"]), {}), ("connect", (["a", "b"], ["g"]), {}), A("k", "1"), ("connect", ("g", "k"), {}), ("connect", ("k", "g"), {}),
                              ("connect", ("nope", "g"), {}), ("connect", ("g", "nope"), {}), ("connect", ([], "g"), {}), ("disconnect", ("k", "g"), {})]
    H["blackbox-lifecycle"] = [A("a", "input"), A("ck", "input"), A("o", "buf", output=True), ("@add_blackbox", ("ff", ["clk", "d"], ["q"], "u0", {"clk": "ck", "d": "a", "q": "o"}), {}),
                               ("@add_blackbox", ("ff", ["clk", "d"], ["q"], "u0", None), {}), ("@add_blackbox", ("ff", ["clk", "d"], ["q"], "u1", {"bogus": "a"}), {}),
                               ("@add_blackbox", ("ff", ["clk", "d"], ["q"], "0u", None), {}), A("u3.q", "buf"), ("@add_blackbox", ("ff", ["clk", "d"], ["q"], "u3", None), {}),
                               ("connect", ("u0.q", "a"), {}), ("connect", ("u0.d", "o"), {}), A("n", "and"), ("connect", ("u0.q", "n"), {}), ("remove", ("u0.clk",), {}), ("remove_unloaded", (), {"inputs": True})]
    H["fill-closes-a-loop"] = [A("a", "input"), A("w", "buf"), A("g", "nand", fanin=["a", "w"], output=True), ("is_cyclic", (), {}), ("@add_blackbox", ("ft", ["d"], ["q"], "u", {"d": "g", "q": "w"}), {}),
                               ("is_cyclic", (), {}), ("@fill", ("u", "feedthrough"), {}), ("is_cyclic", (), {}), ("disconnect", ("u_q", "w"), {}), ("is_cyclic", (), {})]
    # nodes that already carry the names the pins of an instance get when it is filled (`<inst>_<pin>`): the fill is rejected whichever
    # pin it is, nothing is merged into the existing node; afterwards a fill under a free instance name succeeds
    H["fill-over-nodes-named-like-its-pins"] = [A("a", "input"), A("b", "input"), A("w", "buf", output=True), A("f0_q", "not", fanin="a", output=True),
                                                ("@add_blackbox", ("ft", ["d"], ["q"], "f0", {"d": "b", "q": "w"}), {}), ("@fill", ("f0", "feedthrough"), {}),
                                                A("v", "buf"), A("f1_d", "and", fanin=["a", "b"]), ("@add_blackbox", ("ft", ["d"], ["q"], "f1", {"d": "a", "q": "v"}), {}), ("@fill", ("f1", "feedthrough"), {}),
                                                ("remove", ("f0_q",), {}), ("@fill", ("f0", "feedthrough"), {}), ("fanin", ("w",), {})]
    # self-referential arguments: the circuit as its own sub-circuit, and as the filling of one of its own blackboxes
    H["circuit-spliced-into-itself"] = [A("a", "input"), A("b", "input"), A("g", "and", fanin=["a", "b"], output=True), ("@add_sub_self", ("u", None), {}), ("@add_sub_self", ("v", {"a": "g"}), {}), ("outputs", (), {})]
    H["circuit-filled-into-its-own-blackbox"] = [A("a", "input"), A("o", "buf", output=True), ("@add_blackbox", ("t", ["a"], ["o"], "u", {"a": "a", "o": "o"}), {}), ("@fill_self", ("u",), {}), ("fanin", ("o",), {})]
    # the filling circuit's output is an output pin of a blackbox of its own that already has its one load inside: taking over the
    # load of the filled instance's pin as well would leave a blackbox output with two loads
    H["fill-with-a-child-whose-output-is-a-blackbox-pin"] = [A("a", "input"), A("o", "buf", output=True), ("@add_blackbox", ("m", ["x"], ["r.q"], "u", {"x": "a", "r.q": "o"}), {}), ("@fill", ("u", "pinout"), {}),
                                                             ("fanout", ("u_r.q",), {})]
    # the caller removed a pin of the instance (and put another node under its name): the fill is refused, nothing is merged over it
    H["fill-after-a-pin-was-removed-or-replaced"] = [A("x", "input"), A("y", "input"), A("o", "buf", output=True), ("@add_blackbox", ("ft", ["d"], ["q"], "u", {"d": "x", "q": "o"}), {}),
                                                     ("remove", ("u.q",), {}), ("@fill", ("u", "feedthrough"), {}), A("u.q", "and", fanin=["x", "y"]), ("@fill", ("u", "feedthrough"), {}),
                                                     ("fanin", ("u.q",), {}), ("remove", ("u.q",), {}), A("u.q", "bb_output"), ("connect", ("u.q", "o"), {}), ("@fill", ("u", "feedthrough"), {}), ("fanin", ("o",), {})]
    # ... or put a pin of the OTHER direction under the pin's name (a blackbox input where the instance's output was): refused as well
    H["fill-after-a-pin-was-replaced-by-a-pin-of-the-other-direction"] = [A("x", "input"), A("y", "input"), A("o", "buf", output=True), ("@add_blackbox", ("ft", ["d"], ["q"], "u", {"d": "x", "q": "o"}), {}),
                                                                         ("remove", ("u.q",), {}), A("u.q", "bb_input", fanin=["y"]), ("@fill", ("u", "feedthrough"), {}), ("fanin", ("u.q",), {}),
                                                                         ("remove", ("u.d",), {}), A("u.d", "bb_output"), ("@fill", ("u", "feedthrough"), {}), ("fanin", ("o",), {})]
    H["subcircuit-with-a-loop"] = [A("a", "input"), A("b", "input"), ("is_cyclic", (), {}), ("@add_sub", ("loop", "l0", {"s": "a", "r": "b"}), {}), ("is_cyclic", (), {}), ("remove", ("l0_q",), {}), ("is_cyclic", (), {})]
    H["subcircuit-connections"] = [A("a", "input"), A("b", "input"), A("t1", "buf"), A("t2", "buf", output=True), ("@add_sub", ("ha", "h0", {"x": "a", "y": "a", "c": "t1", "s": "t2"}), {}),
                                   ("@add_sub", ("ha", "h0", None), {}), ("@add_sub", ("ha", "h1", {"x": "t1", "nope": "b"}), {}), ("@add_sub", ("ha", "h2", {"x": "ghost"}), {}),
                                   ("@add_sub", ("ha", "h3", {"c": "a"}), {}), ("relabel", ({"t1": "tt"},), {}), ("set_type", ("tt", "not"), {}), ("set_type", ("tt", "bb_input"), {}), ("remove_unloaded", (), {})]
    # a rejected splice is taken back: exactly the instance's own nodes and blackbox records go - not the nodes of the parent whose
    # names merely start like the instance name (`u_q`, `u_keep`, the pins of a blackbox instance `u_ff`)
    H["rejected-subcircuit-beside-nodes-that-share-its-prefix"] = [A("clk", "input"), A("d", "input"), A("x", "input"), A("u_q", "buf", output=True), A("u_keep", "not", fanin="x", output=True),
                                                                  ("@add_blackbox", ("ff", ["CK", "D"], ["Q"], "u_ff", {"CK": "clk", "D": "d", "Q": "u_q"}), {}),
                                                                  ("@add_sub", ("ha", "u", {"x": "x", "s": "d"}), {}), ("nodes", (), {}), ("fanin", ("u_q",), {}), ("fanout", ("x",), {}),
                                                                  A("v_keep", "buf", fanin="x"), ("@add_sub", ("withbb", "v", {"o": "d"}), {}), ("nodes", (), {}), ("fanin", ("v_keep",), {})]
    # the SAME child object instantiated repeatedly, edited in place in between without changing its node / edge counts (a constant
    # becomes an input, an internal net an output): every instantiation splices the child as it is at that moment
    H["same-child-instantiated-again-after-an-in-place-edit"] = [A("p", "input"), A("q", "buf", output=True), ("@add_sub_kept", ("cell", "u1", {"a": "p"}), {}), ("inputs", (), {}), ("outputs", (), {}),
                                                                 ("@edit_kept", ("cell", [("set_type", ("en", "input")), ("set_output", ("w",))]), {}),
                                                                 ("@add_sub_kept", ("cell", "u2", {"a": "p"}), {}), ("inputs", (), {}), ("outputs", (), {}), ("type", ("u2_en",), {}),
                                                                 ("@add_sub_kept", ("cell", "u3", {"en": "p", "w": "q"}), {}), ("fanin", ("u3_en",), {}), ("fanin", ("q",), {}),
                                                                 ("@edit_kept", ("cell", [("set_type", ("en", "0")), ("set_output", ("w", False))]), {}),
                                                                 ("@add_sub_kept", ("cell", "u4", {"en": "p"}), {}), ("@add_sub_kept", ("cell", "u5", None), {}), ("inputs", (), {}), ("outputs", (), {})]
    # a connect with several heads of which a LATER one is refused on the source side (a blackbox input pin as a driver, a blackbox
    # output pin onto a gate that is no buffer / onto two loads): the call is rejected as a whole - no edge of an earlier head stays
    H["rejected-connect-with-several-heads"] = [A("a", "input"), A("b", "input"), A("h", "and"), A("k", "or", output=True), A("w", "buf"),
                                                ("@add_blackbox", ("ff", ["d"], ["q"], "u0", {"d": "a"}), {}),
                                                ("connect", (["a", "u0.d"], "h"), {}), ("fanin", ("h",), {}), ("connect", (["b", "a", "u0.d"], ["h", "k"]), {}), ("fanin", ("k",), {}),
                                                ("connect", (["a", "u0.q"], "h"), {}), ("fanin", ("h",), {}), ("connect", (["b", "u0.q"], ["w", "k"]), {}), ("fanin", ("w",), {}),
                                                ("connect", ("u0.q", "w"), {}), ("connect", (["a", "u0.q"], "k"), {}), ("fanin", ("k",), {}), ("connect", (["u0.d", "a"], "h"), {}), ("fanin", ("h",), {})]
    H["copy-isolation"] = [A("a", "input"), A("g", "buf", fanin="a", output=True), ("@copy_then_edit", (), {}), ("set_output", (["g", "ghost"],), {}), ("fanin", ("ghost",), {})]
    H["set-output-on-removed-node"] = [A("a", "input"), A("g1", "buf", fanin="a"), A("g2", "not", fanin="a"), ("remove", ("g1",), {}), ("set_output", (["g2", "g1"],), {}), ("outputs", (), {})]
    return H


class Driver:
    """Applies one op to a circuit implementation (repository instance or reference)."""

    def __init__(self, mk_circuit, mk_blackbox, self_aliasing=True):
        self.mk = mk_circuit
        self.mkbb = mk_blackbox
        self.self_aliasing = self_aliasing  # False for the reference: it is handed a copy where the repository gets the object itself
        self.c = mk_circuit("hist")
        self.bbs = {}
        self.side = None

    def kept_child(self, which):
        # built on first use (building it may itself be rejected by a broken primitive: the step then records that outcome)
        kept = self.__dict__.setdefault("kept", {})
        if which not in kept:
            kept[which] = {"cell": child_cell}[which](self.mk)
        return kept[which]

    def apply(self, op):
        meth, args, kw = op
        c = self.c
        if meth == "@add_blackbox":
            name, ins, outs, inst, conns = args
            key = (name, tuple(ins), tuple(outs))
            if key not in self.bbs:
                self.bbs[key] = self.mkbb(name, list(ins), list(outs))
            return c.add_blackbox(self.bbs[key], inst, dict(conns) if conns else None)
        if meth == "@fill":
            inst, which = args
            child = child_with_blackbox(self.mk, self.mkbb) if which == "withbb" else child_pin_output(self.mk, self.mkbb) if which == "pinout" else {"feedthrough": child_feedthrough, "ha": child_ha}[which](self.mk)
            return c.fill_blackbox(inst, child)
        if meth == "@add_sub":
            which, inst, conns = args
            child = child_with_blackbox(self.mk, self.mkbb) if which == "withbb" else {"loop": child_loop, "ha": child_ha}[which](self.mk)
            return c.add_subcircuit(child, inst, dict(conns) if conns else None)
        if meth == "@add_sub_kept":
            which, inst, conns = args
            return c.add_subcircuit(self.kept_child(which), inst, dict(conns) if conns else None)
        if meth == "@edit_kept":
            which, edits_ = args
            for m_, a_ in edits_:
                getattr(self.kept_child(which), m_)(*a_)
            return None
        if meth == "@add_sub_self":
            # the circuit spliced into itself: "a renamed copy of sc" is a copy of the circuit as it is now (the reference gets one)
            inst, conns = args
            child = c if self.self_aliasing else c.copy()
            return c.add_subcircuit(child, inst, dict(conns) if conns else None)
        if meth == "@fill_self":
            (inst,) = args
            child = c if self.self_aliasing else c.copy()
            return c.fill_blackbox(inst, child)
        if meth == "@copy_then_edit":
            d = c.copy()
            d.add("extra", "not", fanin="a", output=True)
            d.set_output("g", False)
            d.blackboxes["ghost"] = None
            self.side = d
            return None
        r = getattr(c, meth)(*args, **kw)
        if meth in ("remove_unloaded",):
            return sorted(r)
        if meth in ("fanin", "outputs", "inputs", "fanout"):
            return sorted(r)
        return r


def run_one(name, ops, repo_pkg):
    a = Driver(repo_pkg.cg.Circuit, repo_pkg.cg.BlackBox)
    b = Driver(RefCircuit, RefBlackBox, self_aliasing=False)
    steps = []
    for i, op in enumerate(ops):
        outs = []
        for d in (a, b):
            try:
                r = d.apply(op)
                outs.append(("ok", r if isinstance(r, (bool, str, list, type(None))) else None))
            except ModelRaise as e:
                outs.append(("raise", e.kind))
        sa, sb = state_of(a.c), state_of(b.c)
        steps.append({"i": i, "op": f"{op[0]}{op[1]}{op[2] if op[2] else ''}"[:110], "repo": outs[0], "reference": outs[1], "state_repo": sa, "state_ref": sb})
    return a, b, steps


def history_rule(chk, rule_prefix, file="circuit.py", only=None, floor=80):
    """C07.H / C12.H (all histories); C06.H (`only`: the ones about splicing sub-circuits and filling blackboxes)"""
    P = Package(chk.repo, full_stack=True)
    n_steps = 0
    for name, ops in histories().items():
        if only is not None and not only(name, ops):
            continue
        try:
            a, b, steps = run_one(name, ops, P)
        except Unsupported as e:
            raise AnalysisError(f"history {name}: unrecognised idiom: {e}", file)
        prob = None
        n_steps += len(steps)
        for s in steps:
            bad = illegal(s["state_repo"])
            if bad:
                prob = {"problem": "wiring invariant broken after a call", "step": s["i"], "call": s["op"], "illegal": bad[:3]}
                break
            # the exception *kind* is part of the documented behaviour only for rejected construction calls (ValueError)
            if s["repo"][0] != s["reference"][0] or (s["repo"][0] == "raise" and s["reference"][1] == "ValueError" and s["repo"][1] != "ValueError"):
                prob = {"problem": "call outcome differs from the documented behaviour", "step": s["i"], "call": s["op"], "repository": s["repo"], "reference": s["reference"]}
                break
            if s["repo"][0] == "ok" and s["repo"][1] != s["reference"][1]:
                prob = {"problem": "return value differs from the documented behaviour", "step": s["i"], "call": s["op"], "repository": str(s["repo"][1])[:80], "reference": str(s["reference"][1])[:80]}
                break
            if s["state_repo"] != s["state_ref"]:
                d = {k: (s["state_repo"][k], s["state_ref"][k]) for k in ("edges", "registry") if s["state_repo"][k] != s["state_ref"][k]}
                nd = {n: (s["state_repo"]["nodes"].get(n), s["state_ref"]["nodes"].get(n)) for n in set(s["state_repo"]["nodes"]) | set(s["state_ref"]["nodes"]) if s["state_repo"]["nodes"].get(n) != s["state_ref"]["nodes"].get(n)}
                prob = {"problem": "circuit state differs from the documented behaviour after a call", "step": s["i"], "call": s["op"], "diff": str(d)[:200], "node_diff": str(nd)[:200]}
                break
        if prob is None and name == "copy-isolation" and a.side is not None:
            if "extra" in a.c.graph._node or not a.c.graph._node["g"].get("output") or "ghost" in a.c.blackboxes:
                prob = {"problem": "editing a copy changed the original"}
        chk.ob(f"{rule_prefix}.history", f"history::{name}", prob is None, file=file, func="Circuit", fact=prob or {"calls": len(ops)},
               expect="after every call: same outcome and state as the documented semantics, wiring invariants intact")
    chk.floor("history steps evaluated", n_steps, floor)
    return n_steps
