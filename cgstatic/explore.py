"""
Exhaustive short call histories (C07.X): every sequence of up to L calls drawn from a pool of construction-API calls
over a small name universe - valid, invalid, duplicate, self-referential, blackbox and sub-circuit operations, calls that
are rejected half-way - is applied to an instance of the repository's own `Circuit` class (every method evaluated from
source, "full stack").  After every call the clauses of the property are checked directly on the resulting state, without
a reference implementation:

  * the wiring invariants hold (no fan-in on inputs / constants / blackbox outputs, at most one on buf / not / blackbox
    input, no fan-out from blackbox inputs, a blackbox output drives at most one node and that is a buf, every node has
    a supported type, every recorded instance has its pins with the right type unless the caller removed them);
  * a call that raises has added no edge;
  * add(..., uid=True) leaves every existing node and its type alone.

States are explored breadth-first with de-duplication on the observable state.  L = 2 in the quick tier, 3 in thorough.
"""
from .core import AnalysisError
from .history import Driver, illegal, state_of
from .minieval import ModelRaise, Unsupported
from .pkgenv import Package


def op_pool():
    A = lambda *a, **k: ("add", a, k)
    ff = ("ff", ["clk", "d"], ["q"])
    return [
        A("a", "input"), A("b", "input"),
        A("g", "and", fanin=["a", "b"]), A("g", "buf", fanin="a"), A("h", "not", fanin="g", output=True),
        A("h", "nor", fanin=["g", "ghost"], fanout=["g"]),  # rejected after the fan-out side was wired
        A("k", "1"), A("g", "xor", fanin=["a"], uid=True),
        ("connect", ("a", "g"), {}), ("connect", ("g", "h"), {}), ("connect", ("h", "g"), {}), ("connect", ("k", "a"), {}), ("connect", (["a", "b"], "h"), {}), ("connect", ("g", ["h", "a"]), {}),
        ("connect", ("g", "g"), {}), A("w", "buf", fanin="w"), ("connect", ("a", "w"), {}), ("connect", ("b", "g"), {}),  # self-loops, then a second driver
        ("disconnect", ("a", "g"), {}), ("remove", ("g",), {}), ("set_output", ("g",), {}), ("set_output", (["g", "ghost"],), {}),
        ("@add_blackbox", (*ff, "u0", {"d": "g", "q": "h"}), {}), ("@add_blackbox", (*ff, "u0", {"d": "g", "q": "ghost"}), {}), ("@add_blackbox", (*ff, "u0", None), {}),
        ("@fill", ("u0", "feedthrough"), {}),
        # a node already carrying the name the output pin of an instance gets when it is filled; the child's output is a buffer
        A("f0_q", "not", fanin="a"), ("@add_blackbox", ("ftdef", ["d"], ["q"], "f0", {"d": "b"}), {}), ("@fill", ("f0", "feedthrough"), {}),
        # an instance whose pins match a child that carries a blackbox `r` of its own, and an unrelated instance that already has the
        # name the child's blackbox would get: the fill must be rejected before anything is renamed or merged
        ("@add_blackbox", ("cbbdef", ["x"], ["o"], "w0", None), {}), ("@add_blackbox", ("other", ["p"], ["z"], "w0_r", None), {}), ("@fill", ("w0", "withbb"), {}),
        ("@add_sub", ("ha", "s0", {"x": "a", "y": "g", "c": "h"}), {}), ("@add_sub", ("ha", "s0", {"x": "ghost"}), {}),
        ("@add_sub", ("withbb", "s1", {"x": "a", "o": "h"}), {}), ("@add_sub", ("withbb", "s1", {"x": "ghost"}), {}),
        ("remove", ("u0.d",), {}), ("connect", ("u0.q", "g"), {}), ("connect", ("a", "u0.q"), {}), ("connect", ("u0.d", "h"), {}),
        ("remove_unloaded", (), {}),
    ]


def label(op):
    """Stable name of a pool operation (used in obligation keys: a finding is identified by the call that exposes it)."""
    m, a, k = op
    if m == "@add_blackbox":
        return f"add_blackbox({a[3]}, {a[4]})"
    if m == "@fill":
        return f"fill_blackbox({a[0]})"
    if m == "@add_sub":
        return f"add_subcircuit({a[1]}, {a[2]})"
    return f"{m}({', '.join(repr(x) for x in a)}{', ' if k and a else ''}{', '.join(f'{kk}={vv!r}' for kk, vv in k.items())})"


def _sig(st):
    return (tuple(sorted((n, t, o) for n, (t, o) in st["nodes"].items())), tuple(st["edges"]), tuple(st["registry"]))


def _pin_problems(c, st, removed_by_caller):
    bad = []
    for inst in st["registry"]:
        bb = c.blackboxes[inst]
        for pin, want in [(p, "bb_input") for p in bb.inputs()] + [(p, "bb_output") for p in bb.outputs()]:
            node = f"{inst}.{pin}"
            if node in removed_by_caller:
                continue
            if node not in st["nodes"]:
                bad.append(f"pin {node} of a recorded instance is missing")
            elif st["nodes"][node][0] != want:
                bad.append(f"pin {node} has type {st['nodes'][node][0]}")
    return bad


def short_histories_rule(chk, rule, depth, file="circuit.py"):
    P = Package(chk.repo, full_stack=True)
    pool = op_pool()
    fails = {}
    n_calls = 0
    n_states = 0

    def replay(seq):
        d = Driver(P.cg.Circuit, P.cg.BlackBox)
        removed = set()
        for i in seq:
            op = pool[i]
            try:
                d.apply(op)
            except ModelRaise:
                pass
            if op[0] == "remove" and "." in str(op[1][0]):
                removed.add(op[1][0])
        return d, removed

    # start states: the empty circuit, a small circuit (a, b, g = and(a, b), h = not(g) marked as output, constant k), and that
    # circuit with a connected blackbox instance u0
    idx = {("add", "a"): 0, ("add", "b"): 1}
    base = (0, 1, 2, 4, 6)
    with_bb = base + (next(i for i, op in enumerate(pool) if op[0] == "@add_blackbox"),)
    i_w0 = [i for i, op in enumerate(pool) if op[0] == "@add_blackbox" and op[1][3] in ("w0", "w0_r")]
    i_f0 = [i for i, op in enumerate(pool) if op[0] == "@add_blackbox" and op[1][3] == "f0"]
    frontier = [(), base, with_bb, base + tuple(i_w0), base + tuple(i_f0)]
    seen = {_sig(state_of(replay(sq)[0].c)) for sq in frontier}
    for level in range(depth):
        nxt = []
        for seq in frontier:
            for i, op in enumerate(pool):
                try:
                    d, removed = replay(seq)
                    before = state_of(d.c)
                    problems_before = set(illegal(before) + _pin_problems(d.c, before, removed))
                    raised = None
                    try:
                        d.apply(op)
                    except ModelRaise as e:
                        raised = e.kind
                    after = state_of(d.c)
                except Unsupported as e:
                    raise AnalysisError(f"history {[pool[j][0] for j in seq] + [op[0]]}: unrecognised idiom: {e}", file)
                n_calls += 1
                if op[0] == "remove" and "." in str(op[1][0]):
                    removed = removed | {op[1][0]}
                meth = op[0]
                hist = [f"{pool[j][0]}{pool[j][1]}{pool[j][2] or ''}"[:70] for j in seq] + [f"{op[0]}{op[1]}{op[2] or ''}"[:90]]
                problems = []
                bad = illegal(after) + _pin_problems(d.c, after, removed)
                # the state before the call was legal (or already reported): report only what this call introduced
                bad_before = problems_before
                for b in bad:
                    if b not in bad_before:
                        problems.append(("illegal wiring after the call", b))
                if raised is not None:
                    new_edges = [e for e in after["edges"] if e not in before["edges"]]
                    if new_edges:
                        problems.append(("rejected call added an edge", str(new_edges[:3])))
                if op[2].get("uid") and raised is None:
                    changed = [n for n, v in before["nodes"].items() if after["nodes"].get(n) != v]
                    if changed:
                        problems.append(("add(uid=True) changed an existing node", str(changed)))
                for kind, detail in problems:
                    fails.setdefault((label(op), kind), {"history": hist, "detail": detail, "raised": raised})
                sg = _sig(after)
                if sg not in seen:
                    seen.add(sg)
                    nxt.append(seq + (i,))
        frontier = nxt
        n_states += len(nxt)
    for op in pool:
        m = label(op)
        fn = {"@add_blackbox": "add_blackbox", "@fill": "fill_blackbox", "@add_sub": "add_subcircuit"}.get(op[0], op[0])
        mine = {k: v for k, v in fails.items() if k[0] == m}
        if not mine:
            chk.ob(rule, f"{m}::in every explored state", True, file=file, func=f"Circuit.{fn}", fact={"depth": depth})
        for (mm, kind), fact in mine.items():
            chk.ob(rule, f"{m}::{kind}", False, file=file, func=f"Circuit.{fn}", fact=fact,
                   expect="after any sequence of calls - succeeding or rejected - the wiring invariants hold and a rejected call has added no edge")
    chk.floor("history calls explored", n_calls, 300)
    chk.extra["distinct_states_explored"] = len(seen)
    return n_calls


def uid_pool():
    A = lambda *a, **k: ("add", a, k)
    return [
        A("a", "input"), A("a", "buf", uid=True), A("a", "not", fanin="a", uid=True), A("a", "and", fanin=["a", "a_1"], uid=True, output=True),
        A("a_0", "input"), A("a_1", "or", output=True), A("a_2", "input"),
        ("remove", ("a_0",), {}), ("remove", ("a_1",), {}), ("connect", ("a", "a_1"), {}),
    ]


def uid_histories_rule(chk, rule, depth, file="circuit.py"):
    """
    Names handed out by add(..., uid=True) over every call sequence of the given length that mixes uid calls with explicit
    additions / removals of exactly the suffixed names uid would pick (a_0, a_1, a_2).  No de-duplication on the observable
    state: what an earlier uid call may have left behind (a remembered counter, a cached name) is not observable, and is
    exactly what this rule is after.  After every uid call: the returned name was free before the call, every node that
    existed keeps its type, output mark and fan-in, and the wiring invariants hold.
    """
    P = Package(chk.repo, full_stack=True)
    pool = uid_pool()
    fails = {}
    n_calls = 0

    def fanin_of(st):
        fi = {}
        for u, v in st["edges"]:
            fi.setdefault(v, []).append(u)
        return fi

    def walk(seq):
        nonlocal n_calls
        d = Driver(P.cg.Circuit, P.cg.BlackBox)
        hist = []
        for i in seq:
            op = pool[i]
            before = state_of(d.c)
            raised, ret = None, None
            try:
                ret = d.apply(op)
            except ModelRaise as e:
                raised = e.kind
            except Unsupported as e:
                raise AnalysisError(f"uid history {hist + [label(op)]}: unrecognised idiom: {e}", file)
            n_calls += 1
            hist.append(label(op))
            if not op[2].get("uid"):
                continue
            after = state_of(d.c)
            fb, fa = fanin_of(before), fanin_of(after)
            problems = []
            changed = [n for n, v in before["nodes"].items() if after["nodes"].get(n) != v or sorted(fb.get(n, [])) != sorted(fa.get(n, []))]
            if changed:
                problems.append(("add(uid=True) changed an existing node", str(changed)))
            if raised is None and isinstance(ret, str) and ret in before["nodes"]:
                problems.append(("add(uid=True) returned a name already in use", ret))
            for b in illegal(after):
                if b not in illegal(before):
                    problems.append(("illegal wiring after add(uid=True)", b))
            for kind, detail in problems:
                fails.setdefault(kind, {"history": list(hist), "detail": detail, "raised": raised})

    import itertools

    for seq in itertools.product(range(len(pool)), repeat=depth):
        # only sequences with at least two uid calls and one explicit edit of a suffixed name between / before them can differ
        uids = [k for k, i in enumerate(seq) if pool[i][2].get("uid")]
        if len(uids) < 2 or not any(not pool[i][2].get("uid") and str(pool[i][1][0]).startswith("a_") or pool[i][0] == "connect" for i in seq[: uids[-1]]):
            continue
        walk(seq)
    for kind in ("add(uid=True) changed an existing node", "add(uid=True) returned a name already in use", "illegal wiring after add(uid=True)"):
        chk.ob(rule, f"add(uid=True)::{kind}", kind not in fails, file=file, func="Circuit.uid", fact=fails.get(kind, {"depth": depth, "calls": n_calls}),
               expect="a name that was free; every existing node keeps its type, output mark and fan-in")
    chk.floor("uid history calls explored", n_calls, 1000)
    return n_calls
