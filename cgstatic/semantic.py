"""Families of small model circuits and semantic comparison helpers (finite oracles)."""
import itertools

from .refmodel import RefCircuit, build, free_nodes, simulate

GATES2 = ["and", "nand", "or", "nor", "xor", "xnor"]


def guarded(fn):
    """A model netlist that cannot be evaluated (cycle, missing node, x value) is a failed obligation, not a checker error."""
    from .minieval import ModelRaise

    def wrapper(*a, **k):
        try:
            return fn(*a, **k)
        except (ModelRaise, ValueError, KeyError) as e:
            return {"problem": f"result cannot be evaluated: {type(e).__name__}: {e}"}

    wrapper.__name__ = fn.__name__
    return wrapper


def assignments(names):
    names = list(names)
    for bits in itertools.product([False, True], repeat=len(names)):
        yield dict(zip(names, bits))


def values_table(c, nodes=None):
    """{assignment tuple over free nodes: {node: value}}"""
    fr = free_nodes(c)
    out = {}
    for a in assignments(fr):
        v = simulate(c, a)
        out[tuple(a[n] for n in fr)] = v if nodes is None else {n: v[n] for n in nodes}
    return fr, out


def one_gate_circuits(max_arity=3, types=None):
    names = ["a", "b", "c", "d", "e", "f", "h", "i"]
    for t in types or (GATES2 + ["buf", "not"]):
        ar = [1] if t in ("buf", "not") else range(1, max_arity + 1)
        for k in ar:
            spec = {names[i]: ("input", []) for i in range(k)}
            spec["g"] = (t, names[:k])
            yield f"{t}{k}", build(spec, outputs=["g"])


def two_level_circuits(types1=None, types2=None, limit=None):
    """All circuits over inputs a,b,c with g1 = T1(subset) and g2 = T2(subset incl. g1); outputs g2 (and g1)."""
    n = 0
    ins = ["a", "b", "c"]
    for t1 in types1 or (GATES2 + ["not"]):
        for s1 in ([["a"], ["b"]] if t1 in ("buf", "not") else [["a", "b"], ["a", "b", "c"], ["b"]]):
            for t2 in types2 or (GATES2 + ["not", "buf"]):
                for s2 in ([["g1"]] if t2 in ("buf", "not") else [["g1", "c"], ["g1", "a", "b"], ["g1"], ["g1", "a", "c", "b"]]):
                    spec = {i: ("input", []) for i in ins}
                    spec["g1"] = (t1, s1)
                    spec["g2"] = (t2, s2)
                    n += 1
                    if limit and n > limit:
                        return
                    yield f"{t1}{len(s1)}-{t2}{len(s2)}", build(spec, outputs=["g2"])


def deep_circuits():
    """A few hand-picked multi-level model circuits with reconvergence, constants and shared fan-out."""
    yield "reconv", build({"a": ("input", []), "b": ("input", []), "c": ("input", []), "n1": ("nand", ["a", "b"]), "n2": ("nor", ["n1", "c"]), "n3": ("xor", ["n1", "n2", "a"]),
                            "n4": ("xnor", ["n3", "b"]), "o1": ("or", ["n4", "n2"]), "o2": ("not", ["n3"])}, outputs=["o1", "o2"])
    yield "consts", build({"a": ("input", []), "b": ("input", []), "z": ("0", []), "w": ("1", []), "g1": ("and", ["a", "w"]), "g2": ("or", ["g1", "z", "b"]), "g3": ("xnor", ["g2", "w"]),
                            "o": ("buf", ["g3"])}, outputs=["o", "g1"])
    yield "wide", build({"a": ("input", []), "b": ("input", []), "c": ("input", []), "d": ("input", []), "e": ("input", []), "g1": ("xnor", ["a", "b", "c", "d", "e"]),
                          "g2": ("nand", ["a", "b", "c", "d"]), "g3": ("nor", ["g1", "g2", "e", "a"]), "o": ("xor", ["g1", "g2", "g3"])}, outputs=["o", "g3"])
    yield "in-is-out", build({"a": ("input", []), "b": ("input", []), "g": ("and", ["a", "b"])}, outputs=["a", "g"])
    yield "fanout", build({"a": ("input", []), "b": ("input", []), "s": ("xor", ["a", "b"]), "l1": ("not", ["s"]), "l2": ("buf", ["s"]), "l3": ("and", ["s", "a"]), "l4": ("or", ["s", "b"]),
                            "l5": ("nand", ["s", "l1"]), "o": ("xnor", ["l1", "l2", "l3", "l4", "l5"])}, outputs=["o", "l4"])


def reinserted(c, mode="reversed"):
    """The same circuit with its nodes (and edges) inserted in another order - node iteration order is insertion order, and
    code that assumes drivers come before their loads only works on circuits built sources-first."""
    from .refmodel import RefCircuit

    names = list(c.graph._node)
    if mode == "reversed":
        order = names[::-1]
    elif mode == "sinks-first":
        order = list(c.graph.topo())[::-1] if c.graph.is_dag() else names[::-1]
    elif mode in ("interleaved-a", "interleaved-b"):
        # neither drivers-first nor loads-first along a path: every second node of a topological order, then the others
        t = list(c.graph.topo()) if c.graph.is_dag() else names
        order = t[1::2] + t[0::2] if mode == "interleaved-a" else t[0::2][::-1] + t[1::2]
    else:
        raise ValueError(mode)
    d = RefCircuit(name=c.name)
    for n in order:
        d.graph.add_node(n, **dict(c.graph._node[n]))
    for u, v in list(c.graph.edges)[::-1]:
        d.graph.add_edge(u, v)
    d.blackboxes.update(c.blackboxes)
    return d
