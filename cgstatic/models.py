"""Model objects for finite-domain evaluation of extracted guards (see minieval)."""
from .minieval import Model, ModelRaise

MISSING = "<missing>"


class MNodeView(Model):
    """c.graph.nodes"""

    def __init__(self, attrs, iter_only=None):
        self._attrs = attrs
        self._iter_only = iter_only

    def __getitem__(self, n):
        if n not in self._attrs:
            raise ModelRaise("KeyError", f"node {n}")
        return self._attrs[n]

    def __contains__(self, n):
        return n in self._attrs

    def __iter__(self):
        return iter(self._iter_only if self._iter_only is not None else list(self._attrs))

    def __len__(self):
        return len(self._attrs)

    def __call__(self, data=False, default=None):
        names = list(self)
        if data is True:
            return [(n, self._attrs[n]) for n in names]
        if data:
            return [(n, self._attrs[n].get(data, default)) for n in names]
        return names

    def data(self, key=None, default=None):
        return [(n, self._attrs[n] if key is None or key is True else self._attrs[n].get(key, default)) for n in self]

    def items(self):
        return [(n, self._attrs[n]) for n in self]

    def keys(self):
        return list(self)

    def values(self):
        return [self._attrs[n] for n in self]

    def get(self, n, default=None):
        return self._attrs[n] if n in self._attrs else default


class MGraph(Model):
    def __init__(self, circuit):
        self._c = circuit
        self.nodes = MNodeView(circuit._attrs, circuit._iter_only)

    def __contains__(self, n):
        return n in self._c._attrs

    def __iter__(self):
        return iter(self.nodes)

    def predecessors(self, n):
        return iter(sorted(self._c._fanin.get(n, ())))

    def successors(self, n):
        return iter(sorted(self._c._fanout.get(n, ())))

    def number_of_nodes(self):
        return len(self._c._attrs)

    def number_of_edges(self):
        return sum(len(v) for v in self._c._fanout.values())

    def __len__(self):
        return len(self._c._attrs)

    @property
    def edges(self):
        return [(u, v) for u, vs in self._c._fanout.items() for v in sorted(vs)]

    # the adjacency internals the graph-function models (MNx) read
    @property
    def _node(self):
        return self._c._attrs

    @property
    def _pred(self):
        return self.pred

    @property
    def _succ(self):
        return self.succ

    def descendants(self, n):
        seen, stack = set(), list(self._c._fanout.get(n, ()))
        while stack:
            x = stack.pop()
            if x not in seen:
                seen.add(x)
                stack.extend(self._c._fanout.get(x, ()))
        return seen

    def ancestors(self, n):
        seen, stack = set(), list(self._c._fanin.get(n, ()))
        while stack:
            x = stack.pop()
            if x not in seen:
                seen.add(x)
                stack.extend(self._c._fanin.get(x, ()))
        return seen

    @property
    def pred(self):
        return {n: {p: {} for p in sorted(self._c._fanin.get(n, ()))} for n in self._c._attrs}

    @property
    def succ(self):
        return {n: {p: {} for p in sorted(self._c._fanout.get(n, ()))} for n in self._c._attrs}

    adj = succ

    def in_degree(self, n):
        return len(self._c._fanin.get(n, ()))

    def out_degree(self, n):
        return len(self._c._fanout.get(n, ()))

    def in_edges(self, n):
        return [(p, n) for p in sorted(self._c._fanin.get(n, ()))]

    def out_edges(self, n):
        return [(n, p) for p in sorted(self._c._fanout.get(n, ()))]

    def __getitem__(self, n):
        return {p: {} for p in sorted(self._c._fanout.get(n, ()))}


class MBlackBox(Model):
    def __init__(self, name, inputs, outputs):
        self.name = name
        self._i = set(inputs)
        self._o = set(outputs)

    def inputs(self):
        return set(self._i)

    def outputs(self):
        return set(self._o)

    def io(self):
        return self._i | self._o


class MCircuit(Model):
    """Read-only model of a Circuit: attrs, fan-in/fan-out sets, registry."""

    def __init__(self, attrs, edges=(), blackboxes=None, iter_only=None, name="m"):
        self._attrs = attrs
        self._iter_only = iter_only
        self._fanin = {}
        self._fanout = {}
        for u, v in edges:
            self._fanout.setdefault(u, set()).add(v)
            self._fanin.setdefault(v, set()).add(u)
        self.blackboxes = dict(blackboxes or {})
        self.graph = MGraph(self)
        self.name = name

    def __contains__(self, n):
        return n in self._attrs

    def __iter__(self):
        return iter(self.graph.nodes)

    def __len__(self):
        return len(self._attrs)

    def nodes(self):
        return set(self.graph.nodes)

    def type(self, n):
        if isinstance(n, str):
            if n not in self._attrs:
                raise ModelRaise("KeyError", f"node {n} does not exist")
            if "type" not in self._attrs[n]:
                raise ModelRaise("KeyError", f"node {n} has no type")
            return self._attrs[n]["type"]
        return [self.type(x) for x in n]

    def _many(self, ns):
        return [ns] if isinstance(ns, str) else list(ns)

    def fanin(self, ns):
        out = set()
        for n in self._many(ns):
            if n not in self._attrs:
                raise ModelRaise("NetworkXError", f"node {n}")
            out |= self._fanin.get(n, set())
        return out

    def fanout(self, ns):
        out = set()
        for n in self._many(ns):
            if n not in self._attrs:
                raise ModelRaise("NetworkXError", f"node {n}")
            out |= self._fanout.get(n, set())
        return out

    def is_output(self, n):
        if n not in self._attrs:
            raise ModelRaise("KeyError", f"node {n}")
        return self._attrs[n].get("output", False)

    def filter_type(self, types):
        if isinstance(types, str):
            types = [types]
        return {n for n in self._attrs if self._attrs[n].get("type") in types}

    def inputs(self):
        return self.filter_type("input")

    def outputs(self):
        return {n for n in self._attrs if self._attrs[n].get("output", False)}


# ---------------------------------------------------------------------------
# mutable model (for tabulating what a mutator does before it raises)
# ---------------------------------------------------------------------------
from .typetables import NO_FANIN, NO_FANOUT, SINGLE_FANIN  # noqa: E402


class MMutGraph(MGraph):
    """MGraph's read interface (degrees, views, adjacency) plus the writers, which log what they do."""

    def __init__(self, circuit):
        self._c = circuit
        self.nodes = MNodeView(circuit._attrs)

    def __contains__(self, n):
        return n in self._c._attrs

    def __iter__(self):
        return iter(list(self._c._attrs))

    def add_node(self, n, **attrs):
        self._c._log.append(("add_node", n, dict(attrs)))
        self._c._attrs.setdefault(n, {}).update(attrs)

    def add_edges_from(self, edges):
        for u, v in list(edges):
            self._c._add_edge(u, v)

    def add_edge(self, u, v):
        self._c._add_edge(u, v)

    def remove_nodes_from(self, ns):
        for n in list(ns):
            self.remove_node(n)

    def remove_node(self, n):
        self._c._log.append(("remove_node", n))
        self._c._attrs.pop(n, None)
        for d in (self._c._fanin, self._c._fanout):
            d.pop(n, None)
            for s in d.values():
                s.discard(n)

    def remove_edges_from(self, edges):
        for u, v in list(edges):
            self._c._log.append(("remove_edge", u, v))
            self._c._fanout.get(u, set()).discard(v)
            self._c._fanin.get(v, set()).discard(u)

    def predecessors(self, n):
        return iter(sorted(self._c._fanin.get(n, ())))

    def successors(self, n):
        return iter(sorted(self._c._fanout.get(n, ())))

    def has_edge(self, u, v):
        return v in self._c._fanout.get(u, ())

    def has_node(self, n):
        return n in self._c._attrs


def reference_connect_error(c, us, vs):
    """The legality rules of the property statement (C07); returns an error string or None."""
    for n in list(us) + list(vs):
        if n not in c._attrs:
            return f"node {n} does not exist"
    for v in vs:
        t = c._attrs[v].get("type")
        if t in NO_FANIN:
            return f"fan-in on {t}"
        if t in SINGLE_FANIN and len(c._fanin.get(v, ())) + len(set(us) - c._fanin.get(v, set())) > 1:
            return f"more than one fan-in on {t}"
    for u in us:
        t = c._attrs[u].get("type")
        if t in NO_FANOUT:
            return f"fan-out from {t}"
        if t == "bb_output":
            for v in vs:
                if c._attrs[v].get("type") != "buf":
                    return "bb_output drives a non-buf"
            if len(c._fanout.get(u, ())) + len(set(vs) - c._fanout.get(u, set())) > 1:
                return "bb_output drives more than one node"
    return None


class MMutCircuit(MCircuit):
    """Mutable model; `connect`/`uid` follow the reference semantics unless overridden."""

    def __init__(self, attrs, edges=(), blackboxes=None, name="m"):
        super().__init__(attrs, edges, blackboxes, None, name)
        self._log = []
        self.graph = MMutGraph(self)

    def _add_edge(self, u, v):
        self._log.append(("add_edge", u, v))
        for n in (u, v):
            self._attrs.setdefault(n, {})
        self._fanout.setdefault(u, set()).add(v)
        self._fanin.setdefault(v, set()).add(u)

    def connect(self, us, vs):
        if not us or not vs:
            return None
        if isinstance(us, str):
            us = [us]
        if isinstance(vs, str):
            vs = [vs]
        us, vs = list(us), list(vs)
        err = reference_connect_error(self, us, vs)
        if err:
            raise ModelRaise("ValueError", err)
        for u in us:
            for v in vs:
                self._add_edge(u, v)
        return None

    def uid(self, n, blocked=None):
        blocked = blocked or []
        if n not in self._attrs and n not in blocked:
            return n
        i = 0
        while f"{n}_{i}" in self._attrs or f"{n}_{i}" in blocked:
            i += 1
        return f"{n}_{i}"

    def add(self, n, node_type, **kw):
        # used only for `add_connected_nodes` recursion: self.add(f, "buf")
        self._log.append(("add_node", n, {"type": node_type}))
        self._attrs.setdefault(n, {}).update({"type": node_type, "output": False})
        return n

    def set_type(self, ns, t):
        for n in [ns] if isinstance(ns, str) else list(ns):
            self._log.append(("set_type", n, t))
            self._attrs[n]["type"] = t

    def set_output(self, ns, output=True):
        for n in [ns] if isinstance(ns, str) else list(ns):
            self._attrs[n]["output"] = output

    def edges(self):
        return {(u, v) for u, vs in self._fanout.items() for v in vs}

    def illegal(self):
        """List of violated wiring invariants (the C07 list)."""
        bad = []
        for n, a in self._attrs.items():
            t = a.get("type")
            fi = len(self._fanin.get(n, ()))
            fo = self._fanout.get(n, set())
            if t in NO_FANIN and fi:
                bad.append(f"fan-in on {t} {n}")
            if t in SINGLE_FANIN and fi > 1:
                bad.append(f">1 fan-in on {t} {n}")
            if t in NO_FANOUT and fo:
                bad.append(f"fan-out from {t} {n}")
            if t == "bb_output" and (len(fo) > 1 or any(self._attrs[v].get("type") != "buf" for v in fo)):
                bad.append(f"bb_output {n} load")
        return bad


# ---------------------------------------------------------------------------
# SAT-side models (PySAT's IDPool / CNF / Solver interfaces, frozen facts)
# ---------------------------------------------------------------------------
class MIDPool(Model):
    """pysat.formula.IDPool: id(obj) hands out 1,2,3.. per distinct hashable obj."""

    def __init__(self, start_from=1):
        self._ids = {}
        self._objs = {}
        self._next = start_from
        self._calls = []

    def id(self, obj=None):
        self._calls.append(obj)
        if obj is None:
            i = self._next
            self._next += 1
            return i
        try:
            hash(obj)
        except TypeError:
            raise ModelRaise("TypeError", "unhashable IDPool key")
        if obj not in self._ids:
            self._ids[obj] = self._next
            self._objs[self._next] = obj
            self._next += 1
        return self._ids[obj]

    def obj(self, i):
        return self._objs.get(i)

    @property
    def top(self):
        return self._next - 1


class MCNF(Model):
    def __init__(self, from_clauses=None):
        self.clauses = [list(c) for c in (from_clauses or [])]

    def append(self, clause):
        cl = list(clause)
        for l in cl:
            if not isinstance(l, int) or isinstance(l, bool) or l == 0:
                raise ModelRaise("TypeError", f"non-literal {l!r} in clause")
        self.clauses.append(cl)

    def extend(self, clauses):
        for c in clauses:
            self.append(c)

    @property
    def nv(self):
        return max([abs(l) for c in self.clauses for l in c] or [0])

    def copy(self):
        """pysat's CNF.copy(): a formula of its own with copies of the clauses."""
        return type(self)(from_clauses=self.clauses)

    def __iter__(self):
        return iter(self.clauses)

    def __len__(self):
        return len(self.clauses)


class MSolver(Model):
    """Scripted solver: `models` is the list of models successive solve() calls find."""

    def __init__(self, bootstrap_with=None, models=None, **kw):
        self.bootstrap = bootstrap_with
        self.kwargs = kw
        self._models = list(models or [])
        self._cur = None
        self.added = []

    def solve(self, assumptions=None):
        if self._models:
            self._cur = self._models.pop(0)
            return True
        self._cur = None
        return False

    def get_model(self):
        return list(self._cur) if self._cur is not None else None

    def add_clause(self, clause):
        self.added.append(list(clause))
