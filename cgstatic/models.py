"""Model objects for finite-domain evaluation of extracted guards (see minieval)."""
from .minieval import Model, ModelRaise

MISSING = "<missing>"


class MNodeView(Model):
    """c.graph.nodes"""

    def __init__(self, attrs, iter_only=None):
        self._attrs = attrs
        self._iter_only = iter_only

    def __getitem__(self, n):
        if n not in self._attrs:
            raise ModelRaise("KeyError", f"node {n}")
        return self._attrs[n]

    def __contains__(self, n):
        return n in self._attrs

    def __iter__(self):
        return iter(self._iter_only if self._iter_only is not None else list(self._attrs))

    def __len__(self):
        return len(self._attrs)


class MGraph(Model):
    def __init__(self, circuit):
        self._c = circuit
        self.nodes = MNodeView(circuit._attrs, circuit._iter_only)

    def __contains__(self, n):
        return n in self._c._attrs

    def __iter__(self):
        return iter(self.nodes)

    def predecessors(self, n):
        return iter(sorted(self._c._fanin.get(n, ())))

    def successors(self, n):
        return iter(sorted(self._c._fanout.get(n, ())))


class MBlackBox(Model):
    def __init__(self, name, inputs, outputs):
        self.name = name
        self._i = set(inputs)
        self._o = set(outputs)

    def inputs(self):
        return set(self._i)

    def outputs(self):
        return set(self._o)

    def io(self):
        return self._i | self._o


class MCircuit(Model):
    """Read-only model of a Circuit: attrs, fan-in/fan-out sets, registry."""

    def __init__(self, attrs, edges=(), blackboxes=None, iter_only=None, name="m"):
        self._attrs = attrs
        self._iter_only = iter_only
        self._fanin = {}
        self._fanout = {}
        for u, v in edges:
            self._fanout.setdefault(u, set()).add(v)
            self._fanin.setdefault(v, set()).add(u)
        self.blackboxes = dict(blackboxes or {})
        self.graph = MGraph(self)
        self.name = name

    def __contains__(self, n):
        return n in self._attrs

    def __iter__(self):
        return iter(self.graph.nodes)

    def __len__(self):
        return len(self._attrs)

    def nodes(self):
        return set(self.graph.nodes)

    def type(self, n):
        if isinstance(n, str):
            if n not in self._attrs:
                raise ModelRaise("KeyError", f"node {n} does not exist")
            if "type" not in self._attrs[n]:
                raise ModelRaise("KeyError", f"node {n} has no type")
            return self._attrs[n]["type"]
        return [self.type(x) for x in n]

    def _many(self, ns):
        return [ns] if isinstance(ns, str) else list(ns)

    def fanin(self, ns):
        out = set()
        for n in self._many(ns):
            if n not in self._attrs:
                raise ModelRaise("NetworkXError", f"node {n}")
            out |= self._fanin.get(n, set())
        return out

    def fanout(self, ns):
        out = set()
        for n in self._many(ns):
            if n not in self._attrs:
                raise ModelRaise("NetworkXError", f"node {n}")
            out |= self._fanout.get(n, set())
        return out

    def is_output(self, n):
        if n not in self._attrs:
            raise ModelRaise("KeyError", f"node {n}")
        return self._attrs[n].get("output", False)

    def filter_type(self, types):
        if isinstance(types, str):
            types = [types]
        return {n for n in self._attrs if self._attrs[n].get("type") in types}

    def inputs(self):
        return self.filter_type("input")

    def outputs(self):
        return {n for n in self._attrs if self._attrs[n].get("output", False)}
