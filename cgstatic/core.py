"""
Core of the static checker: program model (E1), obligation bookkeeping,
evidence / replay / known-findings protocol.

Nothing in this package imports or executes `circuitgraph`.  Every fact comes
from `ast.parse` of the files under <repo>/circuitgraph (plus the Lark grammar
file read as data, and regex literals parsed with `re._parser`).
"""
import ast
import hashlib
import json
import os
import sys
import time
from pathlib import Path

VERIF = Path(__file__).resolve().parent.parent
DEFAULT_REPO = Path(os.environ.get("CGSTATIC_REPO", "/repo"))

PKG_FILES = [
    "__init__.py",
    "circuit.py",
    "tx.py",
    "sat.py",
    "props.py",
    "io.py",
    "utils.py",
    "logic.py",
    "parsing/__init__.py",
    "parsing/verilog.py",
    "parsing/fast_verilog.py",
]
GRAMMAR_FILE = "parsing/verilog.lark"


class AnalysisError(Exception):
    """The analysis cannot be carried out (vanished anchor, unknown idiom)."""

    def __init__(self, msg, file=None, line=None):
        super().__init__(msg)
        self.msg = msg
        self.file = file
        self.line = line

    def __str__(self):
        loc = ""
        if self.file:
            loc = f"{self.file}:{self.line or '?'} "
        return f"{loc}{self.msg}"


def norm(node):
    """Normalised source text of an AST node (formatting independent)."""
    if node is None:
        return "None"
    if isinstance(node, str):
        return node
    if isinstance(node, list):
        return "; ".join(norm(n) for n in node)
    return ast.unparse(node)


class FuncInfo:
    __slots__ = ("file", "qual", "node", "cls", "parent")

    def __init__(self, file, qual, node, cls=None, parent=None):
        self.file = file
        self.qual = qual
        self.node = node
        self.cls = cls
        self.parent = parent

    @property
    def name(self):
        return self.node.name

    def __repr__(self):
        return f"<{self.file}::{self.qual}>"


class Repo:
    """E1: parsed package."""

    def __init__(self, root=None):
        self.root = Path(root) if root else DEFAULT_REPO
        self.pkg = self.root / "circuitgraph"
        if not self.pkg.is_dir():
            raise AnalysisError(f"package directory {self.pkg} not found")
        self.src = {}
        self.tree = {}
        self.funcs = {}  # (file, qual) -> FuncInfo
        self.classes = {}  # (file, name) -> ClassDef
        for rel in PKG_FILES:
            p = self.pkg / rel
            if not p.is_file():
                raise AnalysisError(f"package file vanished: circuitgraph/{rel}")
            text = p.read_text()
            try:
                tree = ast.parse(text, filename=str(p))
            except SyntaxError as e:
                raise AnalysisError(f"syntax error: {e}", rel, e.lineno)
            self.src[rel] = text
            self.tree[rel] = tree
            self._index(rel, tree)
        g = self.pkg / GRAMMAR_FILE
        if not g.is_file():
            raise AnalysisError(f"grammar file vanished: circuitgraph/{GRAMMAR_FILE}")
        self.grammar_text = g.read_text()
        # extra python files in the package that are not in the frozen list are
        # analysed too (a new module may hold a new writer)
        self.extra_files = []
        for p in sorted(self.pkg.rglob("*.py")):
            rel = p.relative_to(self.pkg).as_posix()
            if rel not in self.src:
                text = p.read_text()
                try:
                    tree = ast.parse(text, filename=str(p))
                except SyntaxError as e:
                    raise AnalysisError(f"syntax error: {e}", rel, e.lineno)
                self.src[rel] = text
                self.tree[rel] = tree
                self._index(rel, tree)
                self.extra_files.append(rel)
        self._inherit()

    # -- modules of the package, by the names the source uses for them ------
    def module_rel(self, modname, level=0, from_rel=None):
        """File of the package module `modname` names (absolute `circuitgraph.x.y`, or relative with `level` dots seen from
        `from_rel`); None when it is not a module of this package."""
        if level:
            base = (from_rel or "").split("/")[:-1]
            for _ in range(level - 1):
                if not base:
                    return None
                base = base[:-1]
            parts = base + (modname.split(".") if modname else [])
        elif modname == "circuitgraph":
            parts = []
        elif modname and modname.startswith("circuitgraph."):
            parts = modname.split(".")[1:]
        else:
            return None
        if parts and "/".join(parts) + ".py" in self.tree:
            return "/".join(parts) + ".py"
        cand = "/".join(parts + ["__init__.py"])
        return cand if cand in self.tree else None

    def imported_names(self, rel, module_level_only=False):
        """{local name: ('module', file) | ('name', file, original name)} for every import of a package module in `rel`."""
        if not hasattr(self, "_imported"):
            self._imported = {}
        key = (rel, module_level_only)
        if key in self._imported:
            return self._imported[key]
        out = {}

        def walk(nodes):
            for st in nodes:
                if isinstance(st, (ast.FunctionDef, ast.AsyncFunctionDef, ast.ClassDef, ast.Lambda)) and module_level_only:
                    continue
                if isinstance(st, ast.Import):
                    for al in st.names:
                        f = self.module_rel(al.name)
                        if f is None:
                            continue
                        if al.asname:
                            out[al.asname] = ("module", f)
                        else:
                            out["circuitgraph"] = ("module", "__init__.py")
                elif isinstance(st, ast.ImportFrom):
                    f = self.module_rel(st.module, st.level, rel)
                    if f is None:
                        continue
                    for al in st.names:
                        sub = None
                        if f.endswith("__init__.py"):
                            d = f[: -len("__init__.py")]
                            sub = d + al.name + ".py" if d + al.name + ".py" in self.tree else d + al.name + "/__init__.py" if d + al.name + "/__init__.py" in self.tree else None
                        out[al.asname or al.name] = ("module", sub) if sub else ("name", f, al.name)
                walk(ast.iter_child_nodes(st))

        walk(self.tree[rel].body)
        self._imported[key] = out
        return out

    def class_of_expr(self, rel, expr, depth=0):
        """(file, name) of the repository class a base-class expression names, or None."""
        if depth > 6:
            return None
        if isinstance(expr, ast.Name):
            if (rel, expr.id) in self.classes:
                return (rel, expr.id)
            imp = self.imported_names(rel).get(expr.id)
            if imp and imp[0] == "name":
                if (imp[1], imp[2]) in self.classes:
                    return (imp[1], imp[2])
                if imp[1] != rel:
                    return self.class_of_expr(imp[1], ast.Name(id=imp[2]), depth + 1)
            return None
        if isinstance(expr, ast.Attribute) and isinstance(expr.value, ast.Name):
            imp = self.imported_names(rel).get(expr.value.id)
            if imp and imp[0] == "module":
                return self.class_of_expr(imp[1], ast.Name(id=expr.attr), depth + 1)
        return None

    def _inherit(self):
        """Methods a class of the package inherits from other classes of the package (mixins, possibly in other modules) are
        reachable under the inheriting class's own name too: `(file, 'C.m')` -> the FuncInfo of the defining class."""
        self.class_mro = {}
        self.inherited = {}

        def mro(key, stack=()):
            if key in self.class_mro:
                return self.class_mro[key]
            if key in stack:
                return [key]
            bases = [b for b in (self.class_of_expr(key[0], e) for e in self.classes[key].bases) if b is not None]
            seqs = [list(mro(b, stack + (key,))) for b in bases] + [list(bases)]
            out = [key]
            while any(seqs):
                for s in seqs:
                    if s and not any(s[0] in t[1:] for t in seqs):
                        head = s[0]
                        break
                else:
                    head = next(s[0] for s in seqs if s)  # inconsistent hierarchy: CPython refuses it at import; keep going
                out.append(head)
                seqs = [[x for x in s if x != head] for s in seqs]
            self.class_mro[key] = out
            return out

        for key in list(self.classes):
            for b in mro(key)[1:]:
                for (f, q), fi in list(self.funcs.items()):
                    if f != b[0] or not q.startswith(b[1] + "."):
                        continue
                    alias = (key[0], key[1] + q[len(b[1]):])
                    if alias not in self.funcs:
                        self.funcs[alias] = fi
                        self.inherited[alias] = (fi.file, fi.qual)  # the defining function itself (the base may have inherited it in turn)

    def _index(self, rel, tree):
        def visit(node, prefix, cls, parent):
            for ch in ast.iter_child_nodes(node):
                if isinstance(ch, (ast.FunctionDef, ast.AsyncFunctionDef)):
                    qual = f"{prefix}{ch.name}"
                    for d in ch.decorator_list:
                        # `@name.setter def name(self, value)`: indexed beside the property's getter, not over it
                        if isinstance(d, ast.Attribute) and d.attr in ("setter", "deleter") and isinstance(d.value, ast.Name) and d.value.id == ch.name:
                            qual = f"{prefix}{ch.name}.{d.attr}"
                    fi = FuncInfo(rel, qual, ch, cls, parent)
                    self.funcs[(rel, qual)] = fi
                    visit(ch, qual + ".", cls, fi)
                elif isinstance(ch, ast.ClassDef):
                    self.classes[(rel, ch.name)] = ch
                    visit(ch, f"{prefix}{ch.name}.", ch.name, parent)
                else:
                    visit(ch, prefix, cls, parent)

        visit(tree, "", None, None)

    # -- anchors ---------------------------------------------------------
    def func(self, rel, qual):
        fi = self.funcs.get((rel, qual))
        if fi is None:
            raise AnalysisError(f"anchor vanished: function {qual}", rel, None)
        return fi

    def has_func(self, rel, qual):
        return (rel, qual) in self.funcs

    def func_of_name(self, rel, name, depth=0):
        """FuncInfo of the module-level function `name` denotes in module `rel`, following `from x import name [as alias]` re-exports
        through other modules of the package; None when it is not a function of the package."""
        if depth > 5 or rel is None:
            return None
        fi = self.funcs.get((rel, name))
        if fi is not None:
            return fi
        imp = self.imported_names(rel, module_level_only=True).get(name)
        if imp and imp[0] == "name":
            return self.func_of_name(imp[1], imp[2], depth + 1)
        return None

    def func_of_callee(self, rel, func):
        """FuncInfo of the package function a call's `func` expression names from inside module `rel` (`helper`, `_mod.helper`,
        `_pkg.helper` re-exported by the sub-package's `__init__`), or None."""
        if isinstance(func, ast.Name):
            return self.func_of_name(rel, func.id)
        if isinstance(func, ast.Attribute) and isinstance(func.value, ast.Name):
            imp = self.imported_names(rel).get(func.value.id)
            if imp and imp[0] == "module":
                return self.func_of_name(imp[1], func.attr)
        return None

    def cls(self, rel, name):
        c = self.classes.get((rel, name))
        if c is None:
            raise AnalysisError(f"anchor vanished: class {name}", rel, None)
        return c

    def module_assign(self, rel, name):
        """Return the value node of a module-level `name = ...`."""
        for st in self.tree[rel].body:
            if isinstance(st, ast.Assign):
                for t in st.targets:
                    if isinstance(t, ast.Name) and t.id == name:
                        return st.value
        raise AnalysisError(f"anchor vanished: module constant {name}", rel, None)

    def public_functions(self, rel):
        out = []
        for (f, q), fi in self.funcs.items():
            if f == rel and "." not in q and not q.startswith("_"):
                out.append(fi)
        return out

    def methods(self, rel, cls):
        out = []
        for (f, q), fi in self.funcs.items():
            if f == rel and q.startswith(cls + ".") and q.count(".") == 1:
                out.append(fi)
        return out

    def digest(self):
        h = hashlib.sha256()
        for rel in sorted(self.src):
            h.update(rel.encode())
            h.update(self.src[rel].encode())
        h.update(self.grammar_text.encode())
        return h.hexdigest()[:16]


# ---------------------------------------------------------------------------
# Module-level constant evaluation (string / list-of-string constants)
# ---------------------------------------------------------------------------
class ConstEnv:
    """Evaluate list/str constant expressions built from literals and names."""

    def __init__(self, repo, rel, local=None):
        self.repo = repo
        self.rel = rel
        self.local = local if local is not None else {}
        self._mod = None

    def module_consts(self):
        if self._mod is None:
            self._mod = {}
            for st in self.repo.tree[self.rel].body:
                if isinstance(st, ast.Assign) and len(st.targets) == 1:
                    t = st.targets[0]
                    if isinstance(t, ast.Name):
                        try:
                            self._mod[t.id] = self.eval(st.value, _modonly=True)
                        except ValueError:
                            pass
                elif isinstance(st, ast.ImportFrom) and (st.level or (st.module or "").startswith("circuitgraph")):
                    # from circuitgraph.circuit import supported_types / from ._tables import _GATES
                    target = self.repo.module_rel(st.module, st.level, self.rel)
                    for al in st.names:
                        v = resolve_pkg_const(self.repo, al.name)
                        if v is None and target and target != self.rel and not target.endswith("__init__.py"):
                            v = module_const(self.repo, target, al.name)
                        if v is not None:
                            self._mod[al.asname or al.name] = v
        return self._mod

    def eval(self, node, _modonly=False):
        if isinstance(node, ast.Constant):
            if isinstance(node.value, (str, int, bool)) or node.value is None:
                return node.value
            raise ValueError("const")
        if isinstance(node, (ast.List, ast.Tuple, ast.Set)):
            out = []
            for e in node.elts:
                if isinstance(e, ast.Starred):
                    out.extend(self.eval(e.value, _modonly))
                else:
                    out.append(self.eval(e, _modonly))
            return out
        if isinstance(node, ast.BinOp) and isinstance(node.op, ast.Add):
            a = self.eval(node.left, _modonly)
            b = self.eval(node.right, _modonly)
            if isinstance(a, list) and isinstance(b, list):
                return a + b
            if isinstance(a, str) and isinstance(b, str):
                return a + b
            raise ValueError("add")
        if isinstance(node, ast.Name):
            if node.id in self.local:
                return self.local[node.id]
            if not _modonly or self._mod is not None:
                m = self.module_consts()
                if node.id in m:
                    return m[node.id]
            elif _modonly and self._mod is None:
                pass
            # allow forward use while building module table
            if self._mod is not None and node.id in self._mod:
                return self._mod[node.id]
            raise ValueError(f"name {node.id}")
        if isinstance(node, ast.Attribute):
            # cg.supported_types / circuitgraph.circuit.supported_types
            v = resolve_pkg_const(self.repo, node.attr)
            if v is not None:
                return v
            raise ValueError("attr")
        if isinstance(node, ast.Call) and isinstance(node.func, ast.Name) and node.func.id in ("list", "tuple", "set", "frozenset", "sorted") and len(node.args) == 1 and not node.keywords:
            v = self.eval(node.args[0], _modonly)
            if isinstance(v, list):
                return v
            raise ValueError("call")
        raise ValueError(f"not constant: {norm(node)}")


_PKG_CONST_CACHE = {}
_MODULE_CONST_BUSY = set()


def module_const(repo, rel, name):
    """Value of the module-level constant `name` of the package file `rel` (following imports from other files of the package);
    None when it is not a constant the ConstEnv can read."""
    key = (id(repo), rel, name)
    if key in _PKG_CONST_CACHE:
        return _PKG_CONST_CACHE[key]
    if (id(repo), rel) in _MODULE_CONST_BUSY or rel not in repo.tree:
        return None
    _MODULE_CONST_BUSY.add((id(repo), rel))
    try:
        val = ConstEnv(repo, rel).module_consts().get(name)
    finally:
        _MODULE_CONST_BUSY.discard((id(repo), rel))
    _PKG_CONST_CACHE[key] = val
    return val


def resolve_pkg_const(repo, name):
    """Value of circuit.py's primitive_gates/addable_types/supported_types."""
    key = (id(repo), name)
    if key in _PKG_CONST_CACHE:
        return _PKG_CONST_CACHE[key]
    val = None
    if name in ("primitive_gates", "addable_types", "supported_types"):
        env = {}
        for st in repo.tree["circuit.py"].body:
            if isinstance(st, ast.Assign) and len(st.targets) == 1 and isinstance(st.targets[0], ast.Name):
                ce = ConstEnv(repo, "circuit.py", env)
                ce._mod = env
                try:
                    env[st.targets[0].id] = ce.eval(st.value)
                except ValueError:
                    pass
        val = env.get(name)
        if val is None:
            # the vocabulary may live in a module of its own that circuit.py imports it from
            imp = repo.imported_names("circuit.py", module_level_only=True).get(name)
            if imp and imp[0] == "name" and imp[1] != "circuit.py" and not imp[1].endswith("__init__.py"):
                val = module_const(repo, imp[1], imp[2])
        if val is not None and not (isinstance(val, list) and all(isinstance(x, str) for x in val)):
            val = None
    _PKG_CONST_CACHE[key] = val
    return val


def type_vocabulary(repo):
    out = {}
    for n in ("primitive_gates", "addable_types", "supported_types"):
        v = resolve_pkg_const(repo, n)
        if v is None:
            raise AnalysisError(f"anchor vanished or not a literal list: {n}", "circuit.py")
        out[n] = list(v)
    return out


# ---------------------------------------------------------------------------
# Obligations, findings, evidence
# ---------------------------------------------------------------------------
class Check:
    def __init__(self, pid, repo, tier="quick", seed=0):
        self.pid = pid
        self.repo = repo
        self.tier = tier
        self.seed = seed
        self.t0 = time.time()
        self.obs = []
        self.notes = []
        self.floors = []
        self.files = set()
        self.functions = set()
        self.assumptions = []
        self.explanation = ""
        self.extra = {}

    # obligation ---------------------------------------------------------
    def ob(self, rule, key, ok, *, file=None, func=None, line=None, fact=None, expect=None, nontrivial=True):
        """Record one obligation. `key` identifies the construct (no line no.)."""
        rec = {
            "rule": rule,
            "key": key,
            "ok": bool(ok),
            "file": file,
            "function": func,
            "line": line,
            "fact": fact,
            "expect": expect,
            "nontrivial": bool(nontrivial),
        }
        self.obs.append(rec)
        if file:
            self.files.add(file)
        if func:
            self.functions.add(f"{file}::{func}")
        return bool(ok)

    def floor(self, what, n, floor):
        self.floors.append({"what": what, "count": n, "floor": floor})
        if n < floor:
            raise AnalysisError(
                f"vacuity guard: {what}: matched {n} instance(s), fewer than the {floor} confirmed by hand"
            )

    def note(self, s):
        self.notes.append(s)

    def assume(self, s):
        if s not in self.assumptions:
            self.assumptions.append(s)


def load_known(path=None):
    p = Path(path) if path else VERIF / "known_findings.json"
    if not p.is_file():
        return []
    return json.loads(p.read_text())


def finish(chk, replay_filter=None, out=sys.stdout, write_evidence=True, evidence_dir=None):
    """Print report, write evidence, return exit code."""
    pid = chk.pid
    known = [k for k in load_known() if k.get("property") == pid]
    known_active = {(k["rule"], k["key"]): k for k in known if k.get("status") == "known"}
    failed = [o for o in chk.obs if not o["ok"]]
    viol, kf = [], []
    seen = set()
    for o in failed:
        ident = (o["rule"], o["key"])
        if ident in seen:
            continue
        seen.add(ident)
        if ident in known_active:
            kf.append((o, known_active[ident]))
        else:
            viol.append(o)
    if replay_filter:
        viol = [o for o in viol if (o["rule"], o["key"]) == replay_filter]

    w = out.write
    n_ob = len(chk.obs)
    n_ok = sum(1 for o in chk.obs if o["ok"])
    rules = sorted({o["rule"] for o in chk.obs})
    w(f"[{pid}] tier={chk.tier} repo={chk.repo.root} digest={chk.repo.digest()}\n")
    w(f"[{pid}] analysed: {len(chk.files)} file(s), {len(chk.functions)} function(s), {n_ob} obligation(s) under {len(rules)} rule(s); discharged {n_ok}\n")
    for r in rules:
        tot = sum(1 for o in chk.obs if o["rule"] == r)
        okc = sum(1 for o in chk.obs if o["rule"] == r and o["ok"])
        w(f"[{pid}]   rule {r}: {okc}/{tot}\n")
    for f in chk.floors:
        w(f"[{pid}]   floor {f['what']}: {f['count']} >= {f['floor']}\n")
    for nt in chk.notes:
        w(f"[{pid}]   note: {nt}\n")
    for o, k in kf:
        w(f"KNOWN-FINDING: property={pid} {k.get('what', o['key'])} [{o['rule']} @ {o['file']}::{o['function']}]\n")
    stale = [k for ident, k in known_active.items() if ident not in {(o['rule'], o['key']) for o in failed}]
    for k in stale:
        w(f"[{pid}]   note: known finding no longer reproduces (stale entry): {k['rule']} {k['key']}\n")

    ev_dir = Path(evidence_dir) if evidence_dir else VERIF / "evidence"
    replay_dir = ev_dir / "replay"
    replays = []
    if viol:
        replay_dir.mkdir(parents=True, exist_ok=True)
    for i, o in enumerate(viol):
        safe_rule = "".join(ch if ch.isalnum() or ch in "-_." else "_" for ch in o["rule"])
        rp = replay_dir / f"{pid}-{safe_rule}-{i}.json"
        rp.write_text(json.dumps({"property": pid, **o, "repo": str(chk.repo.root)}, indent=1, default=str))
        replays.append(rp)
        loc = f"{o['file']}:{o['line']}" if o.get("file") else "?"
        w(f"[{pid}] violated {o['rule']} at circuitgraph/{loc} in {o['function']}: {o['key']}\n")
        if o.get("fact") is not None:
            w(f"[{pid}]     found : {json.dumps(o['fact'], default=str)[:600]}\n")
        if o.get("expect") is not None:
            w(f"[{pid}]     expect: {json.dumps(o['expect'], default=str)[:600]}\n")
        w(f"VIOLATION property={pid} replay={rp}\n")

    if write_evidence:
        ev_dir.mkdir(parents=True, exist_ok=True)
        nontriv = {(o["rule"], o["key"]) for o in chk.obs if o["nontrivial"]}
        samples = []
        per_rule = {}
        for o in chk.obs:
            per_rule.setdefault(o["rule"], []).append(o)
        for r, lst in sorted(per_rule.items()):
            for o in lst[:3]:
                samples.append({k: o[k] for k in ("rule", "key", "file", "function", "line", "fact", "ok")})
        ev = {
            "property_id": pid,
            "tier": chk.tier,
            "seed": int(chk.seed),
            "level": "other",
            "coverage": {
                "explanation": chk.explanation,
                "evaluations": n_ob,
                "distinct_nontrivial": len(nontriv),
                "rule": "one obligation per (rule, construct instance[, table row]) extracted from the syntax tree of /repo's current working tree; non-trivial = the instance constrains something (non-empty literal set / template with >=1 gate / function with >=1 tracked parameter); distinct = distinct (rule, construct key)",
                "obligations": n_ob,
                "discharged": n_ok,
                "samples": samples,
                "rules": {r: {"obligations": len(l), "discharged": sum(1 for o in l if o["ok"])} for r, l in sorted(per_rule.items())},
                "floors": chk.floors,
                "files": sorted(chk.files),
                "functions": sorted(chk.functions),
                "known_findings_reproduced": [k.get("what") for _, k in kf],
                "repo_digest": chk.repo.digest(),
                "exhaustive": True,
                **chk.extra,
            },
            "assumptions": chk.assumptions,
            "wall_s": round(time.time() - chk.t0, 3),
            "violations": len(viol),
        }
        (ev_dir / f"{pid}.json").write_text(json.dumps(ev, indent=1, default=str) + "\n")
    return 1 if viol else 0
