"""
Environments for evaluating repository function bodies over the reference model
(refmodel.py).  `ModuleEnv(repo, "tx.py")` maps every top-level function of that
file to a closure interpreted by minieval (so calls between repository functions
are evaluated from the repository's source too), and the names the module
imports (`cg`, `nx`, `Circuit`, ...) to model objects.
"""
import ast
import functools
import itertools
import re as _re

from .astutil import body_without_doc
from .core import AnalysisError, type_vocabulary
from .minieval import BlockInterp, Model, ModelRaise, Unsupported
from .refmodel import MDiGraph, MNx, RefBlackBox, RefCircuit


class NS(Model):
    def __init__(self, **kw):
        for k, v in kw.items():
            setattr(self, k, v)


_PURE_DECORATORS = {"functools", "lru_cache", "cache", "wraps", "contextmanager", "contextlib", "singledispatch", "overload", "typing", "staticmethod", "classmethod", "property",
                    "dataclass", "dataclasses", "total_ordering", "final", "runtime_checkable", "unique", "enum", "abstractmethod", "abc", "cached_property"}


def _registers_at_import(tree):
    """Does running this module's body do something beyond binding its own names?  (a class / function decorated by something
    other than the usual pure decorators, a call statement at module level)"""
    def root(d):
        d = d.func if isinstance(d, ast.Call) else d
        while isinstance(d, ast.Attribute):
            d = d.value
        return d.id if isinstance(d, ast.Name) else None

    for st in tree.body:
        if isinstance(st, (ast.ClassDef, ast.FunctionDef)) and any(root(d) not in _PURE_DECORATORS for d in st.decorator_list):
            return True
        if isinstance(st, ast.Expr) and isinstance(st.value, ast.Call):
            return True
    return False


class LazyNS(Model):
    """Namespace whose attributes are resolved on first use."""

    _allow_private = True  # a module's private helpers are reachable through the module like any other name

    def __init__(self, getter):
        object.__setattr__(self, "_getter", getter)
        object.__setattr__(self, "_cache", {})

    def __getattr__(self, name):
        if name.startswith("__") or name.startswith("_cg_") or name.startswith("_uc_") or name.startswith("_ri_"):
            raise AttributeError(name)
        c = object.__getattribute__(self, "_cache")
        if name not in c:
            v = object.__getattribute__(self, "_getter")(name)
            if v is _MISSING:
                raise AttributeError(name)
            c[name] = v
        return c[name]


_MISSING = object()


class MQueue(Model):
    def __init__(self):
        self._q = []

    def put(self, x):
        self._q.append(x)

    def get(self):
        return self._q.pop(0)

    def empty(self):
        return not self._q


m_deque = __import__("collections").deque  # pure data: CPython's own class (maxlen, rotate, appendleft ...)


m_counter = __import__("collections").Counter  # pure data: CPython's own class (a missing key counts 0, subtract / most_common / elements / total)


def m_defaultdict(factory=None, *args, **kwargs):
    class DD(dict):
        def __missing__(self, k):
            if factory is None:
                raise ModelRaise("KeyError", repr(k))
            v = factory()
            self[k] = v
            return v

    return DD(*args, **kwargs)


_STDLIB = None


def stdlib_table():
    global _STDLIB
    if _STDLIB is None:
        import collections
        import collections.abc
        import operator

        _STDLIB = {
            "itertools": {n: getattr(itertools, n) for n in ("count", "repeat", "cycle", "starmap", "accumulate", "groupby", "islice", "product", "permutations", "combinations",
                                                             "combinations_with_replacement", "zip_longest", "takewhile", "dropwhile", "tee", "compress", "filterfalse")},
            "functools": {"reduce": functools.reduce, "partial": functools.partial, "lru_cache": m_lru_cache, "cache": m_lru_cache, "wraps": m_wraps, "cached_property": (lambda f: f),
                          "total_ordering": (lambda c: c), "singledispatch": m_singledispatch, "partialmethod": m_partialmethod},
            "contextlib": {"contextmanager": m_contextmanager, "suppress": MSuppress, "nullcontext": (lambda x=None: MContextManager(iter([x]))), "ExitStack": MExitStack, "closing": (lambda x: MContextManager(iter([x])))},
            "textwrap": {"dedent": __import__("textwrap").dedent, "indent": __import__("textwrap").indent},
            "types": {"MappingProxyType": (lambda d: dict(d)), "SimpleNamespace": NS},
            "enum": {"auto": (lambda: __import__("cgstatic.userclass", fromlist=["x"]).AUTO), "Enum": __import__("cgstatic.userclass", fromlist=["x"]).EnumBase("Enum"), "StrEnum": __import__("cgstatic.userclass", fromlist=["x"]).EnumBase("StrEnum"), "IntEnum": __import__("cgstatic.userclass", fromlist=["x"]).EnumBase("IntEnum"), "unique": (lambda c: c)},
            "collections": {"defaultdict": m_defaultdict, "deque": m_deque, "Counter": m_counter, "OrderedDict": __import__("collections").OrderedDict, "namedtuple": __import__("cgstatic.userclass", fromlist=["x"]).namedtuple_factory,
                            "ChainMap": (lambda *maps: {k: v for m_ in reversed(maps) for k, v in m_.items()})},
            "typing": {n: object for n in ("Any", "Optional", "Iterable", "Iterator", "Sequence", "Mapping", "Dict", "List", "Set", "Tuple", "Callable", "Union", "FrozenSet", "Generator", "Hashable", "ClassVar", "Final")},
            "dataclasses": {"field": __import__("cgstatic.userclass", fromlist=["x"]).dataclass_field, "dataclass": (lambda *a, **k: (a[0] if a else (lambda c: c))), "replace": m_dataclass_replace, "InitVar": object, "KW_ONLY": object,
                            "astuple": (lambda o: o._uc_tuple()), "asdict": (lambda o: {f[0]: getattr(o, f[0]) for f in o._uc_class._uc_fields})},
            "operator": {n: getattr(operator, n) for n in ("itemgetter", "attrgetter", "methodcaller", "or_", "and_", "xor", "not_", "add", "sub", "mul", "eq", "ne", "lt", "le", "gt", "ge", "contains", "getitem", "truth", "is_", "is_not", "neg",
                                                                    "ior", "iand", "ixor", "iadd", "isub", "imul", "concat", "iconcat", "floordiv", "mod", "truediv", "pow", "lshift", "rshift", "inv", "invert", "index",
                                                                    "countOf", "indexOf", "setitem", "delitem", "abs", "pos")},
            "queue": {"Queue": MQueue},
            "inspect": {"signature": m_signature, "Parameter": __import__("inspect").Parameter, "Signature": __import__("inspect").Signature,
                        "isgenerator": (lambda x: type(x).__name__ == "LazyGen"), "isclass": (lambda x: isinstance(x, type) or type(x).__name__ in ("UserClass", "EnumClass", "RepoClassRef")),
                        "isfunction": (lambda x: hasattr(x, "_cg_fdef"))},
            "io": {"StringIO": MStringIO},
            "weakref": {"WeakKeyDictionary": dict, "WeakValueDictionary": dict, "WeakSet": set},
            "copy": {"copy": __import__("copy").copy, "deepcopy": __import__("copy").deepcopy},
            "math": {n: getattr(__import__("math"), n) for n in ("ceil", "floor", "log2", "log", "log10", "sqrt", "isqrt", "inf", "prod", "gcd", "lcm", "comb", "perm", "factorial", "fsum", "isclose",
                                                                 "pow", "exp", "fabs", "trunc", "copysign", "isfinite", "isinf", "isnan", "nan", "pi", "e")},
            "string": {n: getattr(__import__("string"), n) for n in ("Template", "ascii_letters", "ascii_lowercase", "ascii_uppercase", "digits", "hexdigits", "punctuation", "whitespace", "capwords")},
            "collections.abc": {n: getattr(collections.abc, n) for n in ("Callable", "Hashable", "Iterator", "Iterable", "Mapping", "MutableMapping", "Sequence", "MutableSequence", "Set", "MutableSet",
                                                                            "Collection", "Container", "Sized", "Generator", "Reversible", "KeysView", "ValuesView", "ItemsView")},
        }
        for n in ("TypeAlias", "TypeVar", "Generic", "Protocol", "Literal", "Self", "NamedTuple", "TypedDict", "Type", "NoReturn", "Never", "Annotated", "Collection", "MutableMapping", "AbstractSet", "Deque", "DefaultDict"):
            _STDLIB["typing"].setdefault(n, object)
        _STDLIB["typing"]["cast"] = lambda t, v: v
        _STDLIB["typing"]["TYPE_CHECKING"] = False
        _STDLIB["itertools"]["chain"] = MChain()
        _STDLIB["itertools"]["pairwise"] = itertools.pairwise
        _STDLIB["itertools"]["batched"] = _batched
    return _STDLIB


def m_wraps(f):
    """functools.wraps: the wrapper keeps its own behaviour and takes over the wrapped function's name / documentation; it
    remembers it as `__wrapped__` (which `inspect.signature` follows)."""
    def deco(g):
        try:
            g.__wrapped__ = f
            for a in ("__name__", "__qualname__", "__doc__"):
                if hasattr(f, a):
                    setattr(g, a, getattr(f, a))
            if hasattr(f, "_cg_fdef") and not hasattr(g, "__doc__"):
                g.__doc__ = ast.get_docstring(f._cg_fdef)
        except (AttributeError, TypeError):
            pass
        return g

    return deco


class MBoundArguments(Model):
    _allow_private = True

    def __init__(self, sig, real):
        self.signature = sig
        self._real = real
        self.arguments = real.arguments

    @property
    def args(self):
        return self._real.args

    @property
    def kwargs(self):
        return self._real.kwargs

    def apply_defaults(self):
        self._real.apply_defaults()
        self.arguments = self._real.arguments


class MSignature(Model):
    """inspect.Signature of a function evaluated from source (parameters read from its definition, default values evaluated in
    its defining scope); binding follows CPython's own rules."""

    _allow_private = True

    def __init__(self, real):
        self._real = real
        self.parameters = dict(real.parameters)
        self.return_annotation = real.return_annotation

    def _bind(self, how, a, k):
        try:
            return MBoundArguments(self, getattr(self._real, how)(*a, **k))
        except TypeError as e:
            raise ModelRaise("TypeError", str(e))

    def bind(self, *a, **k):
        return self._bind("bind", a, k)

    def bind_partial(self, *a, **k):
        return self._bind("bind_partial", a, k)


def m_signature(fn, **_kw):
    import inspect as _inspect

    seen = 0
    while hasattr(fn, "__wrapped__") and seen < 20:
        fn = fn.__wrapped__
        seen += 1
    skip_first = False
    if not hasattr(fn, "_cg_fdef") and hasattr(fn, "clo") and hasattr(getattr(fn, "clo"), "_cg_fdef"):
        fn, skip_first = fn.clo, True  # a bound method of an evaluated class
    if not hasattr(fn, "_cg_fdef"):
        raise Unsupported(f"inspect.signature of {type(fn).__name__}")
    fdef, interp = fn._cg_fdef, getattr(fn, "_cg_interp", None)
    a = fdef.args
    P = _inspect.Parameter

    def dv(d):
        if d is None:
            return P.empty
        if interp is None:
            raise Unsupported("default value of a function without a defining scope")
        return interp.me.ev(d)

    pos = a.posonlyargs + a.args
    defaults = [None] * (len(pos) - len(a.defaults)) + list(a.defaults)
    ps = []
    for i, (x, d) in enumerate(zip(pos, defaults)):
        ps.append(P(x.arg, P.POSITIONAL_ONLY if i < len(a.posonlyargs) else P.POSITIONAL_OR_KEYWORD, default=dv(d)))
    if a.vararg is not None:
        ps.append(P(a.vararg.arg, P.VAR_POSITIONAL))
    for x, d in zip(a.kwonlyargs, a.kw_defaults):
        ps.append(P(x.arg, P.KEYWORD_ONLY, default=dv(d)))
    if a.kwarg is not None:
        ps.append(P(a.kwarg.arg, P.VAR_KEYWORD))
    if skip_first and ps:
        ps = ps[1:]
    return MSignature(_inspect.Signature(ps))


def m_partialmethod(func, *bound, **bound_kw):
    """functools.partialmethod in a class body: a method of the instances that calls `func(self, *bound, *args, **bound_kw, **kw)`."""
    from .userclass import _Method

    if isinstance(func, MethodOfClassUnderDecoration):
        return InstalledPartialMethod(func.name, bound, bound_kw)
    inner = func.clo if isinstance(func, _Method) else func
    if not callable(inner):
        raise Unsupported("functools.partialmethod over a value that is not a function of the evaluated code")

    def call(self_, *a, **k):
        return inner(self_, *bound, *a, **{**bound_kw, **k})

    call.__name__ = getattr(inner, "__name__", "partialmethod")
    return _Method("plain", call)


def bind_stdlib_imports(tree, env):
    """`from itertools import count`, `import itertools as it`, ... -> pure functions / small models."""
    tab = stdlib_table()
    for st in ast.walk(tree):
        if isinstance(st, ast.ImportFrom) and st.module in tab:
            for al in st.names:
                if al.name in tab[st.module]:
                    env.setdefault(al.asname or al.name, tab[st.module][al.name])
        elif isinstance(st, ast.Import):
            for al in st.names:
                if al.name in tab:
                    nm = al.asname or al.name
                    cur = env.get(nm)
                    if cur is None or type(cur).__name__ in ("MFunctools", "MItertools", "MMath"):
                        # the module as the table knows it (the thin default models only carry what un-imported code may name)
                        thin = {k: getattr(cur, k) for k in dir(type(cur)) if not k.startswith("_")} if cur is not None else {}
                        env[nm] = NS(**{**thin, **tab[al.name]})


def bind_module_constants(tree, env):
    """Evaluate module-level `NAME = <expr>` statements whose value is computable from literals, earlier
    constants and the model classes already in env (lookup tables, literal lists, BlackBox definitions)."""
    from .minieval import MiniEval

    done = env.setdefault("__module_statements_done__", set())
    for st in tree.body:
        if (isinstance(st, ast.Expr) and isinstance(st.value, ast.Call) and isinstance(st.value.func, ast.Attribute) and isinstance(st.value.func.value, ast.Name)
                and st.value.func.attr in ("update", "append", "extend", "add", "setdefault", "insert", "discard", "remove", "pop", "clear", "sort", "reverse")) \
                or (isinstance(st, ast.AugAssign) and isinstance(st.target, ast.Name)) \
                or (isinstance(st, ast.Assign) and len(st.targets) == 1 and isinstance(st.targets[0], ast.Attribute) and isinstance(st.targets[0].value, ast.Name)):
            # a module-level statement that completes a table after it was created (`_ALONE.update(...)`, `TYPES += [...]`), or gives a
            # class of the module an attribute once the class exists (`Encoder._TABLE = {...}`): run once, in source order, as soon as
            # the table / class exists
            tname = st.value.func.value.id if isinstance(st, ast.Expr) else st.target.id if isinstance(st, ast.AugAssign) else st.targets[0].value.id
            if id(st) in done or tname not in env:
                continue
            try:
                from .minieval import BlockInterp

                bi_ = BlockInterp(env, max_steps=20000)
                bi_.me.env = env
                bi_.stmt(st)
                done.add(id(st))
            except (Unsupported, ModelRaise, Exception):
                pass
            continue
        if isinstance(st, ast.AnnAssign) and st.value is not None and isinstance(st.target, ast.Name):
            name, value = st.target.id, st.value
        elif isinstance(st, ast.Assign) and len(st.targets) == 1 and isinstance(st.targets[0], ast.Name):
            name, value = st.targets[0].id, st.value
        elif isinstance(st, ast.Assign) and all(isinstance(t, (ast.Name, ast.Tuple, ast.List)) and all(isinstance(e, ast.Name) for e in getattr(t, "elts", ())) for t in st.targets):
            # `A, B, C = 1, 2, 4` and `a = b = <expr>` at module level
            names = [e.id for t in st.targets for e in (t.elts if isinstance(t, (ast.Tuple, ast.List)) else [t])]
            if all(nm in env for nm in names):
                continue
            me = MiniEval(env)
            try:
                v = me.ev(st.value)
                for t in st.targets:
                    if isinstance(t, ast.Name):
                        env.setdefault(t.id, v)
                    else:
                        vals = list(v)
                        if len(vals) == len(t.elts):
                            for e, x in zip(t.elts, vals):
                                env.setdefault(e.id, x)
            except (Unsupported, ModelRaise, Exception):
                pass
            continue
        else:
            continue
        if name in env:
            continue
        me = MiniEval(env)
        try:
            env[name] = me.ev(value)
        except (Unsupported, ModelRaise, Exception):
            continue


def m_lru_cache(*dargs, maxsize=128, typed=False):
    """functools.lru_cache / cache with their real effect: results are remembered per argument tuple (a memo that an edit of a
    mutable argument, or of the world behind it, does not invalidate is exactly what some rules look for)."""
    def decorate(f):
        memo = {}

        def wrapper(*a, **k):
            try:
                key = (a, tuple(sorted(k.items())))
                hash(key)
            except TypeError as e:
                raise ModelRaise("TypeError", f"unhashable argument to a cached function: {e}")
            if key not in memo:
                memo[key] = f(*a, **k)
            return memo[key]

        wrapper.cache_clear = memo.clear
        wrapper.cache_info = lambda: (0, 0, maxsize, len(memo))
        wrapper.__wrapped__ = f
        return wrapper

    if len(dargs) == 1 and callable(dargs[0]):
        return decorate(dargs[0])
    return decorate


class MContextManager(Model):
    """What @contextlib.contextmanager makes of a generator function: enter = run to the yield, exit = run the rest."""

    def __init__(self, gen):
        self._gen = gen

    def __enter__(self):
        try:
            return next(self._gen)
        except StopIteration:
            raise ModelRaise("RuntimeError", "generator didn't yield")

    def __exit__(self, kind, exc, tb):
        if exc is None:
            try:
                next(self._gen)
            except StopIteration:
                return False
            raise ModelRaise("RuntimeError", "generator didn't stop")
        # an exception in the with-body is raised inside the generator at its `yield`: its handlers and `finally` run; it may
        # swallow the exception (the generator ends normally), re-raise it, or raise another one
        throw = getattr(self._gen, "throw", None)
        if throw is None:
            close = getattr(self._gen, "close", None)
            if close:
                close()
            return False
        try:
            throw(exc)
        except StopIteration:
            return True
        except ModelRaise as e:
            if e is exc:
                return False
            raise
        raise ModelRaise("RuntimeError", "generator didn't stop after throw()")


def m_contextmanager(f):
    def make(*a, **k):
        return MContextManager(f(*a, **k))
    return make


class MSuppress(Model):
    def __init__(self, *excs):
        self._names = [getattr(e, "__name__", str(e)) for e in excs]

    def __enter__(self):
        return None

    def __exit__(self, kind, exc, tb):
        from .minieval import exception_matches

        return exc is not None and any(exception_matches(kind, n) for n in self._names)


class MExitStack(Model):
    """contextlib.ExitStack: exit callbacks run last-in first-out when the `with` block ends; an exit-style callback (push) sees
    the exception and may suppress it."""

    def __init__(self):
        self._cbs = []

    def __enter__(self):
        return self

    def push(self, exit_cb):
        if hasattr(exit_cb, "__exit__"):
            self._cbs.append(("exit", exit_cb.__exit__))
        else:
            self._cbs.append(("exit", exit_cb))
        return exit_cb

    def callback(self, fn, *a, **k):
        self._cbs.append(("plain", lambda: fn(*a, **k)))
        return fn

    def enter_context(self, cm):
        v = cm.__enter__() if hasattr(cm, "__enter__") else cm
        if hasattr(cm, "__exit__"):
            self._cbs.append(("exit", cm.__exit__))
        return v

    def pop_all(self):
        other = MExitStack()
        other._cbs, self._cbs = self._cbs, []
        return other

    def close(self):
        self.__exit__(None, None, None)

    def __exit__(self, kind, exc, tb):
        suppressed_any = False
        pending = (kind, exc)
        while self._cbs:
            style, cb = self._cbs.pop()
            try:
                if style == "plain":
                    cb()
                elif cb(pending[0], pending[1], None):
                    suppressed_any = pending[1] is not None or suppressed_any
                    pending = (None, None)
            except ModelRaise as e:
                from .minieval import ExcType

                pending = (ExcType(e.raised_as), e)
                suppressed_any = False
        if pending[1] is not None and pending[1] is not exc:
            raise pending[1]
        return suppressed_any and pending[1] is None


def m_singledispatch(f):
    """functools.singledispatch: dispatch on the class of the first argument; `@f.register(str)` / `@f.register` with an
    annotated first parameter."""
    registry = []

    def dispatch(*a, **k):
        from .userclass import UserClass, is_instance_of

        x = a[0] if a else None
        for ty, impl in registry:
            if isinstance(ty, UserClass):
                if is_instance_of(x, ty):
                    return impl(*a, **k)
            elif isinstance(ty, type) and isinstance(x, ty) and not (ty is int and isinstance(x, bool)):
                return impl(*a, **k)
        return f(*a, **k)

    def register(ty, impl=None):
        if impl is not None:
            registry.insert(0, (ty, impl))
            return impl
        if isinstance(ty, type) or type(ty).__name__ == "UserClass":
            def deco(g):
                registry.insert(0, (ty, g))
                return g
            return deco
        fdef = getattr(ty, "_cg_fdef", None)
        if fdef is not None:
            # `@f.register` on a function whose first parameter is annotated with the class (or a union of classes)
            params = fdef.args.posonlyargs + fdef.args.args
            ann = params[0].annotation if params else None
            if ann is None:
                raise ModelRaise("TypeError", "singledispatch.register: the first parameter has no annotation")
            parts, stack = [], [ann]
            while stack:
                x = stack.pop()
                if isinstance(x, ast.BinOp) and isinstance(x.op, ast.BitOr):
                    stack += [x.right, x.left]
                elif isinstance(x, ast.Subscript) and ast.unparse(x.value).split(".")[-1] in ("Union", "Optional"):
                    stack += list(x.slice.elts) if isinstance(x.slice, ast.Tuple) else [x.slice]
                else:
                    parts.append(x)
            for x in parts:
                cls = ty._cg_interp.me.ev(x) if not (isinstance(x, ast.Constant) and x.value is None) else type(None)
                if not (isinstance(cls, type) or type(cls).__name__ == "UserClass"):
                    raise Unsupported(f"singledispatch.register by annotation {ast.unparse(x)}")
                registry.insert(0, (cls, ty))
            return ty
        raise Unsupported("singledispatch.register on this object")

    dispatch.register = register
    dispatch.dispatch = lambda ty: next((impl for t_, impl in registry if t_ is ty), f)
    return dispatch


def m_dataclass_replace(obj, **changes):
    from .userclass import UserInstance

    if not isinstance(obj, UserInstance):
        raise ModelRaise("TypeError", "replace() should be called on dataclass instances")
    cls = obj._uc_class
    d = object.__getattribute__(obj, "__dict__")
    from .userclass import FieldSpec

    vals = {f[0]: d[f[0]] for f in cls._uc_fields if not (isinstance(f[1], FieldSpec) and not f[1].init)}
    vals.update(changes)
    return cls(**vals)


def _batched(it, n):
    it = iter(it)
    while True:
        chunk = tuple(itertools.islice(it, n))
        if not chunk:
            return
        yield chunk


def apply_decorators(fdef, clo, ev):
    """Decorators of a plain function, innermost first (functools.lru_cache / cache / wraps ...; anything unknown is Unsupported)."""
    for dec in reversed(fdef.decorator_list):
        name = ast.unparse(dec.func if isinstance(dec, ast.Call) else dec).split(".")[-1]
        if name in ("staticmethod", "classmethod", "property"):
            continue  # only meaningful inside a class body, where the class machinery handles them
        try:
            d = ev(dec)
        except Unsupported:
            raise Unsupported(f"decorator {ast.unparse(dec)[:40]} on {fdef.name}")
        if d is None or not callable(d):
            raise Unsupported(f"decorator {ast.unparse(dec)[:40]} on {fdef.name}")
        clo = d(clo)
    return clo


class MStringIO(Model):
    """io.StringIO: an in-memory text buffer."""

    def __init__(self, initial=""):
        self._buf = [initial] if initial else []
        self.closed = False

    def write(self, s):
        if not isinstance(s, str):
            raise ModelRaise("TypeError", "string argument expected")
        self._buf.append(s)
        return len(s)

    def writelines(self, lines):
        for ln in lines:
            self.write(ln)

    def getvalue(self):
        return "".join(self._buf)

    def read(self):
        return "".join(self._buf)

    def close(self):
        self.closed = True

    def __enter__(self):
        return self

    def __exit__(self, *a):
        return False


class MChain(Model):
    def __call__(self, *its):
        return itertools.chain(*its)

    def from_iterable(self, it):
        return itertools.chain.from_iterable(it)


class MItertools(Model):
    chain = MChain()
    product = staticmethod(itertools.product)
    combinations = staticmethod(itertools.combinations)
    permutations = staticmethod(itertools.permutations)
    islice = staticmethod(itertools.islice)
    count = staticmethod(itertools.count)
    repeat = staticmethod(itertools.repeat)
    zip_longest = staticmethod(itertools.zip_longest)
    accumulate = staticmethod(itertools.accumulate)


class MMath(Model):
    import math as _m

    ceil = staticmethod(_m.ceil)
    floor = staticmethod(_m.floor)
    log2 = staticmethod(_m.log2)
    log = staticmethod(_m.log)
    sqrt = staticmethod(_m.sqrt)
    inf = _m.inf


class MFunctools(Model):
    reduce = staticmethod(functools.reduce)


def _type_matches(x, ty):
    from .userclass import UserClass, is_instance_of

    if isinstance(ty, UserClass):
        return is_instance_of(x, ty)
    return isinstance(ty, type) and isinstance(x, ty) and not (ty is int and isinstance(x, bool))


def _annotation_types(ann, ev):
    """Classes named by an annotation `A`, `A | B`, `Union[A, B]`, `Optional[A]`."""
    parts, stack = [], [ann]
    while stack:
        x = stack.pop()
        if isinstance(x, ast.BinOp) and isinstance(x.op, ast.BitOr):
            stack += [x.right, x.left]
        elif isinstance(x, ast.Subscript) and ast.unparse(x.value).split(".")[-1] in ("Union", "Optional"):
            stack += list(x.slice.elts) if isinstance(x.slice, ast.Tuple) else [x.slice]
        else:
            parts.append(x)
    out = []
    for x in parts:
        out.append(type(None) if isinstance(x, ast.Constant) and x.value is None else ev(x))
    return out


def _dispatch_method(fdef, clo, obj, ctx=None):
    """functools.singledispatchmethod on a method of a repository class: the implementations are the methods of the class decorated
    `@<name>.register` (class from the decorator argument or from the annotation of the first parameter after self)."""
    if ctx is not None:
        pkg, rel, cls = ctx
    else:
        d = object.__getattribute__(obj, "__dict__")
        pkg, rel, cls = d["_ri_pkg"], d["_ri_rel"], d["_ri_cls"]
    from .minieval import MiniEval

    ev = MiniEval(pkg.env(rel)).ev
    impls = []
    for (r, q), fi in pkg.repo.funcs.items():
        if r != rel or not q.startswith(cls + ".") or q.count(".") != 1:
            continue
        for dec in fi.node.decorator_list:
            target = dec.func if isinstance(dec, ast.Call) else dec
            if isinstance(target, ast.Attribute) and target.attr == "register" and isinstance(target.value, ast.Name) and target.value.id == fdef.name:
                if isinstance(dec, ast.Call) and dec.args:
                    types = [ev(dec.args[0])]
                else:
                    params = fi.node.args.posonlyargs + fi.node.args.args
                    if len(params) < 2 or params[1].annotation is None:
                        raise Unsupported(f"{q}: register without a class")
                    types = _annotation_types(params[1].annotation, ev)
                for ty in types:
                    impls.append((ty, q))

    def dispatch(*a, **k):
        x = a[0] if a else None
        for ty, q in reversed(impls):
            if _type_matches(x, ty):
                return pkg.method_closure(rel, q)(obj, *a, **k)
        return clo(obj, *a, **k)

    return dispatch


_KNOWN_METHOD_DECORATORS = {"staticmethod", "classmethod", "property", "lru_cache", "cache", "cached_property", "wraps", "contextmanager", "singledispatchmethod", "register", "abstractmethod",
                            "override", "final"}


def _decorator_name(d):
    return ast.unparse(d).split("(")[0].split(".")[-1]


def apply_user_method_decorators(fdef, clo, env):
    """Decorators of a method that the package defines itself (`@_node_lists def _drop(self, ns)`): applied once, to the plain
    function, as the class body does. They must be the innermost ones - a library decorator below them is not modelled."""
    names = [_decorator_name(d) for d in fdef.decorator_list]
    user = [d for d, nm in zip(fdef.decorator_list, names) if nm not in _KNOWN_METHOD_DECORATORS]
    if not user:
        return clo
    if any(nm not in _KNOWN_METHOD_DECORATORS for nm in names[: len(names) - len(user)]):
        raise Unsupported(f"decorator order {names} on {fdef.name}")
    from .minieval import MiniEval

    ev = MiniEval(env).ev
    for dec in reversed(user):
        try:
            d = ev(dec)
        except Unsupported as e:
            raise Unsupported(f"decorator {ast.unparse(dec)[:40]} on {fdef.name}: {e}")
        if d is None or not callable(d):
            raise Unsupported(f"decorator {ast.unparse(dec)[:40]} on {fdef.name}")
        clo = d(clo)
    if not callable(clo):
        raise Unsupported(f"decorator(s) {names} on {fdef.name} do not give a function")
    try:
        clo._cg_user_decorated = True
    except (AttributeError, TypeError):
        raise Unsupported(f"decorator(s) {names} on {fdef.name} give an object the evaluator cannot mark")
    return clo


def bind_with_decorators(fdef, clo, obj, ctx=None):
    decs = {_decorator_name(d) for d in fdef.decorator_list}
    unknown = decs - _KNOWN_METHOD_DECORATORS
    if unknown and getattr(clo, "_cg_user_decorated", False):
        decs -= unknown
        unknown = set()
    if unknown:
        raise Unsupported(f"decorator(s) {sorted(unknown)} on {fdef.name}")
    if "singledispatchmethod" in decs:
        return _dispatch_method(fdef, clo, obj, ctx)
    if "contextmanager" in decs:
        if "staticmethod" in decs:
            return lambda *a, **k: MContextManager(clo(*a, **k))
        return lambda *a, **k: MContextManager(clo(obj, *a, **k))
    if "staticmethod" in decs:
        return lambda *a, **k: clo(*a, **k)
    if "classmethod" in decs:
        return lambda *a, **k: clo(type(obj), *a, **k)
    if decs & {"lru_cache", "cache"}:
        # functools.lru_cache on a method: results are remembered per (object, arguments) for as long as the object lives
        def f(*a, **k):
            try:
                store = obj.__dict__.setdefault("_cg_method_cache", {})
            except AttributeError:
                return clo(obj, *a, **k)
            try:
                key = (fdef.name, a, tuple(sorted(k.items())))
                hash(key)
            except TypeError:
                raise ModelRaise("TypeError", f"unhashable argument to the cached method {fdef.name}")
            if key not in store:
                store[key] = clo(obj, *a, **k)
            return store[key]

        return f
    f = lambda *a, **k: clo(obj, *a, **k)
    if "property" in decs or "cached_property" in decs:
        f._is_property = True
    return f


class MDeque(Model):
    def __init__(self, it=()):
        self._d = list(it)

    def append(self, x):
        self._d.append(x)

    def appendleft(self, x):
        self._d.insert(0, x)

    def pop(self):
        if not self._d:
            raise ModelRaise("IndexError", "pop from an empty deque")
        return self._d.pop()

    def popleft(self):
        if not self._d:
            raise ModelRaise("IndexError", "pop from an empty deque")
        return self._d.pop(0)

    def extend(self, it):
        self._d.extend(it)

    def clear(self):
        self._d.clear()

    def __len__(self):
        return len(self._d)

    def __iter__(self):
        return iter(list(self._d))

    def __bool__(self):
        return bool(self._d)

    def __contains__(self, x):
        return x in self._d

    def __getitem__(self, i):
        return self._d[i]


class MethodOfClassUnderDecoration:
    """`cls._prunable` read by a class decorator while it runs: the (not yet bound) method of that name."""

    def __init__(self, name):
        self.name = name


class InstalledPartialMethod:
    """`partialmethod(cls._prunable, stage=..., loads=...)` stored on the class by a class decorator."""

    def __init__(self, name, bound, bound_kw):
        self.name, self.bound, self.bound_kw = name, bound, bound_kw


class ClassUnderDecoration(Model):
    """A class of the repository (Circuit, BlackBox, a mixin) as a class decorator of the package sees it: reads of its methods
    give placeholders, `setattr(cls, name, value)` / `cls.name = value` are recorded - the evaluator's instances of the class
    then find what was installed."""

    _allow_private = True

    def __init__(self, rel, cls):
        d = object.__getattribute__(self, "__dict__")
        d["_cud_rel"], d["_cud_cls"], d["_cud_installed"] = rel, cls, {}
        d["__name__"] = d["__qualname__"] = cls

    def __getattr__(self, name):
        d = object.__getattribute__(self, "__dict__")
        if name in d["_cud_installed"]:
            return d["_cud_installed"][name]
        return MethodOfClassUnderDecoration(name)

    def __setattr__(self, name, value):
        object.__getattribute__(self, "__dict__")["_cud_installed"][name] = value


def installed_by_decorators(pkg, rel, cls):
    """{name: value} a class decorator of the package stores on the repository class `cls` when its class statement runs (methods
    made with partialmethod, functions, constants); {} for an undecorated class.  The decorators of the classes it inherits from
    are run as well (what they install is inherited)."""
    key = ("_installed", rel, cls)
    if key in pkg._method_closures:
        return pkg._method_closures[key]
    out = {}
    pkg._method_closures[key] = out
    from .minieval import MiniEval

    for (r_, c_) in reversed(pkg.repo.class_mro.get((rel, cls), [(rel, cls)])):
        cdef = pkg.repo.classes.get((r_, c_))
        if cdef is None or not cdef.decorator_list:
            continue
        proxy = ClassUnderDecoration(r_, c_)
        ev = MiniEval(pkg.env(r_)).ev
        for dec in reversed(cdef.decorator_list):
            dname = ast.unparse(dec.func if isinstance(dec, ast.Call) else dec).split(".")[-1]
            if dname in ("dataclass", "total_ordering", "final", "runtime_checkable"):
                continue
            fn = ev(dec)
            if not callable(fn):
                raise Unsupported(f"class decorator {ast.unparse(dec)[:50]} on {c_}")
            got = fn(proxy)
            if got is not proxy:
                raise Unsupported(f"class decorator {ast.unparse(dec)[:50]} on {c_} does not return the class it was given")
        out.update(object.__getattribute__(proxy, "__dict__")["_cud_installed"])
    return out


def bind_installed(value, get_method, obj):
    """What `obj.name` gives for a value a class decorator stored on obj's class."""
    if isinstance(value, InstalledPartialMethod):
        inner = get_method(value.name)
        return lambda *a, **k: inner(*value.bound, *a, **{**value.bound_kw, **k})
    if isinstance(value, MethodOfClassUnderDecoration):
        return get_method(value.name)  # `cls.alias = cls.method`
    if hasattr(value, "_cg_fdef"):
        return lambda *a, **k: value(obj, *a, **k)  # a function stored on the class is a method of its instances
    from .userclass import _Method

    if isinstance(value, _Method):
        if value.kind == "static":
            return value.clo
        if value.kind == "property":
            return value.clo(obj)
        return lambda *a, **k: value.clo(obj, *a, **k)
    return value


class RepoInstance(Model):
    """Instance of a class *defined by the repository*: attributes are stored on the object, every method
    (dunder methods included) is a closure evaluated from the class's source."""

    _allow_private = True
    _serial = 0
    _salt = 0

    def __init__(self, pkg, rel, cls):
        d = object.__getattribute__(self, "__dict__")
        d["_ri_pkg"], d["_ri_rel"], d["_ri_cls"], d["_ri_methods"] = pkg, rel, cls, {}
        RepoInstance._serial += 1
        d["_ri_id"] = RepoInstance._serial

    def __getattr__(self, name):
        d = object.__getattribute__(self, "__dict__")
        pkg, rel, cls, ms = d["_ri_pkg"], d["_ri_rel"], d["_ri_cls"], d["_ri_methods"]
        if name in ms:
            return ms[name]
        key = (rel, f"{cls}.{name}")
        if key not in pkg.repo.funcs:
            # a class-level assignment: `and_gate = partialmethod(_operator_gate, "and", 2)` (a method made from another one), or a
            # class attribute holding a constant / table
            own_rel, own_cls = rel, cls
            body = [(st, r_, c_) for (r_, c_) in pkg.repo.class_mro.get((own_rel, own_cls), [(own_rel, own_cls)]) if (r_, c_) in pkg.repo.classes
                    for st in pkg.repo.classes[(r_, c_)].body]
            for st, rel, cls in body:
                tgt = st.targets[0] if isinstance(st, ast.Assign) and len(st.targets) == 1 else st.target if isinstance(st, ast.AnnAssign) and st.value is not None else None
                if not (isinstance(tgt, ast.Name) and tgt.id == name):
                    continue
                from .minieval import MiniEval

                v = st.value
                ev = MiniEval(pkg.env(rel)).ev
                if isinstance(v, ast.Call) and ast.unparse(v.func).split(".")[-1] == "partialmethod" and v.args and isinstance(v.args[0], ast.Name) and (rel, f"{cls}.{v.args[0].id}") in pkg.repo.funcs:
                    inner = self.__getattr__(v.args[0].id)
                    pre = [ev(a) for a in v.args[1:]]
                    prek = {k.arg: ev(k.value) for k in v.keywords if k.arg}
                    ms[name] = (lambda inner_, pre_, prek_: (lambda *a, **k: inner_(*pre_, *a, **{**prek_, **k})))(inner, pre, prek)
                    return ms[name]
                # a class-level value is created once per class (a descriptor object is told its name, then answers per instance)
                ckey = ("_class_attr", rel, cls, name)
                if ckey not in pkg._method_closures:
                    val = ev(v)
                    from .userclass import UserInstance as _UI

                    if isinstance(val, _UI) and val._uc_special("__set_name__") is not None:
                        val._uc_special("__set_name__").clo(val, repo_class(pkg, rel, cls), name)
                    pkg._method_closures[ckey] = val
                from .userclass import apply_descriptor

                return apply_descriptor(pkg._method_closures[ckey], self, repo_class(pkg, rel, cls))
            installed = installed_by_decorators(pkg, own_rel, own_cls)
            if name in installed:
                return bind_installed(installed[name], self.__getattr__, self)
            raise AttributeError(name)
        clo = pkg.method_closure(rel, f"{cls}.{name}")
        bound = bind_with_decorators(pkg.repo.funcs[key].node, clo, self)
        if getattr(bound, "_is_property", False):
            return bound()
        ms[name] = bound
        return ms[name]

    def _dunder(self, name, *a):
        try:
            m = self.__getattr__(name)
        except AttributeError:
            raise Unsupported(f"repository class {object.__getattribute__(self, '__dict__')['_ri_cls']} has no {name}")
        return m(*a)

    def __contains__(self, x):
        return self._dunder("__contains__", x)

    def __len__(self):
        return self._dunder("__len__")

    def __iter__(self):
        return iter(self._dunder("__iter__"))

    def __hash__(self):
        return hash((RepoInstance._salt * 7919 + object.__getattribute__(self, "__dict__")["_ri_id"] * 104729) % 1000003)

    def __eq__(self, other):
        return self is other


def repo_class_attr(pkg, rel, cls, name, clsref):
    """`Cls.name` read on a class of the repository itself (not on an instance): a static method, a class method bound to the
    class, a plain method as a function taking the object first, or a class-level constant."""
    key = (rel, f"{cls}.{name}")
    if key in pkg.repo.funcs:
        fdef = pkg.repo.funcs[key].node
        decs = {ast.unparse(d).split(".")[-1].split("(")[0] for d in fdef.decorator_list}
        if decs - {"staticmethod", "classmethod", "lru_cache", "cache", "abstractmethod", "override", "final"}:
            raise Unsupported(f"class-level access to {cls}.{name} decorated with {sorted(decs)}")
        clo = pkg.method_closure(rel, f"{cls}.{name}")
        if "classmethod" in decs:
            return lambda *a, **k: clo(clsref, *a, **k)
        return clo
    cdef = pkg.repo.classes.get((rel, cls))
    for st in (cdef.body if cdef is not None else ()):
        tgt = st.targets[0] if isinstance(st, ast.Assign) and len(st.targets) == 1 else st.target if isinstance(st, ast.AnnAssign) and st.value is not None else None
        if isinstance(tgt, ast.Name) and tgt.id == name:
            from .minieval import MiniEval

            return MiniEval(pkg.env(rel)).ev(st.value)
    for (br, bn) in pkg.repo.class_mro.get((rel, cls), [])[1:]:
        bdef = pkg.repo.classes.get((br, bn))
        for st in (bdef.body if bdef is not None else ()):
            tgt = st.targets[0] if isinstance(st, ast.Assign) and len(st.targets) == 1 else st.target if isinstance(st, ast.AnnAssign) and st.value is not None else None
            if isinstance(tgt, ast.Name) and tgt.id == name:
                from .minieval import MiniEval

                return MiniEval(pkg.env(br)).ev(st.value)
    raise Unsupported(f"class {cls} has no class-level attribute {name} the evaluator can read")


class RepoClassRef:
    """The repository's class as a value: calling it constructs an instance, `Cls.helper` reads a class-level attribute."""

    def __init__(self, pkg, rel, cls):
        self._pkg, self._rel, self._cls = pkg, rel, cls
        self.__name__ = self.__qualname__ = cls

    def __call__(self, *a, **k):
        inst = RepoInstance(self._pkg, self._rel, self._cls)
        if (self._rel, f"{self._cls}.__init__") in self._pkg.repo.funcs:
            inst.__getattr__("__init__")(*a, **k)
        return inst

    def _cg_class_attr(self, name):
        return repo_class_attr(self._pkg, self._rel, self._cls, name, self)

    def __repr__(self):
        return f"<class {self._cls}>"


def repo_class(pkg, rel, cls):
    key = ("_class_ref", rel, cls)
    if key not in pkg._method_closures:
        pkg._method_closures[key] = RepoClassRef(pkg, rel, cls)
    return pkg._method_closures[key]


class Package:
    """All module environments of one repository snapshot."""

    def __init__(self, repo, overrides=None, max_steps=400000, full_stack=False):
        """full_stack=True: `Circuit` / `BlackBox` are the repository's own classes (RepoInstance over the graph
        model) instead of the reference model - every method of every call history is evaluated from source."""
        self.repo = repo
        self.full_stack = full_stack
        self.max_steps = max_steps
        self.overrides = overrides or {}
        self.envs = {}
        self.voc = type_vocabulary(repo)
        self._method_closures = {}
        self._init_attrs = {}
        self.nx = MNx()
        self.generic_flop = RefBlackBox("ff", ["clk", "d"], ["q"])
        self.cg = LazyNS(self._cg_attr)
        from .models import MBlackBox, MCircuit

        for k, name in ((RefCircuit, "Circuit"), (RefBlackBox, "BlackBox"), (MCircuit, "Circuit"), (MBlackBox, "BlackBox")):
            k._pkg_fallback = self
            k._repo_class = name

    def initial_private_attr(self, obj, name):
        """(found, value): the value the repository's own `__init__` gives a private attribute the reference model does not
        have (a cache, a flag added by a refactoring) - obtained by evaluating that `__init__` on a scratch instance."""
        cls = getattr(type(obj), "_repo_class", None)
        if cls is None or ("circuit.py", f"{cls}.__init__") not in self.repo.funcs:
            return False, None
        import copy as _copy

        if cls not in self._init_attrs:
            try:
                inst = repo_class(self, "circuit.py", cls)()
                d = object.__getattribute__(inst, "__dict__")
                self._init_attrs[cls] = {k: v for k, v in d.items() if not k.startswith("_ri_")}
            except (ModelRaise, Unsupported):
                self._init_attrs[cls] = {}
        if name not in self._init_attrs[cls]:
            return False, None
        try:
            return True, _copy.deepcopy(self._init_attrs[cls][name])
        except Exception:
            return False, None

    def method_closure(self, rel, qual):
        """One function object per method of a class for the lifetime of this Package - as in CPython, where a method's
        default values belong to the function, not to the instance or the call (a mutable default is shared by all)."""
        key = (rel, qual)
        if key not in self._method_closures:
            fi = self.repo.func(rel, qual)
            if (fi.file, fi.qual) != key:  # inherited from a mixin of the package: one function object, whoever inherits it
                self._method_closures[key] = self.method_closure(fi.file, fi.qual)
                return self._method_closures[key]
            env = self.env(fi.file)
            bi = BlockInterp(env, max_steps=self.max_steps)
            bi.me.env = env
            self._method_closures[key] = apply_user_method_decorators(fi.node, bi.make_closure(fi.node), env)
        return self._method_closures[key]

    def class_level_attr(self, model_cls, name):
        """`Circuit._helper` read on the reference model's class: the repository's own class-level attribute of that name."""
        cls = getattr(model_cls, "_repo_class", None)
        if cls is None:
            raise Unsupported(f"class-level attribute {name} of {model_cls.__name__}")
        return repo_class_attr(self, "circuit.py", cls, name, model_cls)

    def bound_repo_method(self, obj, name):
        """A method that circuit.py's class defines although the reference model lacks it, bound to the model object."""
        cls = getattr(type(obj), "_repo_class", None)
        if cls is not None and ("circuit.py", f"{cls}.{name}") not in self.repo.funcs and ("circuit.py", cls) in self.repo.classes:
            # `_check_sinks = partialmethod(_check_ends, table=...)` in the class body: a method made from another one
            for st in self.repo.classes[("circuit.py", cls)].body:
                v = st.value if isinstance(st, ast.Assign) and len(st.targets) == 1 and isinstance(st.targets[0], ast.Name) and st.targets[0].id == name else None
                if isinstance(v, ast.Call) and ast.unparse(v.func).split(".")[-1] == "partialmethod" and v.args and isinstance(v.args[0], ast.Name):
                    inner = self.bound_repo_method(obj, v.args[0].id)
                    if inner is None:
                        return None
                    from .minieval import MiniEval

                    ev = MiniEval(self.env("circuit.py")).ev
                    pre = [ev(a) for a in v.args[1:]]
                    prek = {k.arg: ev(k.value) for k in v.keywords if k.arg}
                    return lambda *a, **k: inner(*pre, *a, **{**prek, **k})
        if cls is not None and ("circuit.py", f"{cls}.{name}") not in self.repo.funcs and ("circuit.py", cls) in self.repo.classes:
            installed = installed_by_decorators(self, "circuit.py", cls)
            if name in installed:
                def get_method(nm_):
                    m_ = self.bound_repo_method(obj, nm_)
                    if m_ is None:
                        raise Unsupported(f"method {nm_} of {cls} that a class decorator refers to")
                    return m_

                return bind_installed(installed[name], get_method, obj)
        if cls is None or ("circuit.py", f"{cls}.{name}") not in self.repo.funcs:
            return None
        fi = self.repo.funcs[("circuit.py", f"{cls}.{name}")]
        clo = self.method_closure("circuit.py", f"{cls}.{name}")
        bound = bind_with_decorators(fi.node, clo, obj, ctx=(self, "circuit.py", cls))
        return bound() if getattr(bound, "_is_property", False) else bound

    # ---- the `cg` namespace -------------------------------------------
    def _cg_attr(self, name):
        if name == "Circuit":
            return repo_class(self, "circuit.py", "Circuit") if self.full_stack else RefCircuit
        if name == "BlackBox":
            return repo_class(self, "circuit.py", "BlackBox") if self.full_stack else RefBlackBox
        if name in ("primitive_gates", "addable_types", "supported_types"):
            return list(self.voc[name])
        if name == "generic_flop":
            return self.generic_flop
        if name in ("tx", "sat", "props", "utils", "logic", "io"):
            return self.module_ns(f"{name}.py")
        if name in ("lint", "visualize"):
            return self.func("utils.py", name)
        if name in ("from_file", "from_lib", "to_file"):
            return self.func("io.py", name)
        if f"{name}.py" in self.repo.tree:
            return self.module_ns(f"{name}.py")
        if f"{name}/__init__.py" in self.repo.tree:
            return LazyNS(lambda sub, d=name: self.resolve_import("__init__.py", f"circuitgraph.{d}", sub, 0))
        return _MISSING

    def module_ns(self, rel):
        return LazyNS(lambda name, rel=rel: self._mod_attr(rel, name))

    def _mod_attr(self, rel, name):
        if (rel, name) in self.overrides:
            return self.overrides[(rel, name)]
        env = self.env(rel)
        if name in env:
            return env[name]
        return _MISSING

    def func(self, rel, name):
        if (rel, name) in self.overrides:
            return self.overrides[(rel, name)]
        return self.env(rel)[name]

    # ---- per-module environment ---------------------------------------
    def env(self, rel):
        if rel in self.envs:
            return self.envs[rel]
        env = {}
        self.envs[rel] = env
        env["__globals__"] = env  # scopes nested in the module's functions are copies: they still reach the module's names live
        env.update({
            "cg": self.cg, "nx": self.nx, "Circuit": self._cg_attr("Circuit"), "BlackBox": self._cg_attr("BlackBox"),
            "primitive_gates": list(self.voc["primitive_gates"]), "addable_types": list(self.voc["addable_types"]), "supported_types": list(self.voc["supported_types"]),
            "reduce": functools.reduce, "combinations": itertools.combinations, "product": itertools.product,
            "defaultdict": m_defaultdict, "Queue": MQueue, "bin": bin, "generic_flop": self.generic_flop,
            "chain": MChain(), "itertools": MItertools(), "math": MMath(), "functools": MFunctools(), "permutations": itertools.permutations,
            "islice": itertools.islice, "zip_longest": itertools.zip_longest, "deque": m_deque, "Counter": m_counter, "OrderedDict": __import__("collections").OrderedDict,
        })
        self._bind_imports(rel, env)
        from .models import MCNF, MIDPool, MSolver

        env.setdefault("__imports__", {"pysat.formula.CNF": MCNF, "pysat.formula.IDPool": MIDPool, "pysat.solvers.Cadical153": MSolver, "pysat.solvers.Cadical": MSolver,
                                       **getattr(self, "import_overrides", {})})  # (what stands for a third-party import is the same in every module of the package)
        bi = BlockInterp(env, max_steps=self.max_steps)
        bi.me.env = env  # share the dict: closures see functions defined later in the module
        tree = self.repo.tree[rel]
        bind_stdlib_imports(tree, env)
        # functions first (they resolve names at call time), then constants in source order (lookup tables may
        # name functions defined anywhere in the module)
        own = {}
        for st in tree.body:
            if isinstance(st, ast.FunctionDef):
                key = (rel, st.name)
                env[st.name] = self.overrides[key] if key in self.overrides else bi.make_closure(st)
                own[id(st)] = env[st.name]  # several functions may share a name (`def _` under `@f.register`)
        # decorators (functools.lru_cache ...) once every module-level name they may mention is bound
        self._pending_decorators = [(st, rel) for st in tree.body if isinstance(st, ast.FunctionDef) and st.decorator_list and (rel, st.name) not in self.overrides]
        # classes the module defines for its own use (helper objects, NamedTuples, dataclasses); Circuit / BlackBox are
        # bound above, classes over library bases (lark's Transformer) have their own drivers
        from .userclass import build_class

        for st in tree.body:
            if isinstance(st, ast.ClassDef) and st.name not in env:
                try:
                    env[st.name] = build_class(st, bi)
                except Unsupported:
                    pass
        bind_module_constants(tree, env)
        for st, rel_ in self._pending_decorators:
            env[st.name] = apply_decorators(st, own[id(st)], bi.me.ev)
        # a class may use module constants as defaults / class attributes and vice versa: further passes for late ones, until
        # nothing new gets bound
        for _ in range(4):
            before_n = len(env)
            for st in tree.body:
                if isinstance(st, ast.ClassDef) and st.name not in env:
                    try:
                        env[st.name] = build_class(st, bi)
                    except Unsupported:
                        pass
            bind_module_constants(tree, env)
            if len(env) == before_n:
                break
        # a class that could not be built is a free name for whoever mentions it (exit 2 there); one whose mere creation has an
        # effect elsewhere (class keywords handed to a registration hook of its base) must not be skipped silently
        for st in tree.body:
            if isinstance(st, ast.ClassDef) and st.name not in env and st.keywords:
                try:
                    build_class(st, bi)
                except Unsupported as e:
                    why = [str(e)]
                    for other in tree.body:  # the root cause is usually a base class that could not be built itself
                        if isinstance(other, ast.ClassDef) and other.name not in env and other is not st and other.name in str(e):
                            try:
                                build_class(other, bi)
                            except Unsupported as e2:
                                why.append(f"{other.name}: {e2}")
                    raise Unsupported(f"class {st.name} (with class keywords) cannot be evaluated: {'; '.join(why)}")
        self._bi = bi
        return env

    # ---- names imported from sibling modules -----------------------------
    def _bind_imports(self, rel, env):
        from .verilogmodel import MRe

        env.setdefault("re", MRe())
        env["__resolve_import__"] = lambda module, name, level, rel=rel: self.resolve_import(rel, module, name, level)
        env["__resolve_module__"] = lambda dotted, rel=rel: self.resolve_module(dotted)

        def run_if_registering(target):
            # CPython executes a module when it is imported; the evaluator binds a lazy namespace.  A module whose body registers
            # things elsewhere when it runs (decorated classes / functions filling a table of another module, call statements at
            # module level) is therefore evaluated at the import, in source order, like CPython does
            if target is not None and target != rel and target in self.repo.tree and target not in self.envs and _registers_at_import(self.repo.tree[target]):
                self.env(target)

        def walk(nodes):
            for st in nodes:
                if isinstance(st, ast.ImportFrom):
                    target = self.repo.module_rel(st.module, st.level, rel)
                    if target is None:
                        continue
                    for al in st.names:
                        if target.endswith("__init__.py"):
                            d = target[: -len("__init__.py")]
                            for sub in (d + al.name + ".py", d + al.name + "/__init__.py"):
                                if sub != "__init__.py":
                                    run_if_registering(sub)
                        nm = al.asname or al.name
                        if nm in env:
                            continue
                        v = self.resolve_import(rel, st.module, al.name, st.level)
                        if v is not _MISSING:
                            env[nm] = v
                elif isinstance(st, ast.Import):
                    for al in st.names:
                        f_ = self.repo.module_rel(al.name)
                        if f_ not in (None, "__init__.py"):
                            run_if_registering(f_)
                        if al.asname and al.asname not in env:
                            v = self.resolve_module(al.name)
                            if v is not _MISSING:
                                env[al.asname] = v
                elif isinstance(st, (ast.If, ast.Try)):
                    walk(ast.iter_child_nodes(st))

        walk(self.repo.tree[rel].body)

    def resolve_module(self, dotted):
        """`import circuitgraph.x.y as m`: the namespace of that module of the package."""
        f = self.repo.module_rel(dotted)
        if f is None:
            return _MISSING
        if f == "__init__.py":
            return self.cg
        return self.module_ns(f)

    def resolve_import(self, rel, module, name, level=0, depth=0):
        """The value `from <module> import <name>` binds in the module `rel` (a function evaluated from source, a class / constant
        of the other module's environment, a sub-module's namespace); _MISSING when the evaluator cannot tell."""
        target = self.repo.module_rel(module, level, rel)
        if target is None or depth > 5:
            return _MISSING
        if target.endswith("__init__.py"):
            d = target[: -len("__init__.py")]
            for sub in (d + name + ".py", d + name + "/__init__.py"):
                if sub in self.repo.tree:
                    return self.cg if sub == "__init__.py" else self.module_ns(sub)
            if target == "__init__.py":
                return self._cg_attr(name)
            # re-exported by the sub-package's __init__
            for st in self.repo.tree[target].body:
                if isinstance(st, ast.ImportFrom):
                    for al in st.names:
                        if (al.asname or al.name) == name:
                            return self.resolve_import(target, st.module, al.name, st.level, depth + 1)
            return _MISSING
        if name == "parse_verilog_netlist" and target == "parsing/verilog.py":
            return self._full_parser
        if (target, name) in self.repo.funcs or (target, name) in self.overrides:
            return (lambda t, n: (lambda *a, **k: self.func(t, n)(*a, **k)))(target, name)
        if target == "circuit.py" and name in ("Circuit", "BlackBox"):
            return self._cg_attr(name)
        if target != rel and target in self.repo.tree:
            # a helper class / enumeration / exception class / constant another module of the package defines
            tenv = self.env(target)
            if name in tenv:
                return tenv[name]
        return _MISSING

    def _full_parser(self, netlist, blackboxes, warnings=False, error_on_warning=False):
        from .verilogmodel import ParseError, full_parse

        try:
            return full_parse(self, netlist, blackboxes or [], warnings, error_on_warning)
        except ParseError as e:
            raise ModelRaise(e.kind, e.msg)

    def call(self, rel, name, *args, **kwargs):
        """Call a repository function (evaluated from source). Returns ('return', v) | ('raise', kind)."""
        from .minieval import ID_MODEL

        ID_MODEL.new_epoch()  # objects of earlier calls that have died give their id() back
        f = self.func(rel, name)
        try:
            return ("return", f(*args, **kwargs))
        except ModelRaise as e:
            return ("raise", e.kind, e.what)
        except RecursionError:
            return ("raise", "RecursionError", "unbounded recursion on a small model")
        except Unsupported as e:
            fi = self.repo.funcs.get((rel, name))
            raise AnalysisError(f"{name}: unrecognised idiom: {e}", rel, fi.node.lineno if fi else None)

    def call_method(self, cls_rel, qual, self_obj, *args, **kwargs):
        """Evaluate the body of a repository *method* with `self` bound to a model object."""
        fi = self.repo.func(cls_rel, qual)
        clo = self.method_closure(cls_rel, qual)
        try:
            return ("return", clo(self_obj, *args, **kwargs))
        except ModelRaise as e:
            return ("raise", e.kind, e.what)
        except RecursionError:
            return ("raise", "RecursionError", "unbounded recursion on a small model")
        except Unsupported as e:
            raise AnalysisError(f"{qual}: unrecognised idiom: {e}", cls_rel, fi.node.lineno)


def build_full(P, spec, outputs=(), name="m", blackboxes=None):
    """The model circuit `spec` ({node: (type, [fan-in])}) as an instance of the repository's OWN Circuit class (P must be a
    full-stack Package): built through its public API - every node first, then the wiring, so that loops are possible -
    hence every query a transform makes on it (fanin, fanout, type, startpoints ...) runs circuit.py's code, not the
    reference model's."""
    assert P.full_stack
    c = P.cg.Circuit(name)
    for n, (t, fi) in spec.items():
        if "." in n:
            continue
        c.add(n, t)
    for inst, bb in (blackboxes or {}).items():
        rb = P.cg.BlackBox(bb.name, sorted(bb.inputs()), sorted(bb.outputs()))
        c.add_blackbox(rb, inst)
    for n, (t, fi) in spec.items():
        if fi:
            c.connect(list(fi), n)
    if outputs:
        c.set_output(list(outputs))
    return c


def to_ref(x, _depth=0):
    """A result computed over the repository's own classes, as reference-model objects (so that the oracles - simulation,
    free nodes, snapshots - can read it): circuits by their raw graph, containers element-wise."""
    if isinstance(x, RepoInstance):
        d = object.__getattribute__(x, "__dict__")
        if d.get("_ri_cls") == "Circuit":
            bbs = {k: to_ref(v, _depth + 1) for k, v in dict(d.get("blackboxes", {})).items()}
            return RefCircuit(graph=d["graph"].copy(), name=d.get("name"), blackboxes=bbs)
        if d.get("_ri_cls") == "BlackBox":
            return RefBlackBox(d.get("name"), sorted(d.get("input_set", ())), sorted(d.get("output_set", ())))
        return x
    if _depth > 4:
        return x
    if isinstance(x, tuple):
        return tuple(to_ref(v, _depth + 1) for v in x)
    if isinstance(x, list):
        return [to_ref(v, _depth + 1) for v in x]
    if isinstance(x, dict):
        return {k: to_ref(v, _depth + 1) for k, v in x.items()}
    if isinstance(x, (set, frozenset)) and any(isinstance(v, RepoInstance) for v in x):
        return [to_ref(v, _depth + 1) for v in x]
    return x


def to_full(P, c):
    spec = {n: (c.graph._node[n].get("type"), sorted(c.graph._pred[n])) for n in c.graph._node}
    return build_full(P, spec, outputs=[n for n in c.graph._node if c.graph._node[n].get("output")], name=c.name, blackboxes=dict(c.blackboxes))


class FullStackCaller:
    """call(rel, fname, *args): like Package.call, but every reference circuit among the arguments is rebuilt as an instance of the
    repository's own Circuit class (through its public API) and the result is handed back as reference objects.  What the
    called function asks of its circuits (fanin, fanout, type, startpoints, add, connect, relabel ...) is circuit.py's code."""

    def __init__(self, repo, overrides=None):
        self.P = Package(repo, overrides=overrides, full_stack=True)

    def call(self, rel, fname, *args, **kwargs):
        try:
            a2 = [to_full(self.P, a) if isinstance(a, RefCircuit) else a for a in args]
            k2 = {k: (to_full(self.P, v) if isinstance(v, RefCircuit) else v) for k, v in kwargs.items()}
        except ModelRaise as e:
            return ("raise", e.kind, f"while rebuilding an argument through the public API: {e.what}")
        r = self.P.call(rel, fname, *a2, **k2)
        if r[0] == "return":
            return ("return", to_ref(r[1]))
        return r
