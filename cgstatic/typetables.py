"""
E3 - node-type literal tables.

Collects every place where a node type is compared with string literals and
exposes the reference partition of `supported_types` used by several rules.
"""
import ast

from .astutil import dotted, local_assignments, method_name, walk_no_nested
from .core import AnalysisError, ConstEnv, norm, type_vocabulary

# reference partition (roles).  Checked against circuit.py's own vocabulary in
# `reference_partition` so that a type added to the repository fails closed.
NO_FANIN = {"input", "0", "1", "x", "bb_output"}
SINGLE_FANIN = {"buf", "not", "bb_input"}
MULTI_FANIN = {"and", "nand", "or", "nor", "xor", "xnor"}
NO_FANOUT = {"bb_input"}
INVERTING = {"nand", "nor", "xnor", "not"}
STARTPOINT = {"input", "bb_output"}
CONSTANTS = {"0", "1", "x"}
BASE_OF = {"and": "and", "nand": "and", "or": "or", "nor": "or", "xor": "xor", "xnor": "xor"}


def reference_partition(repo):
    voc = type_vocabulary(repo)
    sup = set(voc["supported_types"])
    parts = [NO_FANIN, SINGLE_FANIN, MULTI_FANIN]
    union = set().union(*parts)
    if union != sup or sum(len(p) for p in parts) != len(union):
        raise AnalysisError(
            "supported_types in circuit.py no longer equals the checker's reference partition "
            f"(repo: {sorted(sup)}; reference: {sorted(union)}) - a type was added/removed; the role tables must be re-confirmed by hand",
            "circuit.py",
        )
    if len(set(voc["supported_types"])) != len(voc["supported_types"]):
        raise AnalysisError("duplicate entry in supported_types", "circuit.py")
    if set(voc["primitive_gates"]) != MULTI_FANIN | {"buf", "not"}:
        raise AnalysisError(f"primitive_gates changed: {voc['primitive_gates']}", "circuit.py")
    if set(voc["addable_types"]) != sup - {"bb_input", "bb_output"}:
        raise AnalysisError(f"addable_types changed: {voc['addable_types']}", "circuit.py")
    return voc


class TypeTest:
    """One comparison of a type-valued expression against literals."""

    __slots__ = ("node", "subject", "subject_text", "lits", "negated", "line", "kind", "typed_subject")

    def __init__(self, node, subject, lits, negated, kind, typed_subject):
        self.node = node
        self.subject = subject
        self.subject_text = norm(subject) if subject is not None else None
        self.lits = lits
        self.negated = negated
        self.line = getattr(node, "lineno", None)
        self.kind = kind
        self.typed_subject = typed_subject

    def __repr__(self):
        return f"<TypeTest {self.subject_text} {'not in' if self.negated else 'in'} {sorted(self.lits)} @{self.line}>"


def is_type_expr(node, aliases):
    """Is this expression the type of a node?  Returns the node-expression or None."""
    if isinstance(node, ast.Call) and isinstance(node.func, ast.Attribute) and node.func.attr == "type" and len(node.args) == 1:
        return node.args[0]
    if isinstance(node, ast.Subscript) and isinstance(node.slice, ast.Constant) and node.slice.value == "type":
        inner = node.value
        if isinstance(inner, ast.Subscript):
            return inner.slice
        return inner
    if isinstance(node, ast.Name) and node.id in aliases:
        return aliases[node.id]
    return None


def type_aliases(fn):
    """locals assigned from a type expression: name -> node expression."""
    out = {}
    for name, vals in local_assignments(fn).items():
        for v in vals:
            te = is_type_expr(v, {})
            if te is not None:
                out[name] = te
    return out


def collect_type_tests(repo, fi, extra_env=None):
    """All type tests in function `fi` (not descending into nested defs)."""
    fn = fi.node
    voc = set(type_vocabulary(repo)["supported_types"])
    aliases = type_aliases(fn)
    env_local = {}
    ce = ConstEnv(repo, fi.file, env_local)
    # local names bound once to a constant list expression
    for name, vals in local_assignments(fn).items():
        if len(vals) == 1:
            try:
                v = ce.eval(vals[0])
            except ValueError:
                continue
            if isinstance(v, list) and all(isinstance(x, str) for x in v):
                env_local[name] = v
    # enclosing function's constant lists (closures)
    p = fi.parent
    while p is not None:
        for name, vals in local_assignments(p.node).items():
            if name not in env_local and len(vals) == 1:
                try:
                    v = ConstEnv(repo, fi.file, {}).eval(vals[0])
                except ValueError:
                    continue
                if isinstance(v, list) and all(isinstance(x, str) for x in v):
                    env_local[name] = v
        p = p.parent
    if extra_env:
        env_local.update(extra_env)

    def lit_set(node):
        try:
            v = ce.eval(node)
        except ValueError:
            return None
        if isinstance(v, str):
            return None
        if isinstance(v, list) and all(isinstance(x, str) for x in v):
            return v
        return None

    tests = []
    for n in walk_no_nested(fn):
        if isinstance(n, ast.Compare) and len(n.ops) == 1:
            op = n.ops[0]
            left, right = n.left, n.comparators[0]
            if isinstance(op, (ast.In, ast.NotIn)):
                lits = lit_set(right)
                if lits is None:
                    continue
                te = is_type_expr(left, aliases)
                typed = te is not None
                if not typed and not (set(lits) & voc):
                    continue
                tests.append(TypeTest(n, te if typed else left, list(lits), isinstance(op, ast.NotIn), "in", typed))
            elif isinstance(op, (ast.Eq, ast.NotEq)):
                for a, b in ((left, right), (right, left)):
                    if isinstance(b, ast.Constant) and isinstance(b.value, str):
                        te = is_type_expr(a, aliases)
                        if te is not None:
                            tests.append(TypeTest(n, te, [b.value], isinstance(op, ast.NotEq), "eq", True))
                            break
        elif isinstance(n, ast.Call) and method_name(n) == "filter_type" and n.args:
            a = n.args[0]
            if isinstance(a, ast.Constant) and isinstance(a.value, str):
                tests.append(TypeTest(n, None, [a.value], False, "filter", True))
            else:
                lits = lit_set(a)
                if lits is not None:
                    tests.append(TypeTest(n, None, list(lits), False, "filter", True))
    return tests


def test_in_expr(expr, tests):
    """TypeTests whose node lies inside `expr`."""
    inside = set(id(n) for n in ast.walk(expr))
    return [t for t in tests if id(t.node) in inside]
