"""
A shared corpus of small, acyclic, blackbox-free model circuits covering the structural corners that seeded
defects kept hiding in: feed-through ports, constants (controlling / non-controlling / as outputs), single-input
multi-input gates, wide gates, operand sets shared between gates, a net and its own buffer feeding one gate, dead
logic and unobserved inputs, many outputs sharing logic - each also under adversarial *naming schemes* (names that
look like the helper nodes the transforms, parsers and writers synthesise, names that are prefixes of each other).

Every circuit has at most 5 inputs so that exhaustive simulation stays cheap.  `tags` lets a rule filter.
"""
from .refmodel import build


def _b(spec, outputs, name="m"):
    return build(spec, outputs=outputs, name=name)


def structural():
    I = ("input", [])
    yield "feedthrough-and-gate", {"feedthrough"}, _b({"a": I, "b": I, "g": ("and", ["a", "b"])}, ["a", "g"])
    yield "only-feedthrough-output", {"feedthrough"}, _b({"a": I, "b": I, "g": ("or", ["a", "b"])}, ["a"])
    yield "controlling-constants", {"const"}, _b({"a": I, "b": I, "z": ("0", []), "w": ("1", []), "g1": ("and", ["a", "z"]), "g2": ("or", ["b", "w"]), "g3": ("nand", ["a", "b", "z"]),
                                                  "g4": ("nor", ["g1", "w"]), "o": ("xor", ["g2", "g3", "g4"])}, ["o", "g1"])
    yield "non-controlling-constants", {"const"}, _b({"a": I, "b": I, "z": ("0", []), "w": ("1", []), "g1": ("and", ["a", "w"]), "g2": ("or", ["b", "z"]), "g3": ("xnor", ["g1", "w", "b"]),
                                                      "o": ("nor", ["g2", "g3", "z"])}, ["o"])
    yield "constant-outputs", {"const", "const-output"}, _b({"a": I, "z": ("0", []), "w": ("1", []), "n": ("not", ["a"]), "k": ("buf", ["w"])}, ["z", "w", "n", "k"])
    yield "single-input-gates", {"demotion"}, _b({"a": I, "g1": ("nand", ["a"]), "g2": ("xnor", ["g1"]), "g3": ("or", ["g2"]), "g4": ("xor", ["g3"]), "g5": ("nor", ["g4"]), "g6": ("and", ["g5"])}, ["g6", "g3"])
    for t in ("and", "nand", "or", "nor", "xor", "xnor"):
        ins = ["a", "b", "c", "d", "e"]
        yield f"wide-{t}5-with-tap", {"wide"}, _b({**{i: I for i in ins}, "g": (t, ins), "tap": ("not", ["g"]), "o": (t, ["g", "a", "tap"])}, ["o", "g"])
    yield "same-operands-many-gates", {"shared"}, _b({"a": I, "b": I, "c": I, "p1": ("xor", ["a", "b"]), "p2": ("xnor", ["a", "b"]), "p3": ("xor", ["a", "b"]), "q1": ("and", ["a", "b", "c"]),
                                                      "q2": ("or", ["a", "b", "c"]), "q3": ("nand", ["a", "b", "c"]), "r": ("xnor", ["a", "b", "c"]), "o": ("or", ["p1", "p2", "p3", "q1", "q2", "q3", "r"])}, ["o", "p2", "r"])
    yield "net-and-its-buffer", {"shared"}, _b({"a": I, "c": I, "d": I, "b": ("buf", ["a"]), "n": ("not", ["a"]), "f1": ("xor", ["a", "b", "c"]), "f2": ("xnor", ["a", "n"]), "f3": ("and", ["a", "b", "d"]),
                                                "f4": ("nor", ["a", "n", "d"]), "o": ("or", ["f1", "f2", "f3", "f4"])}, ["o", "f1", "f2"])
    yield "dead-logic-and-unobserved-input", {"dead"}, _b({"a": I, "b": I, "u": I, "g": ("and", ["a", "b"]), "dead1": ("not", ["u"]), "dead2": ("or", ["dead1", "a"]), "o": ("buf", ["g"])}, ["o"])
    yield "many-outputs-sharing-logic", {"multi-output"}, _b({"a": I, "b": I, "c": I, "g0": ("and", ["a", "b"]), "g1": ("or", ["g0", "c"]), "g2": ("nand", ["g1", "a"]), "g3": ("xor", ["g2", "g0"]),
                                                              "g4": ("nor", ["g2", "c"]), "g5": ("buf", ["g2"])}, ["g3", "g4", "g1", "g5", "g0"])
    # two outputs whose cones share a sub-tree with an inner block fed only by other blocks (defect #25: the two copies of that
    # block, one per output cone, removed each other from the supergate cover)
    yield "shared-subtree-under-two-outputs", {"multi-output", "shared"}, _b({"a": I, "b": I, "c": I, "d": I, "e": I, "t0": ("and", ["c", "e"]), "t1": ("and", ["b", "d"]), "t2": ("and", ["t0", "t1"]),
                                                                              "g": ("and", ["a", "t2"]), "tap": ("not", ["g"]), "u": ("and", ["g", "tap"]), "o": ("and", ["a", "u"])}, ["o", "g"])
    yield "output-driving-only-dead-logic", {"dead", "multi-output"}, _b({"a": I, "b": I, "o1": ("and", ["a", "b"]), "t0": ("not", ["o1"]), "t1": ("or", ["t0", "a"]), "o2": ("xor", ["a", "b"])}, ["o1", "o2"])
    # a circuit that went through limit_fanin(c, 3) before: helper names are taken, gates are still wider than 2
    yield "already-fan-in-limited-to-3", {"names2", "prelimited"}, _b({"a": I, "b": I, "c": I, "d": I, "e": I, "g_limit_fanin_0": ("and", ["a", "b", "c"]), "g": ("and", ["g_limit_fanin_0", "d", "e"]),
                                                                 "w_limit_fanin_0": ("xor", ["a", "d", "e"]), "w": ("xor", ["w_limit_fanin_0", "b", "c"]), "o": ("nor", ["g", "w", "c"])}, ["o", "g"])
    yield "already-fan-in-limited-to-3-single-output", {"names2", "prelimited"}, _b({"a": I, "b": I, "c": I, "d": I, "w_limit_fanin_0": ("xor", ["a", "b", "d"]), "w": ("xor", ["w_limit_fanin_0", "c", "d"]),
                                                                               "o": ("nor", ["w", "c"])}, ["o"])
    yield "heavy-fanout-net", {"fanout"}, _b({"a": I, "b": I, "s": ("xor", ["a", "b"]), "l1": ("not", ["s"]), "l2": ("buf", ["s"]), "l3": ("and", ["s", "a"]), "l4": ("or", ["s", "b"]), "l5": ("nand", ["s", "l2"]),
                                              "l6": ("xnor", ["s", "l1", "l2"]), "o": ("or", ["l1", "l3", "l4", "l5", "l6"])}, ["o", "l6"])
    yield "reconvergence-through-inverters", {"reconv"}, _b({"a": I, "b": I, "n": ("not", ["a"]), "p": ("and", ["a", "b"]), "q": ("and", ["n", "b"]), "o": ("or", ["p", "q"]), "z": ("and", ["a", "n"])}, ["o", "z"])
    yield "buffer-and-inverter-chains", {"chains"}, _b({"a": I, "b": I, "c": I, "g": ("and", ["a", "b", "c"]), "n1": ("not", ["g"]), "n2": ("not", ["n1"]), "b1": ("buf", ["g"]), "n3": ("not", ["b1"]),
                                                       "b2": ("buf", ["n3"]), "n4": ("not", ["b2"]), "n5": ("not", ["n4"]), "o": ("or", ["n2", "n5"])}, ["o", "n2", "n3", "b2"])
    yield "chain-declared-downstream-first", {"chains"}, _b({"o": ("xor", ["n3", "a"]), "n3": ("not", ["n2"]), "n2": ("buf", ["n1"]), "n1": ("not", ["g"]), "g": ("nor", ["a", "b"]), "a": I, "b": I}, ["o", "n2"])
    # distinct operand sets whose names join to one string ({a_b, c} / {a, b_c}), under gates of one type - and exact duplicates
    yield "operand-names-joining-ambiguously", {"names2", "joining", "shared"}, _b({"a": I, "b_c": I, "a_b": I, "c": I, "g1": ("and", ["a_b", "c"]), "g2": ("and", ["a", "b_c"]), "x1": ("xor", ["a_b", "c"]),
                                                                        "x2": ("xor", ["a", "b_c"]), "d1": ("nor", ["a", "c"]), "d2": ("nor", ["c", "a"]), "o": ("or", ["g1", "x2", "d1"])}, ["o", "g2", "x1", "d2"])
    yield "x-constant", {"x"}, _b({"a": I, "u": ("x", []), "g": ("or", ["a", "u"])}, ["g"])


# names that collide with what some function of the package synthesises
HELPER_NAMES = [
    "sat", "dif_g", "c0_a", "c1_a",  # miter
    "a_X", "g_X", "g_x_in_fi", "g_0_not_in_fi", "g_1_not_in_fi", "a_is_0", "a_is_1", "a_not_x",  # ternary
    "g_limit_fanin_0", "g_limit_fanout_0", "h_limit_fanin_0",  # limit_*
    "tie_0", "tie_1", "tie0", "tie1", "not_a", "and_a_b", "xor_g_b", "g_0", "g_1",  # parsers / writer
    "aux_in_g", "c0_aux_in_g", "c0_g",  # acyclic_unroll
    "orig_a", "inv_a_a", "pc_in_0", "dif_out_a", "sen_out_0",  # sensitivity_transform
    "z_not_a", "a_inv",  # bench writer
]


def adversarial_names(limit=None):
    """The same small circuit with one extra node carrying a helper-style name (as an input feeding logic, or as a gate)."""
    I = ("input", [])
    n = 0
    for hn in HELPER_NAMES:
        for role in ("input", "gate"):
            if hn in ("a", "b", "g", "h", "o"):
                continue
            spec = {"a": I, "b": I, "g": ("and", ["a", "b"]), "h": ("xor", ["g", "b"])}
            if role == "input":
                spec[hn] = I
                spec["o"] = ("nor", ["h", hn, "a"])
            else:
                spec[hn] = ("nand", ["a", "h"])
                spec["o"] = ("nor", ["h", hn])
            n += 1
            if limit and n > limit:
                return
            yield f"name::{hn}::{role}", {"names"}, _b(spec, ["o", "g"])
    # names that are prefixes / extensions of each other
    yield "name::prefixes", {"names"}, _b({"n": I, "n_": I, "n_0": I, "n_0_": ("and", ["n", "n_"]), "n_0_0": ("xor", ["n_0_", "n_0"]), "n0": ("nor", ["n_0_0", "n"])}, ["n0", "n_0_"])


def pseudo_random(count, seed=20260101):
    """Deterministic pseudo-random acyclic circuits (own linear congruential generator - independent of hash seeds and of
    Python's `random`): 2-4 inputs, 3-8 gates of any type at fan-in 1-4, occasional constants, outputs = every sink plus one
    or two arbitrary nodes (possibly an input).  They add breadth where the hand-written corners add depth."""
    state = [seed & 0x7FFFFFFF]

    def rnd(n):
        state[0] = (state[0] * 1103515245 + 12345) & 0x7FFFFFFF
        return (state[0] >> 8) % n

    I = ("input", [])
    gate_types = ["and", "nand", "or", "nor", "xor", "xnor", "buf", "not"]
    for ci in range(count):
        k = 2 + rnd(3)
        spec = {f"i{j}": I for j in range(k)}
        pool = list(spec)
        if rnd(4) == 0:
            cname = f"k{rnd(2)}"
            spec[cname] = (cname[1], [])
            pool.append(cname)
        for gi in range(3 + rnd(6)):
            t = gate_types[rnd(len(gate_types))]
            width = 1 if t in ("buf", "not") else 1 + rnd(min(4, len(pool)))
            fi = []
            while len(fi) < width:
                c_ = pool[rnd(len(pool))]
                if c_ not in fi:
                    fi.append(c_)
            name = f"g{gi}"
            spec[name] = (t, fi)
            pool.append(name)
        used = {f for (t, fi) in spec.values() for f in fi}
        outs = [n for n in spec if n not in used and spec[n][0] not in ("input",)] or [pool[-1]]
        for _ in range(1 + rnd(2)):
            extra = pool[rnd(len(pool))]
            if extra not in outs:
                outs.append(extra)
        yield f"random::{ci}", {"random"}, _b(spec, outs)


REINSERTED = ("feedthrough-and-gate", "controlling-constants", "constant-outputs", "single-input-gates", "net-and-its-buffer", "dead-logic-and-unobserved-input",
              "many-outputs-sharing-logic", "buffer-and-inverter-chains", "shared-subtree-under-two-outputs")


def corpus(tier="quick", want=None, exclude=()):
    """(name, tags, circuit) - filtered by tag sets."""
    from .semantic import reinserted

    items = list(structural())
    # node iteration order is insertion order: some members again with their nodes inserted sinks-first
    items += [(f"{n}@sinks-first", set(t) | {"reinserted"}, reinserted(c, "sinks-first")) for n, t, c in list(items) if n in REINSERTED]
    items += list(adversarial_names(limit=None if tier == "thorough" else 24))
    items += list(pseudo_random(10 if tier == "quick" else 150))
    for name, tags, c in items:
        if want is not None and not (tags & set(want)):
            continue
        if tags & set(exclude):
            continue
        yield name, tags, c
