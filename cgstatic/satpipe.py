"""
The SAT layer end to end, still without running repository code or a real solver: `sat.solve` / `sat.model_count`
are evaluated from source *together with* `construct_solver`, `cnf` and `add_assumptions`, and the class the code
imports from `pysat.solvers` is a complete little DPLL solver model with the PySAT interface (bootstrap_with,
solve(assumptions), get_model, add_clause, delete, context manager).  The results are compared with the definition:
consistent valuations of the circuit enumerated by brute force over *all node values* (so cyclic circuits, which may
have zero or several consistent valuations per startpoint assignment, are covered).

A real solver may return any model; the model's branching polarity is a parameter and the rules run under both.
"""
import itertools

from .gates import bool_gate
from .minieval import Model, ModelRaise
from .pkgenv import Package


def make_solver_class(polarity):
    class MDpllSolver(Model):
        instances = []

        def __init__(self, bootstrap_with=None, name=None, use_timer=False, with_proof=False, incr=False, **kw):
            self.clauses = []
            self.nv = 0
            self._model = None
            self._deleted = False
            MDpllSolver.instances.append(self)
            if bootstrap_with is not None:
                cls = bootstrap_with.clauses if hasattr(bootstrap_with, "clauses") else bootstrap_with
                for c in cls:
                    self.add_clause(c)

        def add_clause(self, clause, no_return=True):
            cl = list(clause)
            for l in cl:
                if not isinstance(l, int) or isinstance(l, bool) or l == 0:
                    raise ModelRaise("TypeError", f"non-literal {l!r} in clause")
                self.nv = max(self.nv, abs(l))
            self.clauses.append(cl)

        def append_formula(self, formula, no_return=True):
            for c in (formula.clauses if hasattr(formula, "clauses") else formula):
                self.add_clause(c)

        def nof_vars(self):
            return self.nv

        def nof_clauses(self):
            return len(self.clauses)

        def _dpll(self, clauses, assign):
            # unit propagation
            while True:
                unit = None
                new = []
                for c in clauses:
                    sat = False
                    rest = []
                    for l in c:
                        v = assign.get(abs(l))
                        if v is None:
                            rest.append(l)
                        elif v == (l > 0):
                            sat = True
                            break
                    if sat:
                        continue
                    if not rest:
                        return None
                    if len(rest) == 1 and unit is None:
                        unit = rest[0]
                    new.append(rest)
                clauses = new
                if unit is None:
                    break
                assign[abs(unit)] = unit > 0
            free = [v for v in range(1, self.nv + 1) if v not in assign]
            if not clauses:
                for v in free:
                    assign[v] = polarity
                return assign
            v = abs(clauses[0][0])
            for val in (polarity, not polarity):
                a2 = dict(assign)
                a2[v] = val
                r = self._dpll(clauses, a2)
                if r is not None:
                    return r
            return None

        def solve(self, assumptions=()):
            if self._deleted:
                raise ModelRaise("RuntimeError", "solver used after delete()")
            assign = {}
            for l in assumptions or ():
                if assign.get(abs(l), l > 0) != (l > 0):
                    self._model = None
                    return False
                assign[abs(l)] = l > 0
                self.nv = max(self.nv, abs(l))
            r = self._dpll([list(c) for c in self.clauses], assign)
            self._model = r
            return r is not None

        def get_model(self):
            if self._model is None:
                return None
            return [v if self._model[v] else -v for v in range(1, self.nv + 1)]

        def delete(self):
            self._deleted = True

        def __enter__(self):
            return self

        def __exit__(self, *a):
            self.delete()
            return False

    return MDpllSolver


SOLVER_NAMES = ("Cadical153", "Cadical", "Cadical103", "Cadical195", "Glucose3", "Glucose4", "Glucose42", "Minisat22", "MinisatGH", "Lingeling", "Solver")


def pipeline_package(repo, polarity, full_stack=False):
    P = Package(repo, full_stack=full_stack)
    cls = make_solver_class(polarity)
    # wherever the package imports the solver (sat.py today; a helper module after a refactoring) it gets the solver model
    P.import_overrides = {f"pysat.solvers.{nm}": cls for nm in SOLVER_NAMES}
    env = P.env("sat.py")
    imp = dict(env["__imports__"])
    imp.update(P.import_overrides)
    env["__imports__"] = imp
    return P


def consistent_valuations(c):
    """All valuations of all nodes in which every gate equals its function of its fan-in values (brute force)."""
    nodes = sorted(c.nodes())
    if len(nodes) > 14:
        raise ValueError("too many nodes to enumerate")
    types = {n: c.type(n) for n in nodes}
    fanin = {n: sorted(c.fanin(n)) for n in nodes}
    out = []
    for vals in itertools.product([False, True], repeat=len(nodes)):
        v = dict(zip(nodes, vals))
        ok = True
        for n in nodes:
            t = types[n]
            if t in ("input", "bb_output") or (t in ("buf", "not", "bb_input") and not fanin[n]):
                continue
            if v[n] != bool_gate("buf" if t == "bb_input" else t, [v[f] for f in fanin[n]]):
                ok = False
                break
        if ok:
            out.append(v)
    return out


def agrees(v, asm):
    return all(bool(v[k]) == bool(x) for k, x in (asm or {}).items())
