"""
Classes that the *evaluated code itself* defines (a private helper class, a dataclass / NamedTuple for intermediate
results, a namedtuple, a small state object) - evaluated from their `class` statement, with CPython's object model as far
as library-style code uses it: one function object per method (shared default values), instance attributes, class
attributes, @staticmethod / @classmethod / @property, single inheritance between such classes, the dunder protocols
(`__call__`, `__iter__`, `__len__`, `__getitem__`, `__contains__`, `__bool__`, `__eq__`, `__hash__`, `__enter__`/`__exit__`,
`__str__`/`__repr__`), dataclass field synthesis (defaults, default_factory, `__post_init__`, eq) and tuple behaviour
of NamedTuple / namedtuple instances (`_replace`, `_asdict`, `_fields`, `_make`, unpacking, indexing, equality with tuples).
Anything else (metaclasses, descriptors, `__getattr__` hooks, multiple inheritance) is `Unsupported`.
"""
import ast
import re

from .minieval import Model, ModelRaise, Unsupported

_MISSING = object()


class FieldSpec:
    def __init__(self, default=_MISSING, default_factory=_MISSING, init=True, kw_only=False):
        self.default = default
        self.default_factory = default_factory
        self.init = init
        self.kw_only = kw_only


def dataclass_field(*a, default=_MISSING, default_factory=_MISSING, init=True, kw_only=False, repr=True, metadata=None, **kw):
    if a or kw:  # compare= / hash= change the synthesised __eq__ / __hash__, which is not modelled
        raise Unsupported(f"dataclasses.field({', '.join(list(map(repr, a)) + sorted(kw))})")
    return FieldSpec(default, default_factory, bool(init), bool(kw_only))


def _field_in_init(default):
    return not (isinstance(default, FieldSpec) and not default.init)


class _Method:
    def __init__(self, kind, clo):
        self.kind = kind  # 'plain' | 'static' | 'class' | 'property'
        self.clo = clo


class UserClass(Model):
    _allow_private = True
    _serial = 0

    def __init__(self, name, bases, ns, kind="plain", fields=(), dc_opts=None):
        d = object.__getattribute__(self, "__dict__")
        # `fields`: (name, default) or (name, default, "initvar") - an InitVar is a parameter of the synthesised __init__ that is handed
        # to __post_init__ and never stored
        params = [(f[0], f[1], f[2] if len(f) > 2 else "field") for f in fields]
        d["_uc_name"], d["_uc_bases"], d["_uc_ns"], d["_uc_kind"], d["_uc_opts"] = name, [b for b in bases if isinstance(b, UserClass)], ns, kind, dc_opts or {}
        d["__name__"] = name
        for b in d["_uc_bases"]:
            if b._uc_kind != "plain" and kind in ("plain", b._uc_kind):
                d["_uc_kind"] = b._uc_kind
                own = {p_[0]: p_ for p_ in params}
                params = [own.pop(p_[0], p_) for p_ in b._uc_params] + [p_ for p_ in params if p_[0] in own]
        d["_uc_params"] = params
        d["_uc_fields"] = [(n_, dflt) for n_, dflt, k_ in params if k_ == "field"]

    def _uc_mro(self):
        """C3 linearisation, as CPython's (cooperative `super()` calls in a diamond depend on it)."""
        cached = object.__getattribute__(self, "__dict__").get("_uc_mro_cache")
        if cached is not None:
            return cached
        seqs = [list(b._uc_mro()) for b in self._uc_bases] + [list(self._uc_bases)]
        out = [self]
        while any(seqs):
            seqs = [s_ for s_ in seqs if s_]
            for s_ in seqs:
                head = s_[0]
                if not any(head in t_[1:] for t_ in seqs):
                    break
            else:
                raise ModelRaise("TypeError", f"Cannot create a consistent method resolution order (MRO) for bases of {self._uc_name}")
            out.append(head)
            for s_ in seqs:
                if s_ and s_[0] is head:
                    del s_[0]
        object.__getattribute__(self, "__dict__")["_uc_mro_cache"] = out
        return out

    def _uc_lookup(self, name):
        for c in self._uc_mro():
            if name in c._uc_ns:
                return c._uc_ns[name]
        return _MISSING

    def __setattr__(self, name, value):
        # `cls.attr = value` (in __init_subclass__, a class method, from outside): a class attribute, seen by the instances and the
        # classes derived from this one
        if name.startswith("_uc_") or name in ("__name__", "__qualname__", "__doc__"):
            object.__setattr__(self, name, value)
        elif hasattr(value, "_cg_fdef") and not isinstance(value, _Method):
            self._uc_ns[name] = _Method("plain", value)  # a function stored on the class is a method of its instances
        else:
            self._uc_ns[name] = value

    def __getattr__(self, name):
        if name.startswith("_uc_"):
            raise AttributeError(name)
        v = self._uc_lookup(name)
        if v is not _MISSING:
            if isinstance(v, _Method):
                if v.kind == "static":
                    return v.clo
                if v.kind == "class":
                    return lambda *a, **k: v.clo(self, *a, **k)
                return v.clo  # unbound function / property object accessed on the class
            return v
        if self._uc_kind == "namedtuple":
            if name == "_fields":
                return tuple(f[0] for f in self._uc_fields)
            if name == "_make":
                return lambda it: self(*list(it))
            if name == "_field_defaults":
                return {f[0]: f[1] for f in self._uc_fields if f[1] is not _MISSING}
        if name == "__name__" or name == "__qualname__":
            return self._uc_name
        raise AttributeError(name)

    def __call__(self, *args, **kwargs):
        inst = UserInstance(self)
        if self._uc_kind in ("namedtuple", "dataclass") and (self._uc_kind == "namedtuple" or self._uc_lookup("__init__") is _MISSING):
            kw_all = bool(self._uc_opts.get("kw_only"))
            init_params = [(n_, dflt, k_) for n_, dflt, k_ in self._uc_params if _field_in_init(dflt)]
            positional = [n_ for n_, dflt, k_ in init_params if not (kw_all or (isinstance(dflt, FieldSpec) and dflt.kw_only))]
            names = [n_ for n_, dflt, k_ in init_params]
            if len(args) > len(positional):
                raise ModelRaise("TypeError", f"{self._uc_name}() takes {len(positional)} positional arguments but {len(args)} were given")
            vals = dict(zip(positional, args))
            for k, v in kwargs.items():
                if k not in names:
                    raise ModelRaise("TypeError", f"{self._uc_name}() got an unexpected keyword argument '{k}'")
                if k in vals:
                    raise ModelRaise("TypeError", f"{self._uc_name}() got multiple values for argument '{k}'")
                vals[k] = v
            for nm, default, k_ in self._uc_params:
                if nm in vals:
                    continue
                if isinstance(default, FieldSpec):
                    if default.default_factory is not _MISSING:
                        vals[nm] = default.default_factory()
                    elif default.default is not _MISSING:
                        vals[nm] = default.default
                    elif default.init:
                        raise ModelRaise("TypeError", f"{self._uc_name}() missing required argument '{nm}'")
                elif default is not _MISSING:
                    vals[nm] = default
                else:
                    raise ModelRaise("TypeError", f"{self._uc_name}() missing required argument '{nm}'")
            d = object.__getattribute__(inst, "__dict__")
            for nm, default, k_ in self._uc_params:
                if k_ == "field" and nm in vals:  # a field(init=False) without a default stays unset until __post_init__ assigns it
                    d[nm] = vals[nm]
            post = self._uc_lookup("__post_init__")
            if self._uc_kind == "dataclass" and isinstance(post, _Method):
                post.clo(inst, *[vals[nm] for nm, default, k_ in self._uc_params if k_ == "initvar"])
            return inst
        init = self._uc_lookup("__init__")
        if isinstance(init, _Method):
            init.clo(inst, *args, **kwargs)
        elif args or kwargs:
            from .minieval import USER_EXC_PARENT

            if self._uc_name in USER_EXC_PARENT and not kwargs:
                object.__getattribute__(inst, "__dict__")["args"] = tuple(args)  # BaseException.__init__ keeps its arguments
                return inst
            raise ModelRaise("TypeError", f"{self._uc_name}() takes no arguments")
        return inst

    def __repr__(self):
        return f"<class {self._uc_name}>"

    def __hash__(self):
        return hash(("UserClass", self._uc_name))

    def __eq__(self, other):
        return self is other


def is_instance_of(obj, cls):
    return isinstance(obj, UserInstance) and cls in object.__getattribute__(obj, "__dict__")["_uc_class"]._uc_mro()


class SuperProxy(Model):
    """`super()` inside a method of a class defined by the evaluated code: attribute look-up continues after the defining class
    in the method resolution order of the object's class; a base class the evaluated code does not define (object, ABC, a library
    class) contributes a no-op `__init__` only."""

    _allow_private = True

    def __init__(self, defining, obj):
        d = object.__getattribute__(self, "__dict__")
        d["_sp_defining"], d["_sp_obj"] = defining, obj

    def __getattr__(self, name):
        d = object.__getattribute__(self, "__dict__")
        defining, obj = d["_sp_defining"], d["_sp_obj"]
        cls = obj if isinstance(obj, UserClass) else object.__getattribute__(obj, "__dict__")["_uc_class"]
        mro = cls._uc_mro()
        rest = mro[mro.index(defining) + 1:] if defining in mro else []
        for c in rest:
            if name in c._uc_ns:
                v = c._uc_ns[name]
                if isinstance(v, _Method):
                    if v.kind == "static":
                        return v.clo
                    if v.kind == "class":
                        return lambda *a, **k: v.clo(cls, *a, **k)
                    if v.kind == "property":
                        return v.clo(obj)
                    return lambda *a, **k: v.clo(obj, *a, **k)
                return v
        if name in ("__init__", "__init_subclass__", "__post_init__", "__set_name__"):
            return lambda *a, **k: None
        if name == "__repr__":
            return lambda: repr(obj)
        if name == "__eq__":
            return lambda other: obj is other
        if name == "__hash__":
            return lambda: id(obj)
        raise Unsupported(f"super().{name} reaches a base class the evaluated code does not define")


def apply_descriptor(v, obj, owner):
    """The descriptor protocol for a class attribute read through an instance: an object of the evaluated code whose class defines
    `__get__` answers for itself."""
    if isinstance(v, UserInstance):
        g = v._uc_special("__get__")
        if g is not None:
            return g.clo(v, obj, owner)
    return v


def call_set_name(ns, owner):
    """`__set_name__(owner, name)` of every descriptor object stored in a class body, once, when the class is created."""
    for name, v in list(ns.items()):
        if isinstance(v, UserInstance):
            m = v._uc_special("__set_name__")
            if m is not None:
                m.clo(v, owner, name)


class _UserIterator:
    """Python-side iterator over an iterator object of the evaluated code."""

    def __init__(self, inst):
        self._inst = inst

    def __iter__(self):
        return self

    def __next__(self):
        return self._inst.__next__()


class UserInstance(Model):
    _allow_private = True
    _serial = 0

    def __init__(self, cls):
        d = object.__getattribute__(self, "__dict__")
        d["_uc_class"] = cls
        UserInstance._serial += 1
        d["_uc_id"] = UserInstance._serial

    # -- attribute protocol ------------------------------------------------
    def __getattr__(self, name):
        d = object.__getattribute__(self, "__dict__")
        if name.startswith("_uc_"):
            raise AttributeError(name)
        cls = d["_uc_class"]
        v = cls._uc_lookup(name)
        if v is not _MISSING:
            if isinstance(v, _Method):
                if v.kind == "static":
                    return v.clo
                if v.kind == "class":
                    return lambda *a, **k: v.clo(cls, *a, **k)
                if v.kind == "property":
                    return v.clo(self)
                return lambda *a, **k: v.clo(self, *a, **k)
            if isinstance(v, FieldSpec):
                raise AttributeError(name)
            return apply_descriptor(v, self, cls)
        if cls._uc_kind == "namedtuple":
            if name == "_replace":
                return lambda **kw: cls(**{**{f[0]: d[f[0]] for f in cls._uc_fields if _field_in_init(f[1])}, **kw})
            if name == "_asdict":
                return lambda: {f[0]: d[f[0]] for f in cls._uc_fields}
            if name == "_fields":
                return tuple(f[0] for f in cls._uc_fields)
            if name in ("index", "count"):
                return getattr(self._uc_tuple(), name)
        if name == "__class__":
            return cls
        if name == "__dict__":
            return {k: v for k, v in d.items() if not k.startswith("_uc_")}
        raise AttributeError(name)

    def __setattr__(self, name, value):
        d = object.__getattribute__(self, "__dict__")
        cls = d["_uc_class"]
        if cls._uc_kind == "namedtuple" or cls._uc_opts.get("frozen"):
            raise ModelRaise("AttributeError", f"can't set attribute '{name}'")
        v = cls._uc_lookup(name)
        if isinstance(v, _Method) and v.kind == "property":
            if getattr(v, "setter", None) is None:
                raise ModelRaise("AttributeError", f"property '{name}' has no setter")
            v.setter(self, value)
            return
        d[name] = value

    def _uc_tuple(self):
        d = object.__getattribute__(self, "__dict__")
        return tuple(d[f[0]] for f in d["_uc_class"]._uc_fields)

    def _uc_special(self, name):
        v = object.__getattribute__(self, "__dict__")["_uc_class"]._uc_lookup(name)
        return v if isinstance(v, _Method) else None

    # -- dunder protocols ----------------------------------------------------
    def __call__(self, *a, **k):
        m = self._uc_special("__call__")
        if m is None:
            raise ModelRaise("TypeError", f"'{self._uc_class._uc_name}' object is not callable")
        return m.clo(self, *a, **k)

    def __iter__(self):
        m = self._uc_special("__iter__")
        if m is not None:
            r = m.clo(self)
            if isinstance(r, UserInstance) and r._uc_special("__next__") is not None:
                return _UserIterator(r)  # an iterator class of the evaluated code (`__iter__` returns self, `__next__` ends with StopIteration)
            return iter(r)
        if self._uc_class._uc_kind == "namedtuple":
            return iter(self._uc_tuple())
        raise TypeError(f"'{self._uc_class._uc_name}' object is not iterable")

    def __next__(self):
        m = self._uc_special("__next__")
        if m is None:
            raise TypeError(f"'{self._uc_class._uc_name}' object is not an iterator")
        try:
            return m.clo(self)
        except ModelRaise as e:
            from .minieval import exception_matches

            if exception_matches(e.raised_as, "StopIteration"):
                raise StopIteration(getattr(e, "value", None))
            raise

    def __len__(self):
        m = self._uc_special("__len__")
        if m is not None:
            return m.clo(self)
        if self._uc_class._uc_kind == "namedtuple":
            return len(self._uc_class._uc_fields)
        raise TypeError(f"object of type '{self._uc_class._uc_name}' has no len()")

    def __bool__(self):
        m = self._uc_special("__bool__")
        if m is not None:
            return bool(m.clo(self))
        if self._uc_special("__len__") is not None or self._uc_class._uc_kind == "namedtuple":
            return len(self) != 0
        return True

    def __getitem__(self, i):
        m = self._uc_special("__getitem__")
        if m is not None:
            return m.clo(self, i)
        if self._uc_class._uc_kind == "namedtuple":
            return self._uc_tuple()[i]
        raise TypeError(f"'{self._uc_class._uc_name}' object is not subscriptable")

    def __setitem__(self, i, v):
        m = self._uc_special("__setitem__")
        if m is None:
            raise TypeError(f"'{self._uc_class._uc_name}' object does not support item assignment")
        return m.clo(self, i, v)

    def __contains__(self, x):
        m = self._uc_special("__contains__")
        if m is not None:
            return bool(m.clo(self, x))
        return x in list(iter(self))

    def __enter__(self):
        m = self._uc_special("__enter__")
        return m.clo(self) if m is not None else self

    def __exit__(self, *a):
        m = self._uc_special("__exit__")
        return m.clo(self, *a) if m is not None else False

    def __eq__(self, other):
        m = self._uc_special("__eq__")
        if m is not None:
            return m.clo(self, other)
        cls = self._uc_class
        if cls._uc_kind == "namedtuple":
            if isinstance(other, UserInstance) and other._uc_class._uc_kind == "namedtuple":
                return self._uc_tuple() == other._uc_tuple()
            return isinstance(other, tuple) and self._uc_tuple() == other
        if cls._uc_kind == "dataclass" and cls._uc_opts.get("eq", True):
            return isinstance(other, UserInstance) and other._uc_class is cls and self._uc_tuple() == other._uc_tuple()
        return self is other

    def __ne__(self, other):
        return not self.__eq__(other)

    def __lt__(self, other):
        m = self._uc_special("__lt__")
        if m is not None:
            return m.clo(self, other)
        if self._uc_class._uc_kind == "namedtuple" or self._uc_class._uc_opts.get("order"):
            return self._uc_tuple() < (other._uc_tuple() if isinstance(other, UserInstance) else other)
        raise TypeError("'<' not supported")

    def __hash__(self):
        m = self._uc_special("__hash__")
        if m is not None:
            return m.clo(self)
        cls = self._uc_class
        if cls._uc_kind == "namedtuple" or (cls._uc_kind == "dataclass" and cls._uc_opts.get("frozen")):
            return hash(self._uc_tuple())
        if cls._uc_kind == "dataclass" and cls._uc_opts.get("eq", True) and not cls._uc_opts.get("unsafe_hash"):
            raise TypeError(f"unhashable type: '{cls._uc_name}'")
        return hash((self._uc_id * 104729 + 7) % 1000003)

    def __repr__(self):
        m = self._uc_special("__repr__")
        if m is not None:
            return m.clo(self)
        cls = self._uc_class
        if cls._uc_kind in ("namedtuple", "dataclass"):
            d = object.__getattribute__(self, "__dict__")
            return f"{cls._uc_name}(" + ", ".join(f"{f[0]}={d[f[0]]!r}" for f in cls._uc_fields) + ")"
        return f"<{cls._uc_name} object>"

    def __str__(self):
        m = self._uc_special("__str__")
        return m.clo(self) if m is not None else self.__repr__()


def _install_operator_dunders():
    """Operators on instances of evaluated classes go to the class's own special methods (`__neg__`, `__or__`, `__radd__` ...);
    without one the operation is not supported, as in CPython (a NamedTuple still concatenates / repeats like a tuple)."""
    def unary(name):
        def f(self):
            m = self._uc_special(name)
            if m is None:
                raise TypeError(f"bad operand type for unary {name}: '{self._uc_class._uc_name}'")
            return m.clo(self)

        f.__name__ = name
        return f

    def binary(name):
        def f(self, other):
            m = self._uc_special(name)
            if m is not None:
                return m.clo(self, other)
            if self._uc_class._uc_kind == "namedtuple" and name in ("__add__", "__mul__", "__rmul__"):
                o = other._uc_tuple() if isinstance(other, UserInstance) and other._uc_class._uc_kind == "namedtuple" else other
                return getattr(self._uc_tuple(), name)(o)
            if not name.startswith("__r") and isinstance(other, UserInstance) and other._uc_class is not self._uc_class:
                # (all evaluated instances share one Python type, so CPython's "try the reflected method of the other class" step is made here)
                rm = other._uc_special("__r" + name[2:])
                if rm is not None:
                    return rm.clo(other, self)
            return NotImplemented

        f.__name__ = name
        return f

    for nm in ("__neg__", "__pos__", "__invert__", "__abs__"):
        setattr(UserInstance, nm, unary(nm))

    def conversion(name, fallback=None):
        def f(self):
            m = self._uc_special(name) or (self._uc_special(fallback) if fallback else None)
            if m is None:
                raise TypeError(f"'{self._uc_class._uc_name}' object cannot be interpreted through {name}")
            return m.clo(self)

        f.__name__ = name
        return f

    UserInstance.__int__ = conversion("__int__", "__index__")
    UserInstance.__index__ = conversion("__index__")
    UserInstance.__float__ = conversion("__float__", "__index__")
    for base in ("add", "sub", "mul", "matmul", "truediv", "floordiv", "mod", "pow", "lshift", "rshift", "and", "or", "xor"):
        for nm in (f"__{base}__", f"__r{base}__"):
            setattr(UserInstance, nm, binary(nm))
    for nm in ("__le__", "__gt__", "__ge__"):
        if nm not in UserInstance.__dict__:
            def cmp(self, other, nm=nm):
                m = self._uc_special(nm)
                if m is not None:
                    return m.clo(self, other)
                if self._uc_class._uc_kind == "namedtuple" or self._uc_class._uc_opts.get("order"):
                    return getattr(self._uc_tuple(), nm)(other._uc_tuple() if isinstance(other, UserInstance) else other)
                return NotImplemented

            cmp.__name__ = nm
            setattr(UserInstance, nm, cmp)


_install_operator_dunders()


def namedtuple_factory(typename, field_names, *, rename=False, defaults=None, module=None):
    if isinstance(field_names, str):
        field_names = field_names.replace(",", " ").split()
    names = list(field_names)
    defs = list(defaults or [])
    fields = [(n, _MISSING) for n in names]
    for i, dv in enumerate(defs):
        fields[len(names) - len(defs) + i] = (names[len(names) - len(defs) + i], dv)
    return UserClass(typename, [], {}, kind="namedtuple", fields=fields)


class _NamedTupleBase:
    """Marker bound to `typing.NamedTuple` in evaluated modules."""


def build_class(cdef, interp):
    """Evaluate a `class` statement with the statement interpreter `interp` (a BlockInterp)."""
    from .minieval import BlockInterp

    if any(k.arg in (None, "metaclass") for k in cdef.keywords):
        raise Unsupported(f"class keywords (metaclass ...) on {cdef.name}")
    class_kwargs = {k.arg: interp.me.ev(k.value) for k in cdef.keywords}  # handed to __init_subclass__ of the bases
    bases = []
    kind = "plain"
    if len(cdef.bases) == 1 and ast.unparse(cdef.bases[0]) in ("dict", "list", "set") and ast.unparse(cdef.bases[0]) not in interp.me.env:
        return build_builtin_subclass(cdef, interp, {"dict": dict, "list": list, "set": set}[ast.unparse(cdef.bases[0])], class_kwargs)
    if len(cdef.bases) == 1 and isinstance(cdef.bases[0], ast.Name) and isinstance(interp.me.env.get(cdef.bases[0].id), type) and hasattr(interp.me.env[cdef.bases[0].id], "_cg_user_methods"):
        return build_builtin_subclass(cdef, interp, interp.me.env[cdef.bases[0].id], class_kwargs)  # a class over a container class of the evaluated code
    for b in cdef.bases:
        bname = ast.unparse(b).split(".")[-1]
        if bname == "NamedTuple":
            kind = "namedtuple"
            continue
        if bname in ("object", "Generic", "ABC", "Protocol"):
            continue
        if bname == "Transformer" and not isinstance(interp.me.env.get("Transformer"), UserClass):
            continue  # lark's Transformer: no state of its own; its driver (verilogmodel.drive_transformer) calls the callbacks
        if bname in ("Enum", "StrEnum", "IntEnum", "Flag"):
            if bname == "Flag":
                raise Unsupported("enum.Flag")
            if not (kind.startswith("enum:") and bname == "Enum"):
                kind = "enum:" + bname
            continue
        if bname == "str" and any(ast.unparse(x).split(".")[-1] == "Enum" for x in cdef.bases):
            kind = "enum:StrEnum"
            continue
        from .minieval import USER_EXC_PARENT, _EXC_PARENTS

        if bname in _EXC_PARENTS or bname in ("BaseException", "Warning", "UserWarning", "DeprecationWarning") or bname in USER_EXC_PARENT:
            USER_EXC_PARENT[cdef.name] = bname  # an exception class: `except <base>` catches it, "raises <base>" is satisfied by it
            continue
        try:
            bv = interp.me.ev(b)
        except Unsupported:
            raise Unsupported(f"base class {bname} of {cdef.name}")
        if not isinstance(bv, UserClass):
            raise Unsupported(f"base class {bname} of {cdef.name} is not a class defined by the evaluated code")
        bases.append(bv)
    dc_opts = {}
    user_class_decs = []
    for dec in cdef.decorator_list:
        dname = ast.unparse(dec.func if isinstance(dec, ast.Call) else dec).split(".")[-1]
        if dname == "dataclass":
            kind = "dataclass"
            if isinstance(dec, ast.Call):
                for kw in dec.keywords:
                    dc_opts[kw.arg] = interp.me.ev(kw.value)
        elif dname in ("total_ordering", "final", "runtime_checkable"):
            if dname == "total_ordering":
                dc_opts["order"] = dc_opts.get("order", False)
        else:
            user_class_decs.append(dec)  # a decorator the package defines: called with the finished class (below)
    # class body in its own scope over the enclosing one
    body_env = dict(interp.me.env)
    before = dict(body_env)
    bi = BlockInterp(body_env, max_steps=interp.max_steps)
    bi.me.env = body_env
    ns = {}
    fields = []
    for st in cdef.body:
        if isinstance(st, ast.Expr) and isinstance(st.value, ast.Constant):
            continue
        if isinstance(st, ast.Pass):
            continue
        if isinstance(st, ast.FunctionDef):
            decs = {ast.unparse(d).split(".")[-1].split("(")[0] for d in st.decorator_list}
            if len(st.decorator_list) == 1 and ast.unparse(st.decorator_list[0]) == f"{st.name}.setter" and isinstance(ns.get(st.name), _Method) and ns[st.name].kind == "property":
                # `@name.setter def name(self, value)`: the property gains its setter
                prop = _Method("property", ns[st.name].clo)
                prop.setter = interp.make_closure(st)
                ns[st.name] = prop
                continue
            known_ = {"staticmethod", "classmethod", "property", "lru_cache", "cache", "cached_property", "wraps", "abstractmethod", "override", "final"}
            unknown = decs - known_
            dnames_ = [ast.unparse(d).split("(")[0].split(".")[-1] for d in st.decorator_list]
            user_decs_ = [d for d, nm_ in zip(st.decorator_list, dnames_) if nm_ not in known_]
            if unknown and any(nm_ not in known_ for nm_ in dnames_[: len(dnames_) - len(user_decs_)]):
                raise Unsupported(f"decorator(s) {sorted(unknown)} on {cdef.name}.{st.name} (above a library decorator)")
            # methods resolve free names in the enclosing (module / function) scope, not in the class body
            clo = interp.make_closure(st)
            for dec_ in reversed(user_decs_):
                # a decorator the evaluated code defines itself (`@_guarded def build(self)`): applied to the plain function, innermost first
                try:
                    dv_ = bi.me.ev(dec_)
                except Unsupported as e_:
                    raise Unsupported(f"decorator {ast.unparse(dec_)[:40]} on {cdef.name}.{st.name}: {e_}")
                if not callable(dv_):
                    raise Unsupported(f"decorator {ast.unparse(dec_)[:40]} on {cdef.name}.{st.name}")
                clo = dv_(clo)
                if not callable(clo):
                    raise Unsupported(f"decorator {ast.unparse(dec_)[:40]} on {cdef.name}.{st.name} does not give a function")
            if decs & {"lru_cache", "cache"} and not decs & {"staticmethod", "classmethod"}:
                # functools.lru_cache on a method: results are remembered per (object, arguments)
                def _cached(inner, mname):
                    def call(self_, *a, **k):
                        store = object.__getattribute__(self_, "__dict__").setdefault("_uc_method_cache", {})
                        try:
                            key = (mname, a, tuple(sorted(k.items())))
                            hash(key)
                        except TypeError:
                            raise ModelRaise("TypeError", f"unhashable argument to the cached method {mname}")
                        if key not in store:
                            store[key] = inner(self_, *a, **k)
                        return store[key]
                    return call
                clo = _cached(clo, st.name)
            mk = "static" if "staticmethod" in decs else "class" if ("classmethod" in decs or st.name in ("__init_subclass__", "__class_getitem__")) else "property" if ("property" in decs or "cached_property" in decs) else "plain"
            ns[st.name] = _Method(mk, clo)
            body_env[st.name] = clo
            continue
        if isinstance(st, ast.AnnAssign) and isinstance(st.target, ast.Name):
            ann = ast.unparse(st.annotation)
            is_classvar = "ClassVar" in ann
            val = bi.me.ev(st.value) if st.value is not None else _MISSING
            if kind in ("namedtuple", "dataclass") and not is_classvar:
                fields.append((st.target.id, val, "initvar" if kind == "dataclass" and re.match(r"(dataclasses\.)?InitVar\b", ann) else "field"))
                if val is not _MISSING and not isinstance(val, FieldSpec):
                    ns[st.target.id] = val
            elif val is not _MISSING:
                ns[st.target.id] = val
                body_env[st.target.id] = val
            continue
        if isinstance(st, ast.Assign):
            r = bi.stmt(st)
            for k, v in body_env.items():
                if k not in before or before[k] is not v:
                    if k not in ns or not isinstance(ns[k], _Method):
                        # `encode_bb_output = encode_input`: a function bound to a second name in the class body is a method under that name too
                        own_method = next((m_ for m_ in ns.values() if isinstance(m_, _Method) and m_.clo is v), None)
                        ns[k] = own_method if own_method is not None else v
            before = dict(body_env)
            continue
        if isinstance(st, ast.ClassDef):
            ns[st.name] = build_class(st, bi)
            body_env[st.name] = ns[st.name]
            continue
        raise Unsupported(f"statement in class body of {cdef.name}: {ast.unparse(st)[:60]}")
    ns.pop("__slots__", None)
    if kind.startswith("enum:"):
        cls = build_enum(cdef.name, kind.split(":")[1], ns, bases)
        _set_defining_class(ns, cls)
        for dec in reversed(user_class_decs):
            cls = interp.me.ev(dec)(cls)
        return cls
    if "__getattr__" in ns or "__getattribute__" in ns or "__setattr__" in ns or "__new__" in ns:
        raise Unsupported(f"attribute hooks / __new__ in class {cdef.name}")
    cls = UserClass(cdef.name, bases, ns, kind=kind, fields=fields, dc_opts=dc_opts)
    _set_defining_class(ns, cls)
    call_set_name(ns, cls)
    # the class has been created: its bases are told (registration hooks: `class _And(_Encoding, types=("and",))`)
    hook = _MISSING
    for b_ in cls._uc_mro()[1:]:
        if "__init_subclass__" in b_._uc_ns:
            hook = b_._uc_ns["__init_subclass__"]
            break
    if isinstance(hook, _Method):
        hook.clo(cls, **class_kwargs)
    elif class_kwargs:
        raise ModelRaise("TypeError", f"{cdef.name}.__init_subclass__() takes no keyword arguments")
    # `@register("and") class Rule: ...`: decorators of the package run with the finished class, innermost first; the name is bound
    # to what the outermost returns
    for dec in reversed(user_class_decs):
        fn = interp.me.ev(dec)
        if not callable(fn):
            raise Unsupported(f"class decorator {ast.unparse(dec)[:50]} on {cdef.name} is not callable in the evaluator")
        cls = fn(cls)
    return cls


def _set_defining_class(ns, cls):
    """`super()` / `__class__` inside a method refer to the class whose body defines the method."""
    for v in ns.values():
        if isinstance(v, _Method):
            f = v.clo
            for _ in range(4):  # through the wrappers of cached methods
                if hasattr(f, "_cg_fdef"):
                    f._cg_defining_class = cls
                    break
                f = getattr(f, "__wrapped__", None) or (f.__closure__[0].cell_contents if getattr(f, "__closure__", None) else None)
                if f is None or not callable(f):
                    break
            if getattr(v, "setter", None) is not None and hasattr(v.setter, "_cg_fdef"):
                v.setter._cg_defining_class = cls


def build_builtin_subclass(cdef, interp, base, class_kwargs=None):
    """`class Aliases(dict): def __missing__(self, k): ...` - a container class over a builtin one (or over another such class): a
    real subclass of the builtin whose methods are the evaluated ones (CPython's own container then calls __missing__ / the
    overridden protocol methods, runs `__init_subclass__` with the class keywords, resolves `super()` and properties)."""
    if cdef.decorator_list:
        raise Unsupported(f"class decorator on {cdef.name}")
    ns = {"__slots__": ()}
    user = set()
    closures = []
    for st in cdef.body:
        if isinstance(st, (ast.Pass,)) or (isinstance(st, ast.Expr) and isinstance(st.value, ast.Constant)):
            continue
        if isinstance(st, ast.Assign) and len(st.targets) == 1 and isinstance(st.targets[0], ast.Name) and st.targets[0].id == "__slots__":
            continue
        if isinstance(st, ast.FunctionDef) and st.name not in ("__new__", "__getattr__", "__getattribute__", "__setattr__", "__init__"):
            decs = {ast.unparse(d).split(".")[-1].split("(")[0] for d in st.decorator_list}
            if decs - {"staticmethod", "classmethod", "property", "override", "final", "abstractmethod"}:
                raise Unsupported(f"decorator(s) {sorted(decs)} on {cdef.name}.{st.name}")
            clo = interp.make_closure(st)
            closures.append(clo)
            plain = (lambda c: (lambda self, *a, **k: c(self, *a, **k)))(clo)
            if st.name == "__missing__":
                # called by the container's own lookup (`d[k]`, `str.translate(d)`), which understands CPython's LookupError: a
                # KeyError / IndexError raised by the evaluated body crosses that boundary as the real exception
                def plain(self, *a, _c=clo, **k):
                    from .minieval import exception_matches
                    try:
                        return _c(self, *a, **k)
                    except ModelRaise as mr:
                        for real_ in (KeyError, IndexError):
                            if exception_matches(getattr(mr, "raised_as", mr.kind), real_.__name__):
                                raise real_(*a) from mr
                        raise
            if "staticmethod" in decs:
                ns[st.name] = staticmethod((lambda c: (lambda *a, **k: c(*a, **k)))(clo))
            elif "classmethod" in decs or st.name in ("__init_subclass__", "__class_getitem__"):
                ns[st.name] = classmethod(plain)
            elif "property" in decs:
                ns[st.name] = property(plain)
            else:
                ns[st.name] = plain
            user.add(st.name)
            continue
        if isinstance(st, (ast.Assign, ast.AnnAssign)):
            tgt = st.targets[0] if isinstance(st, ast.Assign) and len(st.targets) == 1 else st.target if isinstance(st, ast.AnnAssign) else None
            if isinstance(tgt, ast.Name):
                if st.value is not None:
                    ns[tgt.id] = interp.me.ev(st.value)
                    user.add(tgt.id)
                continue
        raise Unsupported(f"statement in the body of {cdef.name}({base.__name__}): {ast.unparse(st)[:60]}")
    ns["_cg_user_methods"] = frozenset(user | set(getattr(base, "_cg_user_methods", ())))
    try:
        cls = type(cdef.name, (base,), ns, **(class_kwargs or {}))
    except TypeError as e:
        raise ModelRaise("TypeError", f"class {cdef.name}: {e}")
    for clo in closures:
        clo._cg_defining_class = cls  # `super()` inside the methods: CPython's own super over the real class
    return cls


class EnumMember(UserInstance):
    """A member of an Enum class defined by the evaluated code: `.name`, `.value`, identity semantics; members of a StrEnum /
    (str, Enum) / IntEnum also compare and hash like their value."""

    def __init__(self, cls, name, value, mix):
        super().__init__(cls)
        d = object.__getattribute__(self, "__dict__")
        d["name"], d["value"], d["_uc_mix"] = name, value, mix

    def __setattr__(self, k, v):
        raise ModelRaise("AttributeError", "cannot reassign an enum member attribute")

    def __eq__(self, other):
        if isinstance(other, EnumMember):
            return self is other
        return self._uc_mix and other == self.value

    def __ne__(self, other):
        return not self.__eq__(other)

    def __hash__(self):
        return hash(self.value) if self._uc_mix else hash(("enum", self._uc_class._uc_name, self.name))

    def __str__(self):
        m = self._uc_special("__str__")
        if m is not None:
            return m.clo(self)
        return str(self.value) if self._uc_mix == "str" else f"{self._uc_class._uc_name}.{self.name}"

    def __repr__(self):
        return f"<{self._uc_class._uc_name}.{self.name}: {self.value!r}>"

    def __bool__(self):
        return True

    def __iter__(self):
        if self._uc_mix == "str":
            return iter(self.value)
        raise TypeError("enum member is not iterable")

    def __len__(self):
        if self._uc_mix == "str":
            return len(self.value)
        raise TypeError("enum member has no len()")

    def __contains__(self, x):
        if self._uc_mix == "str":
            return x in self.value
        raise TypeError("enum member is not a container")

    def __lt__(self, other):
        if self._uc_mix:
            return self.value < (other.value if isinstance(other, EnumMember) else other)
        raise TypeError("'<' not supported between enum members")


class EnumClass(UserClass):
    def __call__(self, value):
        for m in self._uc_members:
            if m.value == value:
                return m
        raise ModelRaise("ValueError", f"{value!r} is not a valid {self._uc_name}")

    def __iter__(self):
        return iter(list(self._uc_members))

    def __len__(self):
        return len(self._uc_members)

    def __contains__(self, x):
        return any(m is x or (m._uc_mix and m.value == x) for m in self._uc_members)

    def __getitem__(self, name):
        for m in self._uc_members:
            if m.name == name:
                return m
        al = object.__getattribute__(self, "__dict__").get("_uc_aliases", {})
        try:
            if name in al:
                return al[name]
        except TypeError:
            pass
        raise ModelRaise("KeyError", repr(name))

    def __getattr__(self, name):
        d = object.__getattribute__(self, "__dict__")
        for m in d.get("_uc_members", ()):
            if m.name == name:
                return m
        if name in d.get("_uc_aliases", {}):
            return d["_uc_aliases"][name]
        if name == "__members__":
            return {**{m.name: m for m in d.get("_uc_members", ())}, **d.get("_uc_aliases", {})}
        return UserClass.__getattr__(self, name)


def build_enum(name, flavour, ns, bases):
    methods = {k: v for k, v in ns.items() if isinstance(v, _Method)}
    cls = EnumClass(name, bases, methods, kind="plain")
    mix = "str" if flavour == "StrEnum" else "int" if flavour == "IntEnum" else None
    members = []
    aliases = {}
    auto_n = [0]
    for k, v in ns.items():
        if isinstance(v, _Method) or k.startswith("_"):
            continue
        if v is AUTO:
            auto_n[0] += 1
            v = k.lower() if mix == "str" else auto_n[0]
        first = next((m for m in members if m.value == v), None)
        if first is not None:
            aliases[k] = first  # a second name for the same value is an alias of the first member
            continue
        members.append(EnumMember(cls, k, v, mix))
    d = object.__getattribute__(cls, "__dict__")
    d["_uc_members"] = members
    d["_uc_aliases"] = aliases
    return cls


class EnumBase:
    """`enum.Enum` / `StrEnum` / `IntEnum` as a value: a base class name in `class` statements (recognised there by name) and the
    functional API `Enum("Name", names)` with names a mapping, a sequence of names or pairs, or a string of names."""

    def __init__(self, flavour):
        self._flavour = flavour
        self.__name__ = flavour

    def __call__(self, name, names=None, **kw):
        if names is None:
            raise Unsupported(f"{self._flavour}(value) on the base class")
        if isinstance(names, str):
            names = names.replace(",", " ").split()
        if isinstance(names, dict):
            items = list(names.items())
        else:
            items = []
            for i, x in enumerate(names):
                items.append((x[0], x[1]) if isinstance(x, (tuple, list)) else (x, x.lower() if self._flavour == "StrEnum" else i + kw.get("start", 1)))
        return build_enum(name, self._flavour, dict(items), ())


AUTO = object()
