"""
Reference model of the data structures the package manipulates: a small DiGraph
(the subset of the networkx API the package uses) and a Circuit with the
*documented* semantics.  Rule modules evaluate repository function bodies over
these model objects (never over real circuitgraph/networkx objects) and compare
the resulting model netlists with reference semantics.
"""
import itertools

from .gates import bool_gate
from .minieval import Model, ModelRaise, Unsupported
from .typetables import NO_FANIN, NO_FANOUT, SINGLE_FANIN

SUPPORTED = ["buf", "and", "or", "xor", "not", "nand", "nor", "xnor", "0", "1", "x", "input", "bb_input", "bb_output"]
ADDABLE = SUPPORTED[:12]


class AttrView(Model):
    """G.nodes : mapping node -> attribute dict; callable like G.nodes(data=True)."""

    def __init__(self, g):
        self._g = g

    def __getitem__(self, n):
        if n not in self._g._node:
            raise ModelRaise("KeyError", f"node {n!r}")
        return self._g._node[n]

    def __contains__(self, n):
        try:
            return n in self._g._node
        except TypeError:
            return False

    def __iter__(self):
        return iter(list(self._g._node))

    def __len__(self):
        return len(self._g._node)

    def __call__(self, data=False, default=None):
        if data is True:
            return [(n, self._g._node[n]) for n in self._g._node]
        if data:
            return [(n, self._g._node[n].get(data, default)) for n in self._g._node]
        return list(self._g._node)

    def data(self, key=None, default=None):
        return [(n, self._g._node[n] if key is None or key is True else self._g._node[n].get(key, default)) for n in self._g._node]

    def items(self):
        return [(n, self._g._node[n]) for n in self._g._node]

    def keys(self):
        return list(self._g._node)

    def values(self):
        return [self._g._node[n] for n in self._g._node]

    def get(self, n, default=None):
        return self._g._node.get(n, default)

    # networkx's NodeView is a collections.abc.Set over the node names
    def isdisjoint(self, other):
        return set(self._g._node).isdisjoint(other)

    def __and__(self, other):
        return set(self._g._node) & set(other)

    __rand__ = __and__

    def __or__(self, other):
        return set(self._g._node) | set(other)

    __ror__ = __or__

    def __sub__(self, other):
        return set(self._g._node) - set(other)

    def __rsub__(self, other):
        return set(other) - set(self._g._node)

    def __xor__(self, other):
        return set(self._g._node) ^ set(other)

    __rxor__ = __xor__

    def __le__(self, other):
        return set(self._g._node) <= set(other)

    def __lt__(self, other):
        return set(self._g._node) < set(other)

    def __ge__(self, other):
        return set(self._g._node) >= set(other)

    def __gt__(self, other):
        return set(self._g._node) > set(other)


class EdgeView(Model):
    def __init__(self, g):
        self._g = g

    def __iter__(self):
        return iter([(u, v) for u in self._g._succ for v in self._g._succ[u]])

    def __len__(self):
        return sum(len(s) for s in self._g._succ.values())

    def __contains__(self, e):
        u, v = e
        return u in self._g._succ and v in self._g._succ[u]

    def __call__(self, *a, **k):
        return list(iter(self))


class NbrView(Model):
    """Live view of one node's neighbours (networkx AtlasView): G.succ[n], G.pred[n], G[n]."""

    def __init__(self, g, which, n):
        self._g, self._which, self._n = g, which, n

    def _d(self):
        d = getattr(self._g, self._which)
        if self._n not in d:
            raise ModelRaise("KeyError", f"node {self._n!r}")
        return d[self._n]

    def __len__(self):
        return len(self._d())

    def __iter__(self):
        return iter(list(self._d()))

    def __contains__(self, x):
        return x in self._d()

    def __getitem__(self, x):
        if x not in self._d():
            raise ModelRaise("KeyError", f"edge to {x!r}")
        return {}

    def keys(self):
        return list(self._d())

    def items(self):
        return [(k, {}) for k in self._d()]

    def values(self):
        return [{} for _ in self._d()]

    def __bool__(self):
        return bool(self._d())


class AdjView(Model):
    """Live view G.succ / G.pred / G.adj."""

    def __init__(self, g, which):
        self._g, self._which = g, which

    def __getitem__(self, n):
        if n not in self._g._node:
            raise ModelRaise("KeyError", f"node {n!r}")
        return NbrView(self._g, self._which, n)

    def __contains__(self, n):
        return n in self._g._node

    def __iter__(self):
        return iter(list(self._g._node))

    def __len__(self):
        return len(self._g._node)

    def keys(self):
        return list(self._g._node)

    def items(self):
        return [(n, NbrView(self._g, self._which, n)) for n in self._g._node]


class MDiGraph(Model):
    def __init__(self, incoming=None):
        self._node = {}
        self._succ = {}
        self._pred = {}
        self.graph = {}
        self._log = []
        if isinstance(incoming, MDiGraph):
            self._copy_from(incoming)

    def _copy_from(self, o):
        for n, a in o._node.items():
            self._node[n] = dict(a)
            self._succ[n] = dict.fromkeys(o._succ[n])
            self._pred[n] = dict.fromkeys(o._pred[n])

    # views
    @property
    def nodes(self):
        return AttrView(self)

    @property
    def edges(self):
        return EdgeView(self)

    @property
    def pred(self):
        return AdjView(self, "_pred")

    @property
    def succ(self):
        return AdjView(self, "_succ")

    @property
    def adj(self):
        return AdjView(self, "_succ")

    def __contains__(self, n):
        try:
            return n in self._node
        except TypeError:
            return False

    def __iter__(self):
        return iter(list(self._node))

    def __len__(self):
        return len(self._node)

    def __getitem__(self, n):
        if n not in self._node:
            raise ModelRaise("KeyError", f"node {n!r}")
        return NbrView(self, "_succ", n)

    def number_of_nodes(self):
        return len(self._node)

    def number_of_edges(self):
        return sum(len(s) for s in self._succ.values())

    def has_node(self, n):
        return n in self._node

    def has_edge(self, u, v):
        return u in self._succ and v in self._succ[u]

    # mutation
    def add_node(self, n, **attr):
        try:
            hash(n)
        except TypeError:
            raise ModelRaise("TypeError", "unhashable node")
        self._log.append(("add_node", n))
        if n not in self._node:
            self._node[n] = {}
            self._succ[n] = {}
            self._pred[n] = {}
        self._node[n].update(attr)

    def add_nodes_from(self, ns, **attr):
        for n in list(ns):
            if isinstance(n, tuple) and len(n) == 2 and isinstance(n[1], dict):
                d = dict(attr)
                d.update(n[1])
                self.add_node(n[0], **d)
            else:
                self.add_node(n, **attr)

    def add_edge(self, u, v, **attr):
        for n in (u, v):
            if n not in self._node:
                self._node[n] = {}
                self._succ[n] = {}
                self._pred[n] = {}
        self._log.append(("add_edge", u, v))
        self._succ[u][v] = None
        self._pred[v][u] = None

    def add_edges_from(self, es, **attr):
        # networkx adds each edge as the iterable produces it: a generator that checks (and raises) between two edges leaves the
        # earlier ones in the graph
        for e in (es if not isinstance(es, dict) and hasattr(es, "__next__") else list(es)):
            self.add_edge(e[0], e[1])

    def remove_node(self, n):
        if n not in self._node:
            raise ModelRaise("NetworkXError", f"node {n!r} not in graph")
        self._log.append(("remove_node", n))
        for v in list(self._succ[n]):
            del self._pred[v][n]
        for u in list(self._pred[n]):
            del self._succ[u][n]
        del self._node[n], self._succ[n], self._pred[n]

    def remove_nodes_from(self, ns):
        for n in list(ns):
            if n in self._node:
                self.remove_node(n)

    def remove_edge(self, u, v):
        if not self.has_edge(u, v):
            raise ModelRaise("NetworkXError", f"edge {u}-{v} not in graph")
        self._log.append(("remove_edge", u, v))
        del self._succ[u][v]
        del self._pred[v][u]

    def remove_edges_from(self, es):
        for e in list(es):
            if self.has_edge(e[0], e[1]):
                self.remove_edge(e[0], e[1])

    def update(self, edges=None, nodes=None):
        if isinstance(edges, MDiGraph) and nodes is None:
            o = edges
            for n, a in o._node.items():
                self.add_node(n, **a)
            for u, v in o.edges:
                self.add_edge(u, v)
            return
        if nodes is not None:
            self.add_nodes_from(nodes)
        if edges is not None:
            self.add_edges_from(edges)

    def clear(self):
        self._node.clear()
        self._succ.clear()
        self._pred.clear()

    # queries
    def predecessors(self, n):
        if n not in self._node:
            raise ModelRaise("NetworkXError", f"node {n!r} not in graph")
        return iter(list(self._pred[n]))

    def successors(self, n):
        if n not in self._node:
            raise ModelRaise("NetworkXError", f"node {n!r} not in graph")
        return iter(list(self._succ[n]))

    neighbors = successors

    def in_degree(self, n=None):
        if n is None:
            return [(m, len(self._pred[m])) for m in self._node]
        return len(self._pred[n])

    def out_degree(self, n=None):
        if n is None:
            return [(m, len(self._succ[m])) for m in self._node]
        return len(self._succ[n])

    def in_edges(self, n=None):
        ns = [n] if n is not None and n in self._node else list(self._node)
        return [(u, v) for v in ns for u in self._pred[v]]

    def out_edges(self, n=None):
        ns = [n] if n is not None and n in self._node else list(self._node)
        return [(u, v) for u in ns for v in self._succ[u]]

    def copy(self):
        return MDiGraph(self)

    def subgraph(self, ns):
        keep = set(ns)
        g = MDiGraph()
        for n in self._node:
            if n in keep:
                g._node[n] = self._node[n]  # a view shares attribute dicts
                g._succ[n] = {}
                g._pred[n] = {}
        for u, v in self.edges:
            if u in keep and v in keep:
                g._succ[u][v] = None
                g._pred[v][u] = None
        g._is_view = True
        return g

    def reverse(self, copy=True):
        g = MDiGraph()
        for n, a in self._node.items():
            g.add_node(n, **a)
        for u, v in self.edges:
            g.add_edge(v, u)
        return g

    # helpers for oracles
    def ancestors(self, n):
        seen, stack = set(), [n]
        while stack:
            x = stack.pop()
            for p in self._pred[x]:
                if p not in seen:
                    seen.add(p)
                    stack.append(p)
        seen.discard(n)
        return seen

    def descendants(self, n):
        seen, stack = set(), [n]
        while stack:
            x = stack.pop()
            for p in self._succ[x]:
                if p not in seen:
                    seen.add(p)
                    stack.append(p)
        seen.discard(n)
        return seen

    def is_dag(self):
        indeg = {n: len(self._pred[n]) for n in self._node}
        q = [n for n, d in indeg.items() if d == 0]
        cnt = 0
        while q:
            x = q.pop()
            cnt += 1
            for v in self._succ[x]:
                indeg[v] -= 1
                if indeg[v] == 0:
                    q.append(v)
        return cnt == len(self._node)

    def topo(self):
        indeg = {n: len(self._pred[n]) for n in self._node}
        q = [n for n, d in indeg.items() if d == 0]
        out = []
        while q:
            x = q.pop(0)
            out.append(x)
            for v in self._succ[x]:
                indeg[v] -= 1
                if indeg[v] == 0:
                    q.append(v)
        if len(out) != len(self._node):
            raise ModelRaise("NetworkXUnfeasible", "graph has a cycle")
        return out


class MNx(Model):
    """The subset of the networkx module API used by the package, over MDiGraph."""

    class NetworkXNoCycle(Exception):
        pass

    def DiGraph(self, incoming=None):
        return MDiGraph(incoming)

    def ancestors(self, g, n):
        if n not in g:
            raise ModelRaise("NetworkXError", f"node {n!r}")
        s = g.ancestors(n)
        s.discard(n)
        return s

    def descendants(self, g, n):
        if n not in g:
            raise ModelRaise("NetworkXError", f"node {n!r}")
        s = g.descendants(n)
        s.discard(n)
        return s

    def is_directed_acyclic_graph(self, g):
        return g.is_dag()

    def bfs_layers(self, g, sources):
        """networkx.bfs_layers: the nodes at distance 0, 1, 2 ... from the sources (shortest distances, each node once)."""
        if sources in g._node if isinstance(sources, (str, int, tuple)) else False:
            sources = [sources]
        current = list(dict.fromkeys(sources))
        for n in current:
            if n not in g._node:
                raise ModelRaise("NetworkXError", f"The node {n} is not in the graph.")
        seen = set(current)
        while current:
            yield list(current)
            nxt = []
            for n in current:
                for v in g._succ[n]:
                    if v not in seen:
                        seen.add(v)
                        nxt.append(v)
            current = nxt

    def topological_sort(self, g):
        """A generator, as in networkx: the acyclic prefix is yielded before NetworkXUnfeasible is raised for a graph with a
        cycle (code that wraps the iteration in try/except has already consumed those nodes)."""
        indeg = {n: len(g._pred[n]) for n in g._node}
        q = [n for n, d in indeg.items() if d == 0]
        done = 0
        while q:
            x = q.pop(0)
            done += 1
            yield x
            for v in g._succ[x]:
                indeg[v] -= 1
                if indeg[v] == 0:
                    q.append(v)
        if done != len(indeg):
            raise ModelRaise("NetworkXUnfeasible", "Graph contains a cycle or graph changed during iteration")

    def set_node_attributes(self, g, values, name=None):
        if name is not None:
            items = values.items() if isinstance(values, dict) else [(n, values) for n in g._node]
            for n, v in items:
                if n in g._node:
                    g._node[n][name] = v
        else:
            for n, d in values.items():
                if n in g._node:
                    g._node[n].update(d)

    def get_node_attributes(self, g, name, default=None):
        return {n: a[name] for n, a in g._node.items() if name in a} if default is None else {n: a.get(name, default) for n, a in g._node.items()}

    def relabel_nodes(self, g, mapping, copy=True):
        if callable(mapping) and not isinstance(mapping, dict):
            mapping = {n: mapping(n) for n in g}
        h = MDiGraph()
        for n, a in g._node.items():
            m = mapping.get(n, n)
            if m in h._node:
                h._node[m].update(a)
            else:
                h.add_node(m, **a)
        for u, v in g.edges:
            h.add_edge(mapping.get(u, u), mapping.get(v, v))
        if copy:
            return h
        g._node, g._succ, g._pred = h._node, h._succ, h._pred
        g._log.append(("relabel_in_place", dict(mapping)))
        return g

    def all_simple_paths(self, g, source, target, cutoff=None):
        out = []

        def rec(path):
            x = path[-1]
            if cutoff is not None and len(path) - 1 >= cutoff and x != target:
                return
            for v in g._succ[x]:
                if v == target:
                    out.append(path + [v])
                elif v not in path:
                    if cutoff is None or len(path) < cutoff:
                        rec(path + [v])

        if source in g and target in g:
            rec([source])
        return iter(out)

    def has_path(self, g, source, target):
        if source not in g or target not in g:
            raise ModelRaise("NodeNotFound", f"{source} / {target}")
        return source == target or target in g.descendants(source)

    def strongly_connected_components(self, g):
        seen = set()
        out = []
        for n in list(g._node):
            if n in seen:
                continue
            comp = {n} | (g.descendants(n) & g.ancestors(n))
            seen |= comp
            out.append(comp)
        return iter(out)

    def simple_cycles(self, g):
        cycles = []
        nodes = sorted(g._node, key=str)
        for i, s in enumerate(nodes):
            allowed = set(nodes[i:])

            def dfs(path):
                x = path[-1]
                for v in g._succ[x]:
                    if v == s:
                        cycles.append(list(path))
                    elif v in allowed and v not in path:
                        dfs(path + [v])

            dfs([s])
        return iter(cycles)

    def dfs_preorder_nodes(self, g, source=None):
        out, stack = [], [source] if source is not None else list(g._node)
        seen = set()
        while stack:
            x = stack.pop()
            if x in seen:
                continue
            seen.add(x)
            out.append(x)
            stack.extend(reversed(list(g._succ[x])))
        return iter(out)

    def weakly_connected_components(self, g):
        seen = set()
        for n in list(g._node):
            if n in seen:
                continue
            comp, stack = set(), [n]
            while stack:
                x = stack.pop()
                if x in comp:
                    continue
                comp.add(x)
                stack.extend(y for y in list(g._succ[x]) + list(g._pred[x]) if y not in comp)
            seen |= comp
            yield comp

    def number_weakly_connected_components(self, g):
        return len(list(self.weakly_connected_components(g)))

    def is_weakly_connected(self, g):
        if not g._node:
            raise ModelRaise("NetworkXPointlessConcept", "Connectivity is undefined for the null graph.")
        return self.number_weakly_connected_components(g) == 1

    def find_cycle(self, g, source=None, orientation=None):
        """networkx.find_cycle: a cycle among the nodes reachable from `source` (a node, an iterable of nodes, or None =
        every node), as a list of edges; NetworkXNoCycle when there is none *there* - a cycle no source reaches is not found."""
        if orientation not in (None, "original"):
            raise Unsupported(f"find_cycle orientation={orientation!r}")
        if source is None:
            starts = list(g._node)
        elif isinstance(source, (str, tuple)) and source in g._node:
            starts = [source]
        else:
            starts = [n for n in source if n in g._node]
        for st in starts:
            reach = {st} | g.descendants(st)
            for x in sorted(reach, key=str):
                if x in g._succ[x]:
                    return [(x, x)]
                # shortest path x -> ... -> x inside reach
                prev = {}
                frontier = [x]
                found = None
                while frontier and found is None:
                    nxt = []
                    for u in frontier:
                        for v in g._succ[u]:
                            if v == x:
                                found = u
                                break
                            if v not in prev and v != x:
                                prev[v] = u
                                nxt.append(v)
                        if found is not None:
                            break
                    frontier = nxt
                if found is not None:
                    path = [found]
                    while path[-1] != x:
                        path.append(prev[path[-1]])
                    path.reverse()
                    return list(zip(path, path[1:] + [x]))
        raise ModelRaise("NetworkXNoCycle", "No cycle found.")

    def immediate_dominators(self, g, start):
        # dominators by the iterative definition on the reachable subgraph
        if start not in g:
            raise ModelRaise("NetworkXError", "start not in G")
        reach = {start} | g.descendants(start)
        dom = {n: set(reach) for n in reach}
        dom[start] = {start}
        changed = True
        while changed:
            changed = False
            for n in reach - {start}:
                preds = [p for p in g._pred[n] if p in reach]
                new = set.intersection(*[dom[p] for p in preds]) | {n} if preds else {n}
                if new != dom[n]:
                    dom[n] = new
                    changed = True
        idom = {}
        for n in reach - {start}:
            strict = dom[n] - {n}
            for d in strict:
                if all(o in dom[d] for o in strict):
                    idom[n] = d
        return idom  # networkx >= 3.x: the start node is not a key


class RefBlackBox(Model):
    def __init__(self, name=None, inputs=None, outputs=None):
        self.name = name
        self.input_set = set(inputs or [])
        self.output_set = set(outputs or [])

    def inputs(self):
        return self.input_set

    def outputs(self):
        return self.output_set

    def io(self):
        return self.output_set | self.input_set


class RefCircuit(Model):
    """Circuit with the documented semantics, over MDiGraph."""

    _salt = 0
    _serial = 0

    def __hash__(self):
        # identity hash, but deterministic: (salt, creation serial).  Rules that want to explore the
        # iteration orders of sets of circuits re-run with different salts.
        return hash((RefCircuit._salt * 7919 + self._id * 104729) % 1000003)

    def __eq__(self, other):
        return self is other

    def __init__(self, name=None, graph=None, blackboxes=None):
        RefCircuit._serial += 1
        self._id = RefCircuit._serial
        self.name = name if name else "circuit"
        self.graph = graph if graph else MDiGraph()
        self.blackboxes = blackboxes if blackboxes else {}

    # containers
    def __contains__(self, n):
        return n in self.graph

    def __len__(self):
        return len(self.graph)

    def __iter__(self):
        return iter(self.graph)

    def copy(self):
        return RefCircuit(graph=self.graph.copy(), name=self.name, blackboxes=dict(self.blackboxes))

    # types
    def set_type(self, ns, t):
        if t not in ADDABLE:
            raise ModelRaise("ValueError", f"unsupported type {t}")
        for n in [ns] if isinstance(ns, str) else list(ns):
            self.graph.nodes[n]["type"] = t

    def type(self, ns):
        if isinstance(ns, str):
            if ns not in self.graph:
                raise ModelRaise("KeyError", f"Node {ns} does not exist.")
            if "type" not in self.graph._node[ns]:
                raise ModelRaise("KeyError", f"Node {ns} does not have a type defined.")
            return self.graph._node[ns]["type"]
        return [self.type(n) for n in ns]

    def filter_type(self, types):
        if isinstance(types, str):
            types = [types]
        for t in types:
            if t not in SUPPORTED:
                raise ModelRaise("ValueError", f"type {t} not supported.")
        return {n for n in self.graph._node if self.graph._node[n].get("type") in types}

    def nodes(self):
        return set(self.graph._node)

    def edges(self):
        return set(self.graph.edges)

    def _l(self, x):
        if x is None:
            return []
        return [x] if isinstance(x, str) else list(x)

    def add(self, n, node_type, fanin=None, fanout=None, output=False, add_connected_nodes=False, allow_redefinition=False, uid=False):
        if uid:
            n = self.uid(n)
        elif n in self and not allow_redefinition:
            raise ModelRaise("ValueError", f"Node '{n}' already in circuit")
        fanin, fanout = self._l(fanin), self._l(fanout)
        if node_type not in SUPPORTED:
            raise ModelRaise("ValueError", f"Cannot add unknown type '{node_type}'")
        if len(fanin) > 1 and node_type in ("buf", "not"):
            raise ModelRaise("ValueError", "more than one fanin")
        if fanin and node_type in ("0", "1", "x", "input"):
            raise ModelRaise("ValueError", "cannot have fanin")
        if not isinstance(n, str) or not n:
            raise ModelRaise("ValueError", f"bad node name {n!r}")
        if n[0] in "0123456789":
            raise ModelRaise("ValueError", f"cannot add node starting with int: {n}")
        existed = n in self.graph
        self.graph.add_node(n, type=node_type, output=output)
        if add_connected_nodes:
            for f in fanin + fanout:
                if f not in self:
                    self.add(f, "buf")
        try:
            self.connect(n, fanout)
            self.connect(fanin, n)
        except ModelRaise:
            # a rejected call adds no edge: the node this call created goes away with whatever was wired to it
            if not existed:
                self.graph.remove_node(n)
            raise
        return n

    def remove(self, ns):
        self.graph.remove_nodes_from(self._l(ns) if not isinstance(ns, str) else [ns])

    def relabel(self, mapping):
        MNx().relabel_nodes(self.graph, mapping, copy=False)

    def connect(self, us, vs):
        if not us or not vs:
            return None
        us, vs = self._l(us), self._l(vs)
        for n in us + vs:
            if n not in self.graph:
                raise ModelRaise("ValueError", f"node '{n}' does not exist.")
        for v in vs:
            t = self.type(v)
            if t in NO_FANIN:
                raise ModelRaise("ValueError", f"cannot connect to {t} '{v}'")
            if t in SINGLE_FANIN and len(self.fanin(v)) + len(us) > 1:
                raise ModelRaise("ValueError", f"fanin of {t} '{v}' cannot be greater than 1.")
        for u in us:
            t = self.type(u)
            if t in NO_FANOUT:
                raise ModelRaise("ValueError", f"cannot connect from {t} '{u}'.")
            if t == "bb_output":
                for v in vs:
                    if self.type(v) != "buf":
                        raise ModelRaise("ValueError", "bb_output to non-buf")
                if len(self.fanout(u)) + len(vs) > 1:
                    raise ModelRaise("ValueError", "bb_output fanout > 1")
        self.graph.add_edges_from((u, v) for u in us for v in vs)
        return None

    def disconnect(self, us, vs):
        us, vs = self._l(us), self._l(vs)
        self.graph.remove_edges_from((u, v) for u in us for v in vs)

    def fanin(self, ns):
        out = set()
        for n in self._l(ns):
            out |= set(self.graph.predecessors(n))
        return out

    def fanout(self, ns):
        out = set()
        for n in self._l(ns):
            out |= set(self.graph.successors(n))
        return out

    def transitive_fanin(self, ns):
        out = set()
        for n in self._l(ns):
            out |= MNx().ancestors(self.graph, n)
        return out

    def transitive_fanout(self, ns):
        out = set()
        for n in self._l(ns):
            out |= MNx().descendants(self.graph, n)
        return out

    def _depth(self, ns, maximum, pred):
        """Longest (maximum) path length, in edges, ending (pred) / starting (not pred) at a node of ns."""
        if self.is_cyclic():
            raise ModelRaise("ValueError", "Cannot compute depth of cyclic circuit")
        ns = self._l(ns)
        if not maximum:
            raise ModelRaise("NotImplementedError", "minimum depth is not part of the reference model")
        order = self.graph.topo()
        step = self.graph._succ if pred else self.graph._pred
        if not pred:
            order = order[::-1]
        # dist[x] = longest path from x to a node of ns following `step`
        dist = {}
        for x in reversed(order):
            best = 0 if x in ns else None
            for y in step[x]:
                if y in dist and dist[y] is not None:
                    d = dist[y] + 1
                    if best is None or d > best:
                        best = d
            dist[x] = best
        vals = [d for d in dist.values() if d is not None]
        return max(vals)

    def fanin_depth(self, ns, maximum=True):
        return self._depth(ns, maximum, True)

    def fanout_depth(self, ns, maximum=True):
        return self._depth(ns, maximum, False)

    def paths(self, source, target, cutoff=None):
        return MNx().all_simple_paths(self.graph, source, target, cutoff=cutoff)

    def inputs(self):
        return self.filter_type("input")

    def is_output(self, node):
        if node not in self.graph:
            raise ModelRaise("KeyError", f"Node {node} does not exist.")
        return self.graph._node[node].get("output", False)

    def set_output(self, ns, output=True):
        for n in [ns] if isinstance(ns, str) else list(ns):
            if n not in self.graph:
                raise ModelRaise("KeyError", f"node {n}")
            self.graph._node[n]["output"] = output

    def outputs(self):
        return {n for n in self.graph._node if self.is_output(n)}

    def io(self):
        return self.inputs() | self.outputs()

    def startpoints(self, ns=None):
        if isinstance(ns, str):
            ns = [ns]
        if ns:
            return (set(ns) | self.transitive_fanin(ns)) & self.startpoints()
        return self.inputs() | self.filter_type("bb_output")

    def endpoints(self, ns=None):
        if isinstance(ns, str):
            ns = [ns]
        if ns:
            return (set(ns) | self.transitive_fanout(ns)) & self.endpoints()
        return self.outputs() | self.filter_type("bb_input")

    def is_cyclic(self):
        return not self.graph.is_dag()

    def uid(self, n, blocked=None):
        blocked = blocked or []
        if n not in self.graph and n not in blocked:
            return n
        i = 0
        while f"{n}_{i}" in self.graph or f"{n}_{i}" in blocked:
            i += 1
        return f"{n}_{i}"

    def topo_sort(self):
        return iter(self.graph.topo())

    def remove_unloaded(self, inputs=False):
        removed = []
        changed = True
        while changed:
            changed = False
            for n in list(self.graph._node):
                t = self.type(n)
                if t == "bb_input" or self.is_output(n) or self.fanout(n):
                    continue
                if not inputs and t in ("input", "bb_output"):
                    continue
                self.remove(n)
                removed.append(n)
                changed = True
        return removed

    def add_subcircuit(self, sc, name, connections=None, strip_io=True):
        for bb_name in sc.blackboxes:
            if f"{name}_{bb_name}" in self.blackboxes:
                raise ModelRaise("ValueError", "blackbox exists")
        for n in sc:
            if f"{name}_{n}" in self.graph:
                raise ModelRaise("ValueError", "name overlap")
        sc_in, sc_out = sc.inputs(), sc.outputs()
        if connections:
            for k in connections:
                if k not in sc_in and k not in sc_out:
                    raise ModelRaise("ValueError", f"node {k} not in {name} io")
        g = MNx().relabel_nodes(sc.graph, {n: f"{name}_{n}" for n in sc})
        self.graph.update(g)
        if strip_io:
            for n in sc_in:
                self.set_type(f"{name}_{n}", "buf")
            for n in sc_out:
                self.set_output(f"{name}_{n}", False)
        for bb_name, bb in sc.blackboxes.items():
            self.blackboxes[f"{name}_{bb_name}"] = bb
        if connections:
            try:
                for k, ns in connections.items():
                    if k in sc_in:
                        self.connect(ns, f"{name}_{k}")
                    elif k in sc_out:
                        self.connect(f"{name}_{k}", ns)
            except ModelRaise:
                # a rejected connection leaves nothing of the splice behind
                self.graph.remove_nodes_from([f"{name}_{n}" for n in sc])
                for k in sc.blackboxes:
                    self.blackboxes.pop(f"{name}_{k}", None)
                raise

    def add_blackbox(self, blackbox, name, connections=None):
        if name in self.blackboxes:
            raise ModelRaise("ValueError", "blackbox exists")
        if connections:
            for k in connections:
                if k not in blackbox.inputs() and k not in blackbox.outputs():
                    raise ModelRaise("ValueError", f"node {k} not defined for blackbox {name}")
        for n in sorted(blackbox.inputs()):
            self.add(f"{name}.{n}", "bb_input")
        for n in sorted(blackbox.outputs()):
            self.add(f"{name}.{n}", "bb_output")
        self.blackboxes[name] = blackbox
        if connections:
            try:
                for k, ns in connections.items():
                    if k in blackbox.inputs():
                        self.connect(ns, f"{name}.{k}")
                    else:
                        self.connect(f"{name}.{k}", ns)
            except ModelRaise:
                # a rejected connection leaves no partly connected instance
                self.graph.remove_nodes_from([f"{name}.{p}" for p in blackbox.io()])
                self.blackboxes.pop(name, None)
                raise

    def fill_blackbox(self, name, c):
        if name not in self.blackboxes:
            raise ModelRaise("ValueError", "no such blackbox")
        bb = self.blackboxes[name]
        if c.inputs() != bb.inputs() or c.outputs() != bb.outputs():
            raise ModelRaise("ValueError", "io mismatch")
        for n in c:
            if f"{name}_{n}" in self.graph:
                raise ModelRaise("ValueError", "name overlap")
        # the pins are still the instance's pins (the caller may have removed or replaced one): otherwise refused
        for pins_, ptype_ in ((bb.inputs(), "bb_input"), (bb.outputs(), "bb_output")):
            for pn_ in pins_:
                if f"{name}.{pn_}" not in self.graph or self.graph._node[f"{name}.{pn_}"].get("type") != ptype_:
                    raise ModelRaise("ValueError", "a pin of the instance is missing or replaced")
        # the wiring rules hold for the merged nodes too: an output of `c` that is a pin of one of its own blackboxes cannot take
        # over the loads of the pin it replaces (a blackbox input has no fan-out, a blackbox output one load)
        for o in c.outputs():
            if f"{name}.{o}" in self.graph and self.fanout(f"{name}.{o}") and (c.type(o) == "bb_input" or (c.type(o) == "bb_output" and c.fanout(o))):
                raise ModelRaise("ValueError", "an output that is a blackbox pin cannot drive the loads of the filled pin")
        # the parent's own output list is unchanged: a pin the parent observes stays observed under its new name
        observed = [f"{name}_{n}" for n in bb.io() if self.is_output(f"{name}.{n}")]
        self.relabel({f"{name}.{n}": f"{name}_{n}" for n in bb.io()})
        g = MNx().relabel_nodes(c.graph, {n: f"{name}_{n}" for n in c})
        self.graph.update(g)
        for n in bb.inputs():
            self.set_type(f"{name}_{n}", "buf")
        for n in bb.outputs():
            self.set_output(f"{name}_{n}", False)
        for n in observed:
            self.set_output(n, True)
        self.blackboxes.pop(name)
        for k, b in c.blackboxes.items():
            self.blackboxes[f"{name}_{k}"] = b

    def reconvergent_fanout_nodes(self):
        out = []
        for node in sorted(self.nodes()):
            fo = sorted(self.fanout(node))
            hit = False
            for a, b in itertools.combinations(fo, 2):
                if ({a} | self.graph.descendants(a)) & ({b} | self.graph.descendants(b)):
                    hit = True
                    break
            if hit:
                out.append(node)
        return iter(out)

    def has_reconvergent_fanout(self):
        return bool(list(self.reconvergent_fanout_nodes()))

    def kcuts(self, n, k, computed=None):
        """Reference enumeration: merge the cut sets of the fan-in, keep those of size <= k, plus {n}."""
        if computed is None:
            computed = {}
        if n in computed:
            return computed[n]
        fi = sorted(self.fanin(n))
        cuts = [{n}]
        if fi:
            sets = [self.kcuts(f, k, computed) for f in fi]
            merged = sets[0]
            for s2 in sets[1:]:
                merged = [a | b for a in merged for b in s2 if len(a | b) <= k]
            cuts = [c for c in merged if len(c) <= k] + [{n}]
        computed[n] = cuts
        return cuts

    # ---- oracle helpers (underscore: invisible to evaluated code) ------
    def _snapshot(self):
        return (
            self.name,
            tuple(sorted((n, tuple(sorted((k, repr(v)) for k, v in a.items()))) for n, a in self.graph._node.items())),
            tuple(sorted(self.graph.edges)),
            tuple(sorted((k, id(v)) for k, v in self.blackboxes.items())),
        )


def build(spec, outputs=(), name="m", blackboxes=None):
    """spec: {node: (type, [fanin])} -> RefCircuit"""
    c = RefCircuit(name=name)
    for n, (t, fi) in spec.items():
        c.graph.add_node(n, type=t, output=n in outputs)
    for n, (t, fi) in spec.items():
        for f in fi:
            c.graph.add_edge(f, n)
    if blackboxes:
        c.blackboxes.update(blackboxes)
    return c


def free_nodes(c):
    """Nodes whose value is not determined by the netlist (startpoints and undriven gates)."""
    out = []
    for n in c.graph._node:
        t = c.graph._node[n].get("type")
        if t in ("input", "bb_output"):
            out.append(n)
        elif t not in ("0", "1", "x") and not c.graph._pred[n]:
            out.append(n)
    return sorted(out)


def simulate(c, assign):
    """Boolean evaluation of an acyclic RefCircuit; assign gives values of free nodes."""
    val = dict(assign)
    for n in c.graph.topo():
        if n in val:
            continue
        t = c.graph._node[n]["type"]
        ins = [val[p] for p in c.graph._pred[n]]
        if t == "x":
            raise ValueError("x constant has no Boolean value")
        val[n] = bool_gate(t, ins)
    return val
