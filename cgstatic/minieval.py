"""
Finite-domain evaluation of *extracted guard expressions and statement skeletons*.

Several properties are decided by tabulating a predicate the repository writes
as an `if` condition (lint's rules, connect's legality checks, remove_unloaded's
worklist conditions) over a small abstract domain (node type x fan-in count x
...).  This module evaluates such expression ASTs over *model objects* supplied
by the rule (never over repository objects; no repository function is called -
a call to anything that is not a model method or a whitelisted builtin is an
`Unsupported`, which the rules turn into ANALYSIS-ERROR).
"""
import ast

from .core import norm


def bind_unbound_defaults(fdef, env):
    """A function body evaluated directly in `env` (parameters bound by the caller): parameters the caller did not bind take their
    default values - a refactoring may add an optional parameter, which is then simply not passed."""
    a = fdef.args
    pos = a.posonlyargs + a.args
    pairs = list(zip(pos, [None] * (len(pos) - len(a.defaults)) + list(a.defaults))) + list(zip(a.kwonlyargs, a.kw_defaults))
    for p_, d_ in pairs:
        if p_.arg not in env and d_ is not None:
            env[p_.arg] = MiniEval(env).ev(d_)
    if a.vararg is not None and a.vararg.arg not in env:
        env[a.vararg.arg] = ()
    if a.kwarg is not None and a.kwarg.arg not in env:
        env[a.kwarg.arg] = {}


def _PKG_MISSING():
    from .pkgenv import _MISSING

    return _MISSING


class Unsupported(Exception):
    pass


USER_EXC_PARENT = {}  # exception classes defined by the evaluated code -> the base class named in their `class` statement


def canonical_kind(kind):
    k = root = kind
    for _ in range(8):
        if k not in USER_EXC_PARENT:
            break
        root = k
        k = USER_EXC_PARENT[k]
    # a user class directly under Exception / Warning keeps its own name (that name is what distinguishes it); a class derived
    # from such a class counts as that class ("raises VerilogParsingError" is satisfied by PortListError(VerilogParsingError))
    return root if k in ("Exception", "BaseException", "Warning", "UserWarning") else k


class RaisedKind(str):
    """The class named by a `raise` statement, as seen from outside the function: compares as its most specific built-in
    ancestor ("raises ValueError" is satisfied by a subclass the evaluated code defines) and remembers the name written."""

    def __new__(cls, kind):
        self = super().__new__(cls, canonical_kind(kind))
        self.raised_as = str(getattr(kind, "raised_as", kind))
        return self


class ExcType(str):
    """The exception class handed to `__exit__(exc_type, exc, tb)`: known by name (see `exception_matches`)."""

    def __new__(cls, raised_as):
        self = super().__new__(cls, raised_as)
        self.raised_as = str(raised_as)
        self.__name__ = str(raised_as)
        return self


class ModelRaise(Exception):
    """A model operation raises (e.g. KeyError from Circuit.type on a typeless node)."""

    def __init__(self, kind, what=""):
        super().__init__(f"{kind}: {what}")
        # `raised_as`: the class named in the raise statement; `kind`: the most specific *built-in* ancestor when the class is
        # one the evaluated code defines itself on top of it (class NetlistError(ValueError)) - "raises ValueError" is
        # satisfied by a subclass
        self.raised_as = str(getattr(kind, "raised_as", kind))
        self.kind = canonical_kind(self.raised_as)
        self.what = what


def _plain_value(v, depth=0):
    """True for values built only from CPython's own data types (no model object whose behaviour may differ from the real one)."""
    if v is None or isinstance(v, (str, int, float, bool, bytes)):
        return True
    if isinstance(v, (list, tuple, set, frozenset)):
        return depth < 3 and all(_plain_value(x, depth + 1) for x in list(v)[:50])
    if isinstance(v, dict):
        return depth < 3 and all(_plain_value(k, depth + 1) and _plain_value(x, depth + 1) for k, x in list(v.items())[:50])
    return False


class Model:
    """Base class for model objects whose attributes/methods may be used."""

    def __getattr__(self, name):
        # reached from library code the evaluator does not interpret (`operator.methodcaller("_drive_port", ...)(model)`): a private
        # method the repository's class defines although the reference model lacks it - same answer as in `ev_Attribute`
        if name.startswith("_") and not name.startswith("__") and not name.startswith(("_cg_", "_uc_", "_ri_", "_cud_")):
            fb = getattr(type(self), "_pkg_fallback", None)
            if fb is not None and "_repo_class" in dir(type(self)):
                m = fb.bound_repo_method(self, name)
                if m is not None:
                    return m
        raise AttributeError(f"'{type(self).__name__}' object has no attribute '{name}'")


class IdModel:
    """id(): unique among the objects alive at the same time - and nothing more.  Deterministic and adversarial: an object keeps its
    number while it lives; at the start of every top-level call the numbers of objects that have died are free again and the next
    new object takes the smallest free one (CPython's allocator does hand the address of a freed object to the next one of its
    size; state keyed on id() has to cope with exactly that)."""

    def __init__(self):
        self.table = {}  # real id -> (weak reference or None, number)

    def new_epoch(self):
        if not self.table:
            return
        import gc

        gc.collect()
        self.table = {k: v for k, v in self.table.items() if v[0] is not None and v[0]() is not None}

    def __call__(self, obj):
        import weakref

        k = id(obj)
        hit = self.table.get(k)
        if hit is not None and (hit[0] is None or hit[0]() is obj):
            return hit[1]
        used = {v[1] for v in self.table.values()}
        n = 1000
        while n in used:
            n += 8
        try:
            ref = weakref.ref(obj)
        except TypeError:
            ref = None
        self.table[k] = (ref, n)
        return n


ID_MODEL = IdModel()

_SAFE_BUILTINS = {
    "id": ID_MODEL,
    "len": len,
    "set": set,
    "list": list,
    "tuple": tuple,
    "sorted": sorted,
    "any": any,
    "all": all,
    "str": str,
    "int": int,
    "bool": bool,
    "min": min,
    "max": max,
    "sum": sum,
    "range": range,
    "enumerate": enumerate,
    "zip": zip,
    "reversed": reversed,
    "frozenset": frozenset,
    "dict": dict,
    "round": round,
    "print": (lambda *a, sep=" ", end="\n", file=None, flush=False: file.write(sep.join(str(x) for x in a) + end) if file is not None and hasattr(file, "write") else None),
    "object": object,
    "map": map,
    "filter": filter,
    "divmod": divmod,
    "pow": pow,
    "repr": repr,
    "hash": hash,
    "ord": ord,
    "chr": chr,
    "float": float,
    "callable": callable,
    "NotImplemented": NotImplemented,
    "Ellipsis": Ellipsis,
    "abs": abs,
    **{e.__name__: e for e in (Exception, BaseException, ValueError, KeyError, IndexError, TypeError, AttributeError, LookupError, ArithmeticError, ZeroDivisionError, RuntimeError, NotImplementedError,
                               StopIteration, AssertionError, OSError, FileNotFoundError, ImportError, NameError, RecursionError, Warning, UserWarning, DeprecationWarning)},
    "bin": bin,
    "iter": iter,
    "next": None,  # handled specially
    "isinstance": None,  # handled specially
}

_SAFE_METHODS = {
    __import__("collections").OrderedDict: {"move_to_end", "popitem"},
    str: {"isspace", "isupper", "islower", "swapcase", "isnumeric", "isdecimal", "format_map", "istitle", "rindex", "isascii", "translate", "rpartition", "removeprefix", "removesuffix", "isalpha", "isalnum", "isidentifier", "splitlines", "title", "capitalize", "index", "rfind", "casefold", "center", "ljust", "rjust", "expandtabs", "encode",
          "split", "startswith", "endswith", "lower", "upper", "replace", "strip", "join", "format", "rsplit", "partition", "zfill", "isdigit", "lstrip", "rstrip", "find", "count"},
    # mutators are allowed: every value here is a model value owned by the evaluator
    list: {"index", "count", "copy", "append", "insert", "pop", "extend", "remove", "reverse", "sort", "clear"},
    tuple: {"index", "count"},
    set: {"copy", "union", "intersection", "difference", "issubset", "issuperset", "pop", "add", "discard", "remove", "update", "isdisjoint", "symmetric_difference", "difference_update",
          "intersection_update", "clear"},
    frozenset: {"copy", "union", "intersection", "difference", "issubset", "issuperset", "isdisjoint"},
    dict: {"get", "keys", "values", "items", "copy", "pop", "update", "setdefault", "popitem", "clear", "fromkeys"},
    int: {"bit_length", "bit_count", "to_bytes", "conjugate", "as_integer_ratio", "is_integer"},
    float: {"is_integer", "as_integer_ratio", "hex", "conjugate"},
    bytes: {"decode", "hex", "startswith", "endswith", "split", "strip", "join", "find", "count", "replace"},
    __import__("collections").Counter: {"most_common", "subtract", "elements", "total"},
    __import__("collections").deque: {"append", "appendleft", "pop", "popleft", "extend", "extendleft", "clear", "rotate", "count", "index", "remove", "reverse", "copy", "insert", "maxlen"},
    __import__("string").Template: {"substitute", "safe_substitute", "template"},
}


class MiniEval:
    def __init__(self, env):
        self.env = dict(env)

    def ev(self, node):
        m = getattr(self, "ev_" + type(node).__name__, None)
        if m is None:
            raise Unsupported(f"expression kind {type(node).__name__}: {norm(node)}")
        return m(node)

    def ev_Constant(self, n):
        return n.value

    def ev_Yield(self, n):
        # `x = yield v`, `return (yield v)`: the expression's value is what the consumer sends in (None after a plain next())
        if getattr(self, "yield_fn", None) is None:
            raise Unsupported("yield outside a generator closure")
        return self.yield_fn(self.ev(n.value) if n.value is not None else None)

    def ev_YieldFrom(self, n):
        # delegation: values pass out, sent values / thrown exceptions / close pass in, the expression's value is the inner
        # generator's `return` value
        if getattr(self, "yield_fn", None) is None:
            raise Unsupported("yield from outside a generator closure")
        inner = self.ev(n.value)
        try:
            it = iter(inner)
        except TypeError as e:
            raise ModelRaise("TypeError", f"yield from {norm(n.value)[:40]}: {e}")
        try:
            v = next(it)
        except StopIteration as e:
            return e.value
        while True:
            try:
                sent = self.yield_fn(v)
            except _GenClose:
                if hasattr(it, "close"):
                    it.close()
                raise
            except ModelRaise as thrown:
                if not isinstance(it, LazyGen):
                    raise
                try:
                    v = it.throw(thrown)
                except StopIteration as e:
                    return e.value
                continue
            try:
                v = it.send(sent) if sent is not None and hasattr(it, "send") else next(it)
            except StopIteration as e:
                return e.value

    def ev_Name(self, n):
        if n.id in self.env:
            return self.env[n.id]
        g_ = self.env.get("__globals__")
        if g_ is not None and n.id in g_:
            # a module-level name bound after the enclosing function ran (a nested function sees the module's names live, not as
            # they were when it was created)
            return g_[n.id]
        if n.id in _SAFE_BUILTINS and _SAFE_BUILTINS[n.id] is not None:
            return _SAFE_BUILTINS[n.id]
        if n.id in ("True", "False", "None"):
            return {"True": True, "False": False, "None": None}[n.id]
        raise Unsupported(f"free name {n.id}")

    def ev_Attribute(self, n):
        obj = self.ev(n.value)
        if isinstance(obj, ExcType) and n.attr in ("__name__", "__qualname__"):
            return obj.raised_as
        if isinstance(obj, type) and n.attr in ("__name__", "__qualname__"):
            return obj.__name__
        if isinstance(obj, LazyGen) and n.attr in ("send", "throw", "close", "__next__", "__iter__"):
            return getattr(obj, n.attr)  # the generator protocol
        if isinstance(obj, ModelRaise) and n.attr == "value" and exception_matches(obj.raised_as, "StopIteration"):
            return getattr(obj, "value", None)  # StopIteration.value: the `return` value of the exhausted generator
        if hasattr(type(obj), "_cg_class_attr") and n.attr not in ("__name__", "__qualname__"):
            return obj._cg_class_attr(n.attr)  # `Circuit._helper`: class-level access to the repository's own class
        if isinstance(obj, type) and issubclass(obj, Model) and getattr(obj, "_pkg_fallback", None) is not None and (n.attr.startswith("_") or not hasattr(obj, n.attr)) and not n.attr.startswith("__"):
            return obj._pkg_fallback.class_level_attr(obj, n.attr)
        if type(obj).__name__ == "SuperProxy":
            return type(obj).__getattr__(obj, n.attr)  # also for dunder names, which Python would find on the proxy itself
        if isinstance(obj, Model) and getattr(type(obj), "_allow_private", False):
            try:
                return getattr(obj, n.attr)
            except AttributeError:
                raise ModelRaise("AttributeError", f"'{type(obj).__name__}' object has no attribute '{n.attr}'")
        if isinstance(obj, Model) and n.attr in ("__contains__", "__len__", "__iter__", "__getitem__") and hasattr(obj, n.attr):
            return getattr(obj, n.attr)
        if isinstance(obj, Model) and n.attr in obj.__dict__.get("_user_attrs", ()):
            return obj.__dict__[n.attr]
        if isinstance(obj, Model):
            if n.attr.startswith("_") or not hasattr(obj, n.attr):
                # a method the repository's class defines but the reference model does not (new private helper, ...)
                fb = getattr(type(obj), "_pkg_fallback", None)
                if fb is not None:
                    m = fb.bound_repo_method(obj, n.attr)
                    if m is not None:
                        return m
                    if n.attr.startswith("_") and not n.attr.startswith("__") and not hasattr(type(obj), n.attr) and n.attr not in obj.__dict__:
                        found, val = fb.initial_private_attr(obj, n.attr)
                        if found:
                            obj.__dict__.setdefault("_user_attrs", set()).add(n.attr)
                            obj.__dict__[n.attr] = val
                            return val
                raise Unsupported(f"model {type(obj).__name__} has no attribute {n.attr}")
            return getattr(obj, n.attr)
        if n.attr in getattr(type(obj), "_cg_user_methods", ()):
            return getattr(obj, n.attr)  # a method the evaluated code defines on its own subclass of dict / list / set
        if isinstance(obj, type) and hasattr(obj, "_cg_user_methods") and (n.attr in obj._cg_user_methods or any(issubclass(obj, ty) and n.attr in names for ty, names in _SAFE_METHODS.items())):
            return getattr(obj, n.attr)  # class-level access: a table / static or class method of such a class, `Ledger.fromkeys`
        if isinstance(obj, super) and isinstance(obj.__self__, (dict, list, set, type)) and hasattr(obj.__thisclass__, "_cg_user_methods"):
            try:
                return getattr(obj, n.attr)  # super() inside a method of such a class
            except AttributeError:
                raise ModelRaise("AttributeError", f"'super' object has no attribute '{n.attr}'")
        for ty, names in _SAFE_METHODS.items():
            if isinstance(obj, ty) and n.attr in names:
                return getattr(obj, n.attr)
        if type(obj).__name__ == "Token" and isinstance(obj, str) and n.attr in ("update", "type", "value", "line", "column", "end_line", "end_column", "start_pos", "end_pos"):
            return getattr(obj, n.attr)  # a lark Token (a str with position attributes)
        if hasattr(obj, "_cg_fdef") and not n.attr.startswith("_cg_") and n.attr in getattr(obj, "__dict__", {}):
            return obj.__dict__[n.attr]  # an attribute the evaluated code stored on its own function object
        if callable(obj) and n.attr in ("register", "dispatch", "cache_clear", "cache_info", "__wrapped__", "__name__", "__doc__", "func", "args", "keywords") and hasattr(obj, n.attr):
            return getattr(obj, n.attr)  # attributes of function objects: singledispatch registry, lru_cache controls, partial parts
        if isinstance(obj, type) and issubclass(obj, Model) and not n.attr.startswith("_") and hasattr(obj, n.attr):
            return getattr(obj, n.attr)  # class-level API of a model class (alternative constructors such as Lark.open)
        if obj is None:
            raise ModelRaise("AttributeError", f"'NoneType' object has no attribute '{n.attr}'")
        if (type(obj).__module__ == "inspect" or getattr(obj, "__module__", None) == "inspect" and isinstance(obj, type)) and not n.attr.startswith("_") and hasattr(obj, n.attr):
            return getattr(obj, n.attr)  # inspect.Parameter objects and their kind / empty markers: plain immutable values
        if isinstance(obj, (dict, list, tuple, str, set, frozenset)) and n.attr in ("__getitem__", "__contains__", "__len__", "__eq__", "__ne__", "__iter__", "__le__", "__lt__", "__ge__", "__gt__", "__or__", "__and__", "__sub__", "__xor__", "__setitem__", "__delitem__", "__reversed__") and hasattr(obj, n.attr):
            return getattr(obj, n.attr)
        if obj in (dict, set, frozenset, str, list, tuple, int) and n.attr in ("fromkeys", "union", "intersection", "join", "maketrans", "from_bytes", "difference") and hasattr(obj, n.attr):
            return getattr(obj, n.attr)
        for ty, names in _SAFE_METHODS.items():
            if obj is ty and n.attr in names:
                return getattr(ty, n.attr)  # unbound method of a builtin type: map(str.strip, ...), set.union
        if isinstance(obj, (str, int, float, bool, bytes, list, tuple, set, frozenset, dict)) and not hasattr(obj, n.attr):
            # CPython's own answer for its own data types
            raise ModelRaise("AttributeError", f"'{type(obj).__name__}' object has no attribute '{n.attr}'")
        if hasattr(obj, "_cg_fdef") and not n.attr.startswith("_"):
            raise ModelRaise("AttributeError", f"'function' object has no attribute '{n.attr}'")  # nothing stored such an attribute on it
        raise Unsupported(f"attribute {n.attr} on {type(obj).__name__}")

    def ev_Call(self, n):
        if isinstance(n.func, ast.Name) and n.func.id in ("isinstance", "issubclass") and n.func.id not in self.env and len(n.args) == 2:
            # exceptions are modelled by the name of their class: isinstance(<caught exception>, ValueError), and
            # issubclass(<exc_type handed to __exit__>, ValueError)
            first = self.ev(n.args[0])
            kind = first.raised_as if isinstance(first, ModelRaise) and n.func.id == "isinstance" else first.raised_as if isinstance(first, ExcType) and n.func.id == "issubclass" else None
            if kind is not None:
                targs = n.args[1].elts if isinstance(n.args[1], ast.Tuple) else [n.args[1]]
                return any(exception_matches(kind, norm(t).split(".")[-1]) for t in targs)
            if n.func.id == "issubclass":
                raise Unsupported(f"issubclass on {type(first).__name__}")
        if isinstance(n.func, ast.Name) and n.func.id == "isinstance" and len(n.args) == 2:
            import collections.abc as _abc

            obj = self.ev(n.args[0])
            table = {"str": str, "list": list, "set": set, "dict": dict, "tuple": tuple, "int": int, "bool": bool, "float": float, "frozenset": frozenset, "bytes": bytes,
                     "Iterable": _abc.Iterable, "Sequence": _abc.Sequence, "Mapping": _abc.Mapping, "Hashable": _abc.Hashable, "Collection": _abc.Collection, "MutableMapping": _abc.MutableMapping,
                     "MutableSequence": _abc.MutableSequence, "Set": _abc.Set, "AbstractSet": _abc.Set, "MutableSet": _abc.MutableSet, "Iterator": _abc.Iterator, "Callable": _abc.Callable, "Sized": _abc.Sized,
                     "Container": _abc.Container, "type(None)": type(None)}
            targs = n.args[1].elts if isinstance(n.args[1], ast.Tuple) else [n.args[1]]
            types = []
            for t in targs:
                tname = norm(t).split(".")[-1]
                if tname in table:
                    x = table[tname]
                    types.extend(x if isinstance(x, tuple) else [x])
                elif tname in self.env and isinstance(self.env[tname], type):
                    types.append(self.env[tname])
                else:
                    cls = None
                    try:
                        cls = self.ev(t)
                    except Unsupported:
                        pass
                    from .userclass import UserClass, is_instance_of

                    if isinstance(cls, UserClass):
                        if is_instance_of(obj, cls):
                            return True
                        continue
                    if isinstance(cls, type):
                        types.append(cls)
                        continue
                    raise Unsupported(f"isinstance against {tname}")
            return isinstance(obj, tuple(types))
        if isinstance(n.func, ast.Name) and n.func.id == "type" and "type" not in self.env and len(n.args) == 1 and not n.keywords:
            v = self.ev(n.args[0])
            if isinstance(v, ModelRaise):
                return ExcType(v.raised_as)  # the class of a caught exception, known by name
            if type(v).__name__ in ("UserInstance", "EnumMember"):
                return object.__getattribute__(v, "__dict__")["_uc_class"]
            if isinstance(v, Model):
                raise Unsupported(f"type() of a model object {type(v).__name__}")
            return type(v)
        if isinstance(n.func, ast.Name) and n.func.id == "super" and not n.args and isinstance(self.env.get("__class__"), type):
            return super(self.env["__class__"], self.env.get("__super_self__"))  # a container class built as a real class: CPython's super
        if isinstance(n.func, ast.Name) and n.func.id == "super" and not n.args and self.env.get("__class__") is not None:
            from .userclass import SuperProxy

            return SuperProxy(self.env["__class__"], self.env.get("__super_self__"))
        if isinstance(n.func, ast.Attribute) and n.func.attr == "__init__" and isinstance(n.func.value, ast.Call) and isinstance(n.func.value.func, ast.Name) and n.func.value.func.id == "super" \
                and self.env.get("__class__") is None:
            return None  # super().__init__(...) of a library base class: no model state
        if isinstance(n.func, ast.Name) and n.func.id == "setattr" and "setattr" not in self.env and len(n.args) == 3 and not n.keywords:
            obj, name, value = (self.ev(a) for a in n.args)
            if isinstance(obj, Model) and getattr(type(obj), "_allow_private", False) and isinstance(name, str) and type(obj).__name__ in ("UserClass", "UserInstance", "EnumClass"):
                setattr(obj, name, value)  # classes / objects the evaluated code defines itself
                return None
            if type(obj).__name__ == "ClassUnderDecoration" and isinstance(name, str):
                obj._cud_installed[name] = value  # a class decorator of the package installs a method / attribute on a repository class
                return None
            raise Unsupported(f"setattr on {type(obj).__name__}")
        if isinstance(n.func, ast.Name) and n.func.id == "vars" and "vars" not in self.env and len(n.args) == 1 and not n.keywords:
            obj = self.ev(n.args[0])
            if type(obj).__name__ == "UserClass":
                # the namespace of a class the evaluated code defines: plain methods are plain functions there (read-only view)
                return {k: (v.clo if type(v).__name__ == "_Method" and getattr(v, "kind", None) == "plain" else v) for k, v in obj._uc_ns.items()}
            raise Unsupported(f"vars() of {type(obj).__name__}")
        if isinstance(n.func, ast.Name) and n.func.id in ("getattr", "hasattr") and n.func.id not in self.env and 2 <= len(n.args) <= 3:
            obj = self.ev(n.args[0])
            name = self.ev(n.args[1])
            if isinstance(name, str) and hasattr(obj, "_cg_fdef") and not name.startswith("_cg_"):
                # a function object of the evaluated code: its descriptive attributes and whatever the code itself stored on it
                if name in obj.__dict__ or name in ("__name__", "__qualname__", "__doc__"):
                    return True if n.func.id == "hasattr" else getattr(obj, name)
                if n.func.id == "hasattr":
                    return False
                if len(n.args) == 3:
                    return self.ev(n.args[2])
                raise ModelRaise("AttributeError", f"'function' object has no attribute '{name}'")
            if isinstance(name, str) and type(obj).__name__ == "_Method" and not name.startswith("__"):
                # a staticmethod / classmethod / property object found in a class namespace: it does not carry the attributes stored
                # on the function it wraps
                if n.func.id == "hasattr":
                    return False
                if len(n.args) == 3:
                    return self.ev(n.args[2])
                raise ModelRaise("AttributeError", f"'{obj.kind}' object has no attribute '{name}'")
            ok = isinstance(name, str) and (isinstance(obj, Model) or isinstance(obj, (str, list, dict, set, tuple, int, float, frozenset, bytes, type(None))))
            if not ok:
                raise Unsupported(f"{n.func.id} on {type(obj).__name__}")
            private_ok = getattr(type(obj), "_allow_private", False) or (isinstance(obj, Model) and name in obj.__dict__.get("_user_attrs", ()))
            present = (private_ok or not name.startswith("_")) and hasattr(obj, name)
            if n.func.id == "hasattr":
                return present
            if present:
                return getattr(obj, name)
            if len(n.args) == 3:
                return self.ev(n.args[2])
            raise ModelRaise("AttributeError", name)
        if isinstance(n.func, ast.Name) and n.func.id == "next" and n.func.id not in self.env and 1 <= len(n.args) <= 2:
            it = self.ev(n.args[0])
            try:
                return next(it)
            except StopIteration as e:
                if len(n.args) == 2:
                    return self.ev(n.args[1])
                mr = ModelRaise("StopIteration", "next() on an exhausted iterator")
                mr.value = e.value
                raise mr
            except TypeError as e:
                raise Unsupported(f"next() on a non-iterator: {e}")
        f = self.ev(n.func)
        args = []
        for a in n.args:
            if isinstance(a, ast.Starred):
                args.extend(self.ev(a.value))
            else:
                args.append(self.ev(a))
        kwargs = {}
        for k in n.keywords:
            if k.arg is None:
                d = self.ev(k.value)
                if not isinstance(d, dict):
                    raise Unsupported("**kwargs of a non-dict")
                kwargs.update(d)
                continue
            kwargs[k.arg] = self.ev(k.value)
        if not callable(f):
            raise Unsupported(f"call of non-callable {norm(n.func)}")
        try:
            return f(*args, **kwargs)
        except ModelRaise:
            raise
        except KeyError as e:
            raise ModelRaise("KeyError", str(e))
        except IndexError as e:
            raise ModelRaise("IndexError", str(e))
        except StopIteration as e:
            mr = ModelRaise("StopIteration", str(e))
            mr.value = e.value
            raise mr
        except (ValueError, ZeroDivisionError) as e:
            raise ModelRaise(type(e).__name__, str(e))
        except TypeError as e:
            if e.__traceback__ is not None and e.__traceback__.tb_next is None and str(getattr(f, "__module__", "")).startswith("cgstatic") and not hasattr(f, "_cg_fdef"):
                # the arguments do not fit the signature of one of the checker's own model functions: the model is incomplete,
                # not the evaluated code wrong
                raise Unsupported(f"call {norm(n)[:60]}: the model of the callee does not take these arguments ({e})")
            # e.g. "_".join([Tree(...)]) - a genuine TypeError of the evaluated code
            raise ModelRaise("TypeError", f"{norm(n)[:60]}: {e}")
        except AttributeError as e:
            if type(f).__name__ in ("methodcaller", "attrgetter") and args and _plain_value(args[0]):
                raise ModelRaise("AttributeError", str(e))  # CPython's own answer for its own data types (None has no .group)
            raise Unsupported(f"call {norm(n)} failed in the model: {e}")

    def ev_Subscript(self, n):
        obj = self.ev(n.value)
        if isinstance(n.slice, ast.Slice):
            lo = self.ev(n.slice.lower) if n.slice.lower else None
            hi = self.ev(n.slice.upper) if n.slice.upper else None
            st = self.ev(n.slice.step) if n.slice.step else None
            try:
                return obj[lo:hi:st]
            except TypeError as e:
                if _plain_value(obj):
                    raise ModelRaise("TypeError", f"{norm(n)[:40]}: {e}")  # CPython's own answer for its own data types (a set has no slices)
                raise Unsupported(f"subscript {norm(n)}: {e}")
        idx = self.ev(n.slice)
        try:
            return obj[idx]
        except KeyError as e:
            raise ModelRaise("KeyError", str(e))
        except IndexError as e:
            raise ModelRaise("IndexError", str(e))
        except TypeError as e:
            if _plain_value(obj) and _plain_value(idx):
                raise ModelRaise("TypeError", f"{norm(n)[:40]}: {e}")
            raise Unsupported(f"subscript {norm(n)}: {e}")

    def ev_Compare(self, n):
        left = self.ev(n.left)
        for op, comp in zip(n.ops, n.comparators):
            right = self.ev(comp)
            try:
                if isinstance(op, ast.Gt):
                    ok = left > right
                elif isinstance(op, ast.GtE):
                    ok = left >= right
                elif isinstance(op, ast.Lt):
                    ok = left < right
                elif isinstance(op, ast.LtE):
                    ok = left <= right
                elif isinstance(op, ast.Eq):
                    ok = left == right
                elif isinstance(op, ast.NotEq):
                    ok = left != right
                elif isinstance(op, ast.In):
                    ok = left in right
                elif isinstance(op, ast.NotIn):
                    ok = left not in right
                elif isinstance(op, ast.Is):
                    ok = left is right
                elif isinstance(op, ast.IsNot):
                    ok = left is not right
                else:
                    raise Unsupported(norm(n))
            except TypeError as e:
                if _plain_value(left) and _plain_value(right):
                    # CPython's own answer for these operands (an unhashable value looked up in a set, an order comparison of
                    # unrelated kinds): the code under analysis raises it too
                    raise ModelRaise("TypeError", f"{norm(n)}: {e}")
                raise Unsupported(f"compare {norm(n)}: {e}")
            if not ok:
                return False
            left = right
        return True

    def ev_BoolOp(self, n):
        if isinstance(n.op, ast.And):
            v = True
            for x in n.values:
                v = self.ev(x)
                if not v:
                    return v
            return v
        v = False
        for x in n.values:
            v = self.ev(x)
            if v:
                return v
        return v

    def ev_UnaryOp(self, n):
        v = self.ev(n.operand)
        if isinstance(n.op, ast.Not):
            return not v
        try:
            if isinstance(n.op, ast.USub):
                return -v
            if isinstance(n.op, ast.UAdd):
                return +v
            if isinstance(n.op, ast.Invert) and (isinstance(v, int) or type(v).__name__ == "UserInstance"):
                return ~v
        except TypeError as e:
            if _plain_value(v) or (type(v).__name__ == "UserInstance" and "bad operand type" in str(e)):
                raise ModelRaise("TypeError", f"{norm(n)[:40]}: {e}")
        raise Unsupported(norm(n))

    def ev_BinOp(self, n):
        a = self.ev(n.left)
        b = self.ev(n.right)
        try:
            if isinstance(n.op, ast.Add):
                return a + b
            if isinstance(n.op, ast.Sub):
                return a - b
            if isinstance(n.op, ast.Mult):
                return a * b
            if isinstance(n.op, ast.BitOr):
                return a | b
            if isinstance(n.op, ast.BitAnd):
                return a & b
            if isinstance(n.op, ast.BitXor):
                return a ^ b
            if isinstance(n.op, ast.FloorDiv):
                return a // b
            if isinstance(n.op, ast.Div):
                return a / b
            if isinstance(n.op, (ast.LShift, ast.RShift)):
                return a << b if isinstance(n.op, ast.LShift) else a >> b
            if isinstance(n.op, ast.Mod):
                return a % b
            if isinstance(n.op, ast.Pow):
                return a**b
        except ZeroDivisionError as e:
            raise ModelRaise("ZeroDivisionError", str(e))
        except TypeError as e:
            ui = [type(x).__name__ == "UserInstance" for x in (a, b)]
            if any(ui) and all(u or _plain_value(x) for u, x in zip(ui, (a, b))) and "unsupported operand" in str(e):
                # neither class defines the operation (the special methods of evaluated classes are dispatched exactly)
                raise ModelRaise("TypeError", f"{norm(n)[:40]}: {e}")
            raise Unsupported(f"binop {norm(n)}: {e}")
        raise Unsupported(norm(n))

    def ev_NamedExpr(self, n):
        v = self.ev(n.value)
        self._bind(n.target, v)
        return v

    def ev_Lambda(self, n):
        a = n.args
        names = [x.arg for x in a.posonlyargs + a.args]
        outer = self
        # default values are evaluated once, when the lambda expression is evaluated (CPython)
        defaults = dict(zip(names[len(names) - len(a.defaults):], [self.ev(d) for d in a.defaults]))
        kwdefaults = {k.arg: self.ev(d) for k, d in zip(a.kwonlyargs, a.kw_defaults) if d is not None}

        def lam(*args, **kwargs):
            sub = MiniEval(dict(outer.env))
            sub.env.update(defaults)
            sub.env.update(kwdefaults)
            for nm, v in zip(names, args):
                sub.env[nm] = v
            if len(args) > len(names):
                if a.vararg is None:
                    raise ModelRaise("TypeError", "too many positional arguments for a lambda")
                sub.env[a.vararg.arg] = tuple(args[len(names):])
            elif a.vararg is not None:
                sub.env[a.vararg.arg] = ()
            known = set(names) | {k.arg for k in a.kwonlyargs}
            extra = {}
            for k, v in kwargs.items():
                if k in known:
                    sub.env[k] = v
                elif a.kwarg is not None:
                    extra[k] = v
                else:
                    raise ModelRaise("TypeError", f"unexpected keyword argument {k} for a lambda")
            if a.kwarg is not None:
                sub.env[a.kwarg.arg] = extra
            missing = [nm for nm in names if nm not in sub.env or (nm not in defaults and nm not in kwargs and names.index(nm) >= len(args))]
            if missing:
                raise ModelRaise("TypeError", f"missing argument(s) {missing} for a lambda")
            return sub.ev(n.body)

        return lam

    def ev_IfExp(self, n):
        return self.ev(n.body) if self.ev(n.test) else self.ev(n.orelse)

    def ev_List(self, n):
        out = []
        for e in n.elts:
            if isinstance(e, ast.Starred):
                out.extend(self.ev(e.value))
            else:
                out.append(self.ev(e))
        return out

    def ev_Tuple(self, n):
        return tuple(self.ev_List(n))

    def ev_Set(self, n):
        return set(self.ev_List(n))

    def ev_Dict(self, n):
        d = {}
        for k, v in zip(n.keys, n.values):
            if k is None:
                d.update(self.ev(v))
            else:
                d[self.ev(k)] = self.ev(v)
        return d

    def ev_JoinedStr(self, n):
        out = []
        for v in n.values:
            if isinstance(v, ast.Constant):
                out.append(str(v.value))
            else:
                val = self.ev(v.value)
                if v.conversion == 114:
                    val = repr(val)
                elif v.conversion == 115:
                    val = str(val)
                if v.format_spec is not None:
                    spec = self.ev_JoinedStr(v.format_spec)
                    try:
                        out.append(format(val, spec))
                    except (TypeError, ValueError) as e:
                        raise ModelRaise(type(e).__name__, str(e))
                else:
                    out.append(str(val))
        return "".join(out)

    def _comp(self, n, make):
        """List / set / dict comprehension: its own scope (iteration variables do not leak, closures created inside keep
        seeing it), `:=` targets bind in the enclosing scope, iterables are consumed lazily (itertools.groupby groups!)."""
        child = MiniEval(self.env)
        walrus = {t.target.id for t in ast.walk(n) if isinstance(t, ast.NamedExpr) and isinstance(t.target, ast.Name)}

        def rec(gens, acc):
            if not gens:
                acc.append(make(child))
                return
            g = gens[0]
            it = child.ev(g.iter)
            for x in (list(it) if isinstance(it, (list, tuple, set, frozenset, dict, str)) else it):
                child._bind(g.target, x)
                if all(child.ev(c) for c in g.ifs):
                    rec(gens[1:], acc)

        acc = []
        try:
            rec(n.generators, acc)
        finally:
            for w in walrus:
                if w in child.env:
                    self.env[w] = child.env[w]
        return acc

    def _bind(self, target, value):
        if isinstance(target, ast.Name):
            self.env[target.id] = value
        elif isinstance(target, (ast.Tuple, ast.List)):
            vals = list(value)
            stars = [i for i, t in enumerate(target.elts) if isinstance(t, ast.Starred)]
            if len(stars) == 1:
                i = stars[0]
                after = len(target.elts) - i - 1
                if len(vals) < len(target.elts) - 1:
                    raise ModelRaise("ValueError", f"not enough values to unpack (expected at least {len(target.elts) - 1}, got {len(vals)})")
                for t, v in zip(target.elts[:i], vals[:i]):
                    self._bind(t, v)
                self._bind(target.elts[i].value, vals[i:len(vals) - after])
                for t, v in zip(target.elts[i + 1:], vals[len(vals) - after:] if after else []):
                    self._bind(t, v)
                return
            if len(vals) != len(target.elts):
                raise ModelRaise("ValueError", f"cannot unpack {len(vals)} value(s) into {len(target.elts)} target(s)")
            for t, v in zip(target.elts, vals):
                self._bind(t, v)
        elif isinstance(target, ast.Attribute):
            obj = self.ev(target.value)
            if isinstance(obj, Model) and (not target.attr.startswith("_") or getattr(type(obj), "_allow_private", False)):
                setattr(obj, target.attr, value)
            elif isinstance(obj, Model) and not hasattr(type(obj), target.attr) and (target.attr not in obj.__dict__ or target.attr in obj.__dict__.get("_user_attrs", ())):
                # a private attribute the evaluated code itself introduces (a cache, a flag): kept apart from model internals
                obj.__dict__.setdefault("_user_attrs", set()).add(target.attr)
                obj.__dict__[target.attr] = value
            elif hasattr(obj, "_cg_fdef") and not target.attr.startswith("_cg_"):
                setattr(obj, target.attr, value)  # a function object takes attributes (its descriptive ones, a registration mark ...)
            else:
                raise Unsupported(f"attribute store on {type(obj).__name__}")
        elif isinstance(target, ast.Subscript):
            obj = self.ev(target.value)
            key = self.ev(target.slice)
            if isinstance(obj, (dict, list)) or (isinstance(obj, Model) and hasattr(obj, "__setitem__")):
                obj[key] = value
            else:
                raise Unsupported(f"item store into {type(obj).__name__}")
        else:
            raise Unsupported(f"bind target {norm(target)}")

    def ev_ListComp(self, n):
        return self._comp(n, lambda ch: ch.ev(n.elt))

    def ev_SetComp(self, n):
        return set(self._comp(n, lambda ch: ch.ev(n.elt)))

    def ev_GeneratorExp(self, n):
        """Lazy, like Python: the outermost iterable is evaluated now, everything else at consumption
        time against the *live* enclosing scope (late binding of loop variables is reproduced)."""
        parent = self.env
        first = iter(self.ev(n.generators[0].iter))
        gens = n.generators

        def sub(local):
            env = dict(parent)
            env.update(local)
            return MiniEval(env)

        walrus = {t.target.id for t in ast.walk(n) if isinstance(t, ast.NamedExpr) and isinstance(t.target, ast.Name)}

        def export(me):
            # `:=` inside a generator expression binds in the enclosing scope
            for w in walrus:
                if w in me.env:
                    parent[w] = me.env[w]

        def rec(gi, local):
            g = gens[gi]
            it = first if gi == 0 else iter(sub(local).ev(g.iter))
            for x in it:
                binder = MiniEval(dict(local))
                binder._bind(g.target, x)
                loc = binder.env
                se = sub(loc)
                ok = all(se.ev(c) for c in g.ifs)
                export(se)
                if ok:
                    if gi + 1 < len(gens):
                        yield from rec(gi + 1, loc)
                    else:
                        el = sub(loc)
                        v = el.ev(n.elt)
                        export(el)
                        yield v

        return rec(0, {})

    def ev_DictComp(self, n):
        return dict(self._comp(n, lambda ch: (ch.ev(n.key), ch.ev(n.value))))


class Events(Exception):
    pass


_EXC_PARENTS = {
    "KeyError": "LookupError", "IndexError": "LookupError", "LookupError": "Exception", "ZeroDivisionError": "ArithmeticError", "OverflowError": "ArithmeticError", "ArithmeticError": "Exception",
    "FileNotFoundError": "OSError", "OSError": "Exception", "ValueError": "Exception", "TypeError": "Exception", "AttributeError": "Exception", "StopIteration": "Exception", "RuntimeError": "Exception",
    "RecursionError": "RuntimeError", "NotImplementedError": "RuntimeError", "AssertionError": "Exception", "ImportError": "Exception", "ModuleNotFoundError": "ImportError", "NameError": "Exception",
    "UnicodeDecodeError": "ValueError", "NetworkXError": "NetworkXException", "NetworkXNoCycle": "NetworkXException", "NetworkXUnfeasible": "NetworkXAlgorithmError", "NetworkXNoPath": "NetworkXUnfeasible",
    "NetworkXAlgorithmError": "NetworkXException", "NodeNotFound": "NetworkXException", "NetworkXPointlessConcept": "NetworkXException", "HasACycle": "NetworkXException", "NetworkXException": "Exception",
    "NonTermination": "Exception", "Exception": "BaseException",
}


def exception_matches(kind, handler_name):
    """Does `except <handler_name>` catch an exception of class name `kind`?  (built-in and networkx hierarchy; a class the
    evaluated code defines itself is an `Exception` subclass whose own ancestors are not tracked)"""
    k = kind
    for _ in range(12):
        if k == handler_name:
            return True
        k = USER_EXC_PARENT.get(k) or _EXC_PARENTS.get(k, "Exception" if k not in ("BaseException",) else None)
        if k is None:
            return False
    return handler_name in ("Exception", "BaseException")


class _GenClose(BaseException):
    pass


_THREAD_STACK_SET = [False]


class _GenCore:
    """State and coroutine thread of one generator.  The thread refers to this object only - never to the `LazyGen` handle the
    consumer holds - so that a handle dropped before the body has finished is collected, its `__del__` closes the core, the
    body unwinds (GeneratorExit semantics) and the thread ends.  (A thread that referred to the handle kept every abandoned
    generator - and one 64 MB-stack thread each - alive for the rest of the run.)"""

    def __init__(self, run_body):
        import threading

        if not _THREAD_STACK_SET[0]:
            try:
                threading.stack_size(64 * 1024 * 1024)
            except (ValueError, RuntimeError):
                pass
            _THREAD_STACK_SET[0] = True
        self._run_body = run_body
        self._to_gen = threading.Semaphore(0)
        self._to_caller = threading.Semaphore(0)
        self._thread = None
        self._finished = False
        self._closing = False
        self._exc = None
        self._value = None
        self._thrown = None
        self._sent = None
        self._return = None

    def _target(self):
        try:
            self._return = self._run_body(self._yield)
        except _GenClose:
            pass
        except BaseException as e:  # noqa: B902 - transported to the consumer
            self._exc = e
        finally:
            self._finished = True
            self._run_body = None
            self._to_caller.release()

    def _yield(self, v):
        self._value = v
        self._to_caller.release()
        self._to_gen.acquire()
        if self._closing:
            raise _GenClose()
        if self._thrown is not None:
            e, self._thrown = self._thrown, None
            raise e  # generator.throw(): the exception appears at the suspended `yield`
        sent, self._sent = self._sent, None
        return sent  # the value of the `yield` expression: what generator.send() handed in, None after next()

    def send(self, value):
        if self._thread is None and value is not None and not self._finished:
            raise TypeError("can't send non-None value to a just-started generator")
        self._sent = value
        return self.next()

    def throw(self, exc):
        if self._thread is None or self._finished:
            self._finished = True
            raise exc
        self._thrown = exc
        self._to_gen.release()
        self._to_caller.acquire()
        if self._exc is not None:
            e, self._exc = self._exc, None
            raise e
        if self._finished:
            raise StopIteration(self._return)
        return self._value

    def next(self):
        import threading

        if self._finished:
            raise StopIteration
        if self._thread is None:
            self._thread = threading.Thread(target=self._target, daemon=True)
            self._thread.start()
        else:
            self._to_gen.release()
        self._to_caller.acquire()
        if self._exc is not None:
            e, self._exc = self._exc, None
            raise e
        if self._finished:
            raise StopIteration(self._return)  # the generator's `return` value travels in StopIteration.value
        return self._value

    def close(self):
        import threading

        if self._thread is threading.current_thread():
            return  # dropped by its own body while that is running: there is nothing to wake, the body ends by itself
        if self._thread is not None and not self._finished:
            self._closing = True
            self._to_gen.release()
            self._to_caller.acquire()
        self._finished = True
        self._run_body = None


class LazyGen:
    """A generator function's body, run lazily: it advances to the next `yield` only when the consumer asks for the next
    value (a `return`, an exception or the end of the body ends the iteration), as in CPython.  The body runs on its own
    thread purely as a coroutine - exactly one of consumer and body is ever running."""

    __slots__ = ("_core", "__weakref__")

    def __init__(self, run_body):
        self._core = _GenCore(run_body)

    def __iter__(self):
        return self

    def send(self, value):
        """generator.send(value): resume the body, the suspended `yield` expression evaluates to `value`."""
        return self._core.send(value)

    def throw(self, exc):
        """generator.throw(exc): resume the body with `exc` raised at the `yield` it is suspended in."""
        return self._core.throw(exc)

    def __next__(self):
        return self._core.next()

    def close(self):
        self._core.close()

    def __del__(self):
        import sys

        if sys.is_finalizing():
            return  # daemon threads no longer run: waiting for the body to unwind would never end
        try:
            self._core.close()
        except Exception:
            pass


class BlockInterp:
    """Run a straight-line/if/for skeleton of statements over model values.

    `on_call(call_node, interp)` is consulted for expression statements and may
    return True when it handled the call (e.g. `handle(...)`).
    Control results: 'next', 'continue', 'break', ('return', v), ('raise', kind).
    """

    def __init__(self, env, on_call=None, on_raise=None, max_steps=20000):
        self.me = MiniEval(env)
        self.on_call = on_call
        self.on_raise = on_raise
        self.steps = 0
        self.max_steps = max_steps

    @property
    def env(self):
        return self.me.env

    def make_closure(self, fdef):
        outer = self
        is_gen = False
        stack = list(fdef.body)
        while stack:
            x = stack.pop()
            if isinstance(x, (ast.FunctionDef, ast.Lambda, ast.ClassDef)):
                continue
            if isinstance(x, (ast.Yield, ast.YieldFrom)):
                is_gen = True
                break
            stack.extend(ast.iter_child_nodes(x))

        # default values are objects created once and shared by every call (CPython evaluates them when the `def`
        # statement runs; here: on the first call, because module-level names are bound in two passes) - a mutable
        # default that a call modifies is visible to the next call
        default_cache = {}

        def default_value(key, d):
            if key not in default_cache:
                default_cache[key] = outer.me.ev(d)
            return default_cache[key]

        def closure(*args, **kwargs):
            a = fdef.args
            names = [x.arg for x in a.posonlyargs + a.args]
            env = dict(outer.me.env)  # late binding of the enclosing scope (read-only)
            defaults = [None] * (len(names) - len(a.defaults)) + list(a.defaults)
            for nm, d in zip(names, defaults):
                if d is not None:
                    env[nm] = default_value(nm, d)
            for nm, v in zip(names, args):
                env[nm] = v
            if len(args) > len(names):
                if a.vararg is None:
                    raise Unsupported(f"too many positional arguments for {fdef.name}")
                env[a.vararg.arg] = tuple(args[len(names):])
            elif a.vararg is not None:
                env[a.vararg.arg] = ()
            for kw, d in zip(a.kwonlyargs, a.kw_defaults):
                if d is not None:
                    env[kw.arg] = default_value(kw.arg, d)
            known = set(names) | {x.arg for x in a.kwonlyargs}
            extra = {}
            for k, v in kwargs.items():
                if k in known:
                    env[k] = v
                elif a.kwarg is not None:
                    extra[k] = v
                else:
                    raise Unsupported(f"unexpected keyword argument {k} for {fdef.name}")
            if a.kwarg is not None:
                env[a.kwarg.arg] = extra
            missing = [nm for i, nm in enumerate(names) if i >= len(args) and nm not in kwargs and defaults[i] is None]
            if missing:
                raise Unsupported(f"missing argument(s) {missing} for {fdef.name}")
            dcls = getattr(closure, "_cg_defining_class", None)
            if dcls is not None:
                env["__class__"] = dcls
                env["__super_self__"] = args[0] if args else None
            sub = BlockInterp(env, on_call=outer.on_call, on_raise=outer.on_raise, max_steps=outer.max_steps)
            if fdef.name not in known and (a.vararg is None or a.vararg.arg != fdef.name) and (a.kwarg is None or a.kwarg.arg != fdef.name):
                sub.me.env[fdef.name] = closure  # a nested function may call itself; a parameter of the same name shadows it
            if is_gen:
                def run_body(yield_fn):
                    sub.yield_fn = sub.me.yield_fn = yield_fn
                    r_ = sub.run(fdef.body)
                    for nm in getattr(sub, "outer_names", ()):
                        if nm in sub.me.env:
                            outer.me.env[nm] = sub.me.env[nm]
                    if isinstance(r_, tuple) and r_[0] == "raise":
                        raise ModelRaise(r_[1] or "Exception", "raised in generator")
                    return r_[1] if isinstance(r_, tuple) and r_[0] == "return" else None

                return LazyGen(run_body)
            r = sub.run(fdef.body)
            outer.steps += sub.steps
            for nm in getattr(sub, "outer_names", ()):
                if nm in sub.me.env:
                    outer.me.env[nm] = sub.me.env[nm]
            if isinstance(r, tuple) and r[0] == "return":
                return r[1]
            if isinstance(r, tuple) and r[0] == "raise":
                raise ModelRaise(r[1] or "Exception", "raised in nested function")
            return None

        closure._cg_fdef = fdef
        closure._cg_interp = outer
        if isinstance(fdef, (ast.FunctionDef, ast.AsyncFunctionDef)):
            closure.__name__ = closure.__qualname__ = fdef.name
            closure.__doc__ = ast.get_docstring(fdef)
        return closure

    def _handler_names(self, x):
        """Names of the exception classes an `except <x>` clause catches: the class named, or - when <x> is a variable or another
        expression (`except exc_type:`, `except self.errors:`) - the classes it evaluates to."""
        nm = norm(x).split(".")[-1]
        plain = isinstance(x, ast.Name) and x.id not in self.me.env or (isinstance(x, ast.Attribute) and nm[:1].isupper())
        if plain or nm in _EXC_PARENTS or nm in USER_EXC_PARENT:
            return [nm]
        try:
            v = self.me.ev(x)
        except Unsupported:
            return [nm]
        out = []
        for c in (v if isinstance(v, (tuple, list)) else [v]):
            if isinstance(c, type) and issubclass(c, BaseException):
                out.append(c.__name__)
            elif type(c).__name__ in ("UserClass", "EnumClass"):
                out.append(c._uc_name)
            elif isinstance(c, str):
                out.append(c)
            else:
                raise Unsupported(f"except clause over {norm(x)[:40]}")
        return out

    def _run_guarded(self, tr):
        """The body of a try statement; when the enclosing generator is closed while suspended in it, `finally` still runs."""
        try:
            return self.run(tr.body)
        except _GenClose:
            if tr.finalbody:
                self.run(tr.finalbody)
            raise

    def _match(self, pat, value):
        """Structural pattern matching (PEP 634) for the pattern kinds library code uses; captures are bound in the current scope."""
        from .userclass import UserClass, UserInstance, is_instance_of

        if isinstance(pat, ast.MatchValue):
            return value == self.me.ev(pat.value)
        if isinstance(pat, ast.MatchSingleton):
            return value is pat.value
        if isinstance(pat, ast.MatchAs):
            if pat.pattern is not None and not self._match(pat.pattern, value):
                return False
            if pat.name is not None:
                self.me.env[pat.name] = value
            return True
        if isinstance(pat, ast.MatchOr):
            return any(self._match(p, value) for p in pat.patterns)
        if isinstance(pat, ast.MatchSequence):
            is_seq = isinstance(value, (list, tuple)) or (isinstance(value, UserInstance) and value._uc_class._uc_kind == "namedtuple")
            if not is_seq:
                return False
            vals = list(value)
            stars = [i for i, p in enumerate(pat.patterns) if isinstance(p, ast.MatchStar)]
            if not stars:
                return len(vals) == len(pat.patterns) and all(self._match(p, v) for p, v in zip(pat.patterns, vals))
            i = stars[0]
            after = len(pat.patterns) - i - 1
            if len(vals) < len(pat.patterns) - 1:
                return False
            if not all(self._match(p, v) for p, v in zip(pat.patterns[:i], vals[:i])):
                return False
            if after and not all(self._match(p, v) for p, v in zip(pat.patterns[i + 1:], vals[len(vals) - after:])):
                return False
            if pat.patterns[i].name is not None:
                self.me.env[pat.patterns[i].name] = vals[i:len(vals) - after]
            return True
        if isinstance(pat, ast.MatchMapping):
            if not isinstance(value, dict):
                return False
            keys = [self.me.ev(k) for k in pat.keys]
            if any(k not in value for k in keys):
                return False
            if not all(self._match(p, value[k]) for k, p in zip(keys, pat.patterns)):
                return False
            if pat.rest is not None:
                self.me.env[pat.rest] = {k: v for k, v in value.items() if k not in keys}
            return True
        if isinstance(pat, ast.MatchClass):
            cname = norm(pat.cls).split(".")[-1]
            builtin = {"str": str, "int": int, "float": float, "bool": bool, "list": list, "tuple": tuple, "dict": dict, "set": set, "frozenset": frozenset, "bytes": bytes}
            if cname in builtin and cname not in self.me.env:
                ty = builtin[cname]
                if not isinstance(value, ty) or (ty is int and isinstance(value, bool) and False):
                    return False
                if pat.kwd_attrs:
                    raise Unsupported(f"keyword sub-patterns on builtin {cname}")
                if len(pat.patterns) > 1:
                    raise ModelRaise("TypeError", f"{cname}() accepts 1 positional sub-pattern")
                return all(self._match(p, value) for p in pat.patterns)
            cls = self.me.ev(pat.cls)
            if not isinstance(cls, UserClass):
                raise Unsupported(f"class pattern {cname}")
            if not is_instance_of(value, cls):
                return False
            margs = cls._uc_lookup("__match_args__")
            if not isinstance(margs, (tuple, list)):
                margs = tuple(f[0] for f in cls._uc_fields)
            if len(pat.patterns) > len(margs):
                raise ModelRaise("TypeError", f"{cname}() accepts {len(margs)} positional sub-patterns")
            for p, attr in list(zip(pat.patterns, margs)) + list(zip(pat.kwd_patterns, pat.kwd_attrs)):
                try:
                    v = getattr(value, attr)
                except AttributeError:
                    return False
                if not self._match(p, v):
                    return False
            return True
        raise Unsupported(f"pattern kind {type(pat).__name__}")

    def run(self, stmts):
        for st in stmts:
            self.steps += 1
            if self.steps > self.max_steps:
                raise Unsupported("step budget exceeded in skeleton evaluation")
            r = self.stmt(st)
            if r != "next":
                return r
        return "next"

    def stmt(self, st):
        if isinstance(st, ast.If):
            if self.me.ev(st.test):
                return self.run(st.body)
            return self.run(st.orelse)
        if isinstance(st, ast.Expr) and isinstance(st.value, (ast.Yield, ast.YieldFrom)):
            self.me.ev(st.value)
            return "next"
        if isinstance(st, ast.Expr):
            if isinstance(st.value, ast.Constant):
                return "next"
            if isinstance(st.value, ast.Call) and self.on_call is not None:
                if self.on_call(st.value, self):
                    return "next"
            self.me.ev(st.value)
            return "next"
        if isinstance(st, ast.Assign):
            v = self.me.ev(st.value)
            for t in st.targets:
                self.me._bind(t, v)
            return "next"
        if isinstance(st, ast.AugAssign) and isinstance(st.target, (ast.Name, ast.Subscript, ast.Attribute)):
            load = ast.copy_location(type(st.target)(**{f: getattr(st.target, f) for f in st.target._fields if f != "ctx"}, ctx=ast.Load()), st.target)
            cur = self.me.ev(load)
            v = self.me.ev(st.value)
            import operator as _op

            inplace = {ast.Add: _op.iadd, ast.Sub: _op.isub, ast.BitOr: _op.ior, ast.BitAnd: _op.iand, ast.BitXor: _op.ixor, ast.Mult: _op.imul}.get(type(st.op))
            if inplace is not None and isinstance(cur, (list, set, dict)) and not isinstance(v, Model):
                # CPython's own in-place operators: lists, sets and dicts (`attrs |= {...}`) are modified in place, every alias sees it
                try:
                    new = inplace(cur, v)
                except TypeError as e:
                    raise ModelRaise("TypeError", f"{norm(st)[:60]}: {e}")
            elif isinstance(cur, list) and isinstance(st.op, ast.Add):
                cur.extend(v)  # in-place list extension keeps aliases, like Python
                new = cur
            elif isinstance(cur, set) and isinstance(st.op, (ast.BitOr, ast.BitAnd, ast.Sub)):
                if isinstance(st.op, ast.BitOr):
                    cur |= v
                elif isinstance(st.op, ast.BitAnd):
                    cur &= v
                else:
                    cur -= v
                new = cur
            else:
                fake = ast.BinOp(left=ast.Constant(cur), op=st.op, right=ast.Constant(v))
                new = self.me.ev_BinOp(fake)
            self.me._bind(st.target, new)
            return "next"
        if isinstance(st, ast.Pass):
            return "next"
        if isinstance(st, (ast.Global, ast.Nonlocal)):
            self.outer_names = getattr(self, "outer_names", set()) | set(st.names)
            return "next"
        if isinstance(st, ast.Assert):
            if not self.me.ev(st.test):
                return ("raise", "AssertionError")
            return "next"
        if isinstance(st, ast.AnnAssign):
            if st.value is not None:
                self.me._bind(st.target, self.me.ev(st.value))
            return "next"
        if isinstance(st, ast.Delete):
            for t in st.targets:
                if isinstance(t, ast.Subscript):
                    obj = self.me.ev(t.value)
                    key = self.me.ev(t.slice)
                    if isinstance(obj, (dict, list)):
                        try:
                            del obj[key]
                        except (KeyError, IndexError) as e:
                            raise ModelRaise(type(e).__name__, str(e))
                    else:
                        raise Unsupported(f"del item of {type(obj).__name__}")
                elif isinstance(t, ast.Name):
                    self.me.env.pop(t.id, None)
                else:
                    raise Unsupported(f"del {norm(t)}")
            return "next"
        if isinstance(st, ast.FunctionDef):
            clo = self.make_closure(st)
            if st.decorator_list:
                from .pkgenv import apply_decorators

                clo = apply_decorators(st, clo, self.me.ev)
            self.me.env[st.name] = clo
            return "next"
        if isinstance(st, ast.ClassDef):
            from .userclass import build_class

            self.me.env[st.name] = build_class(st, self)
            return "next"
        if isinstance(st, ast.Match):
            subject = self.me.ev(st.subject)
            for case in st.cases:
                if self._match(case.pattern, subject) and (case.guard is None or self.me.ev(case.guard)):
                    return self.run(case.body)
            return "next"
        if isinstance(st, (ast.Import, ast.ImportFrom)):
            table = self.me.env.get("__imports__", {})
            for al in st.names:
                nm = al.asname or al.name.split(".")[0]
                key = al.name if isinstance(st, ast.Import) else f"{st.module}.{al.name}"
                if key in table:
                    v = table[key]
                elif al.name in table:
                    v = table[al.name]
                else:
                    from .pkgenv import NS, stdlib_table

                    tab = stdlib_table()
                    if isinstance(st, ast.ImportFrom) and st.module in tab and al.name in tab[st.module]:
                        v = tab[st.module][al.name]
                    elif isinstance(st, ast.Import) and al.name in tab:
                        v = NS(**tab[al.name])
                    elif isinstance(st, ast.ImportFrom) and st.module in ("typing", "__future__", "abc", "numbers"):
                        v = object
                    elif isinstance(st, ast.ImportFrom) and "__resolve_import__" in self.me.env and (st.level or (st.module or "").split(".")[0] == "circuitgraph") \
                            and self.me.env["__resolve_import__"](st.module, al.name, st.level) is not _PKG_MISSING():
                        v = self.me.env["__resolve_import__"](st.module, al.name, st.level)
                    elif isinstance(st, ast.Import) and al.name.split(".")[0] == "circuitgraph" and "__resolve_module__" in self.me.env \
                            and self.me.env["__resolve_module__"](al.name if al.asname else "circuitgraph") is not _PKG_MISSING():
                        v = self.me.env["__resolve_module__"](al.name if al.asname else "circuitgraph")
                    elif isinstance(st, ast.ImportFrom) and (st.module or "").startswith("circuitgraph") and nm in self.me.env:
                        v = self.me.env[nm]
                    elif isinstance(st, ast.ImportFrom) and (st.module or "").split(".")[0] == "networkx" and al.name in _EXC_PARENTS:
                        v = ExcType(al.name)  # an exception class of the library, known by name
                    elif isinstance(st, ast.ImportFrom) and st.module == "networkx" and "nx" in self.me.env and not al.name.startswith("_") and hasattr(self.me.env["nx"], al.name):
                        v = getattr(self.me.env["nx"], al.name)
                    else:
                        raise Unsupported(f"import of {key}")
                if isinstance(v, ModelRaise):
                    raise v
                self.me.env[nm] = v
            return "next"
        if isinstance(st, ast.Try):
            exc = None
            r = "next"
            try:
                r = self._run_guarded(st)
                if isinstance(r, tuple) and r[0] == "raise":
                    # an explicit `raise` statement inside the try body is caught by this statement's handlers too
                    exc = ModelRaise(r[1] or "Exception", "raised by a raise statement")
            except ModelRaise as e:
                exc = e
            if exc is not None:
                handled = False
                for h in st.handlers:
                    if h.type is None:
                        names = None
                    else:
                        names = []
                        for x in (h.type.elts if isinstance(h.type, ast.Tuple) else [h.type]):
                            names += self._handler_names(x)
                    if names is None or any(exception_matches(exc.raised_as, nm) for nm in names):
                        if h.name:
                            self.me.env[h.name] = exc
                        stack = self.__dict__.setdefault("_exc_stack", [])
                        stack.append(exc)
                        try:
                            r = self.run(h.body)
                        except ModelRaise:
                            # the handler itself raises (a bare `raise`, a new exception): `finally` still runs
                            if st.finalbody:
                                r2 = self.run(st.finalbody)
                                if r2 != "next":
                                    return r2
                            raise
                        finally:
                            stack.pop()
                        handled = True
                        break
                if not handled:
                    if st.finalbody:
                        r2 = self.run(st.finalbody)
                        if r2 != "next":
                            return r2
                    raise exc
            elif r == "next":
                r = self.run(st.orelse)
            if st.finalbody:
                r2 = self.run(st.finalbody)
                if r2 != "next":
                    return r2
            return r
        if isinstance(st, ast.With):
            cms = []
            for item in st.items:
                cm = self.me.ev(item.context_expr)
                val = cm.__enter__() if hasattr(cm, "__enter__") else cm
                cms.append(cm)
                if item.optional_vars is not None:
                    self.me._bind(item.optional_vars, val)
            try:
                r = self.run(st.body)
                exc = ModelRaise(r[1] or "Exception", "raised by a raise statement") if isinstance(r, tuple) and r[0] == "raise" else None
            except ModelRaise as e:
                r, exc = "next", e
            for cm in reversed(cms):
                if hasattr(cm, "__exit__"):
                    suppressed = cm.__exit__(ExcType(exc.raised_as), exc, None) if exc is not None else cm.__exit__(None, None, None)
                    if exc is not None and suppressed:
                        exc, r = None, "next"
            if exc is not None:
                raise exc
            return r
        if isinstance(st, ast.Continue):
            return "continue"
        if isinstance(st, ast.Break):
            return "break"
        if isinstance(st, ast.Return):
            return ("return", self.me.ev(st.value) if st.value is not None else None)
        if isinstance(st, ast.Raise):
            kind = None
            if st.exc is None and self.__dict__.get("_exc_stack"):
                raise self._exc_stack[-1]  # bare `raise` in a handler: the exception being handled
            if st.exc is not None and isinstance(st.exc, ast.Name) and isinstance(self.me.env.get(st.exc.id), ModelRaise):
                raise self.me.env[st.exc.id]  # `raise e` of a caught exception object
            if st.exc is not None:
                e = st.exc.func if isinstance(st.exc, ast.Call) else st.exc
                kind = norm(e).split(".")[-1]
                if not (isinstance(e, (ast.Name, ast.Attribute)) and (kind in _EXC_PARENTS or kind in USER_EXC_PARENT or kind[:1].isupper())):
                    # not the name of an exception class: an expression that yields the exception (a factory classmethod,
                    # a variable holding an instance)
                    from .userclass import UserClass, UserInstance

                    v = self.me.ev(st.exc)
                    if isinstance(v, ModelRaise):
                        raise v
                    if isinstance(v, UserInstance):
                        kind = v._uc_class._uc_name
                    elif isinstance(v, UserClass):
                        kind = v._uc_name
                    elif isinstance(v, BaseException):
                        kind = type(v).__name__
                    elif isinstance(v, type) and issubclass(v, BaseException):
                        kind = v.__name__
                    else:
                        raise Unsupported(f"raise of {norm(st.exc)[:60]}")
            if self.on_raise:
                self.on_raise(st, kind)
            return ("raise", RaisedKind(kind) if kind is not None else None)
        if isinstance(st, ast.For):
            src = self.me.ev(st.iter)
            # iterate lazily (itertools.count() ...) but over a snapshot of sized containers (mutation during iteration
            # of a list/set/dict would be an error in CPython for set/dict; the package never relies on it)
            if isinstance(src, list):
                # a list is walked by position, live: items appended by the loop body are visited too (work lists)
                def _live(lst):
                    i_ = 0
                    while i_ < len(lst):
                        yield lst[i_]
                        i_ += 1
                it = _live(src)
            else:
                it = list(src) if isinstance(src, (tuple, set, frozenset, dict, str)) else iter(src)
            n_iter = 0
            for x in it:
                n_iter += 1
                if n_iter > 100000:
                    raise ModelRaise("NonTermination", "for loop exceeds 100000 iterations on a small model")
                self.me._bind(st.target, x)
                r = self.run(st.body)
                if r == "break":
                    break
                if r in ("next", "continue"):
                    continue
                return r
            else:
                return self.run(st.orelse)
            return "next"
        if isinstance(st, ast.While):
            n = 0
            while self.me.ev(st.test):
                n += 1
                if n > 1000:
                    raise ModelRaise("NonTermination", "while loop exceeds 1000 iterations on a small model")
                r = self.run(st.body)
                if r == "break":
                    break
                if r in ("next", "continue"):
                    continue
                return r
            return "next"
        raise Unsupported(f"statement kind {type(st).__name__}: {norm(st)[:80]}")
