"""
Model of the Verilog front end for evaluation:

* the Lark grammar file is loaded with lark (the repository's own dependency) *as data* and used to
  build parse trees of model netlists;
* the transformer callbacks of parsing/verilog.py are evaluated from source by minieval with `self`
  bound to a model instance, bottom-up over the tree exactly as lark's Transformer does
  (children first, method named after the rule, `?rule` inlining is already done by lark);
* a small reference parser/evaluator of the Verilog expression subset serves as the oracle.
"""
import ast
import re as _re

from .core import AnalysisError
from .minieval import BlockInterp, Model, ModelRaise, Unsupported
from .refmodel import RefBlackBox, RefCircuit

_LARK_CACHE = {}


def load_lark(grammar_text):
    if grammar_text not in _LARK_CACHE:
        try:
            from lark import Lark
        except ImportError as e:  # pragma: no cover
            raise AnalysisError(f"lark is not importable in the checker's interpreter: {e}")
        try:
            _LARK_CACHE[grammar_text] = Lark(grammar_text, parser="lalr", keep_all_tokens=False)
        except Exception as e:
            raise AnalysisError(f"verilog.lark does not load as a LALR grammar: {type(e).__name__}: {str(e)[:200]}", "parsing/verilog.lark")
    return _LARK_CACHE[grammar_text]


class ParseError(Exception):
    def __init__(self, kind, msg):
        super().__init__(f"{kind}: {msg}")
        self.kind = kind
        self.msg = msg


REL_PARSER = "parsing/verilog.py"
CLS_TRANSFORMER = "_VerilogCircuitGraphTransformer"


def drive_transformer(pkg, inst, text):
    """What `Lark(grammar, parser="lalr", transformer=inst).parse(text)` does: build the parse tree the grammar defines and
    call the transformer's method named after each rule, children first."""
    from lark import Tree
    from lark.exceptions import LarkError

    lark = load_lark(pkg.repo.grammar_text)
    try:
        tree = lark.parse(text)
    except LarkError as e:
        raise ModelRaise("SyntaxError", f"{type(e).__name__}: {str(e)[:160]}")
    d = object.__getattribute__(inst, "__dict__")
    if "_uc_class" in d:
        # the transformer is a class hierarchy of the module's own (built as classes of the evaluated code): a callback is whatever
        # callable attribute the class, one of its bases or a registration hook provides under the rule's name
        from .userclass import _MISSING, _Method

        def has_uc(name):
            v = d["_uc_class"]._uc_lookup(name)
            return v is not _MISSING and (isinstance(v, _Method) or callable(v)) and not name.startswith("_")

        from lark import Token

        def walk_uc(node):
            if isinstance(node, Tree):
                kids = [walk_uc(ch) for ch in node.children]
                name = str(node.data)
                return getattr(inst, name)(kids) if has_uc(name) else Tree(node.data, kids)
            if isinstance(node, Token) and has_uc(node.type):
                return getattr(inst, node.type)(node)
            return node

        res = walk_uc(tree)
        return res.children if isinstance(res, Tree) else res
    rel, cls = d["_ri_rel"], d["_ri_cls"]

    cdef = pkg.repo.classes.get((rel, cls))
    # callbacks are the methods of the class and the class-level names bound to callables (`and_gate = partialmethod(...)`)
    class_level = {t.id for st in (cdef.body if cdef is not None else ()) if isinstance(st, (ast.Assign, ast.AnnAssign)) and isinstance(getattr(st, "value", None), (ast.Call, ast.Name, ast.Lambda))
                   for t in (st.targets if isinstance(st, ast.Assign) else [st.target]) if isinstance(t, ast.Name)}

    from .pkgenv import installed_by_decorators

    installed = installed_by_decorators(pkg, rel, cls)

    def has(name):
        return (rel, f"{cls}.{name}") in pkg.repo.funcs or name in class_level or (name in installed and not name.startswith("_"))

    from lark import Token

    def walk(node):
        if isinstance(node, Tree):
            kids = [walk(ch) for ch in node.children]
            name = str(node.data)
            if has(name):
                return getattr(inst, name)(kids)
            return Tree(node.data, kids)
        if isinstance(node, Token) and has(node.type):
            return getattr(inst, node.type)(node)  # terminal callback (lark's Transformer visits tokens too)
        return node

    res = walk(tree)
    if isinstance(res, Tree):
        res = res.children
    return res


class MLark(Model):
    """lark.Lark as the package uses it: constructed from the grammar file with a transformer, then `.parse(text)`."""

    _pkg = None

    def __init__(self, grammar=None, parser="lalr", transformer=None, **kw):
        if transformer is None:
            raise Unsupported("Lark() without a transformer")
        if hasattr(grammar, "read"):
            grammar.read()
        self._transformer = transformer
        self.options = kw

    def parse(self, text, *a, **k):
        return drive_transformer(type(self)._pkg, self._transformer, text)

    @classmethod
    def open(cls, grammar_filename, rel_to=None, **options):
        """Lark.open(path, **options): the grammar is read from the file."""
        return cls(_open_grammar(grammar_filename), **options)

    @classmethod
    def open_from_package(cls, package, grammar_path, search_paths=("",), **options):
        return cls(_open_grammar(grammar_path), **options)


class _GrammarFile(Model):
    def __init__(self, text):
        self._text = text

    def read(self):
        if getattr(self, "_closed", False):
            raise ModelRaise("ValueError", "I/O operation on closed file.")
        return self._text

    def close(self):
        self._closed = True

    @property
    def closed(self):
        return getattr(self, "_closed", False)

    def __enter__(self):
        return self

    def __exit__(self, *a):
        self._closed = True
        return False


class _PPath(Model):
    """Just enough of pathlib.Path for `Path(__file__).parent.absolute() / "verilog.lark"`."""

    def __init__(self, p="."):
        self._p = str(p)

    @property
    def parent(self):
        return _PPath(self._p.rsplit("/", 1)[0] if "/" in self._p else ".")

    def absolute(self):
        return self

    resolve = absolute

    def __truediv__(self, o):
        return _PPath(self._p + "/" + str(o))

    def joinpath(self, *parts):
        return _PPath("/".join([self._p] + [str(x) for x in parts]))

    def with_name(self, name):
        return _PPath((self._p.rsplit("/", 1)[0] + "/" if "/" in self._p else "") + str(name))

    def with_suffix(self, suffix):
        head, _, tail = self._p.rpartition("/")
        stem = tail.rsplit(".", 1)[0] if "." in tail else tail
        return _PPath((head + "/" if head else "") + stem + suffix)

    @property
    def name(self):
        return self._p.rsplit("/", 1)[-1]

    @property
    def suffix(self):
        n = self._p.rsplit("/", 1)[-1]
        return "." + n.rsplit(".", 1)[1] if "." in n[1:] else ""

    @property
    def stem(self):
        n = self._p.rsplit("/", 1)[-1]
        return n.rsplit(".", 1)[0] if "." in n[1:] else n

    def __str__(self):
        return self._p

    def __fspath__(self):
        return self._p

    def open(self, *a, **k):
        return _open_grammar(self)

    def read_text(self, *a, **k):
        return _open_grammar(self).read()


_GRAMMAR_OF = {}


def _open_grammar(path, *a, **k):
    ps = str(path)
    if not ps.endswith(".lark"):
        raise ModelRaise("FileNotFoundError", ps)
    return _GrammarFile(_GRAMMAR_OF.get("text", ""))


def prepare_parser_env(pkg):
    """Bind, in the module environment of parsing/verilog.py, what `parse_verilog_netlist` itself needs: the transformer class
    (the repository's own, evaluated from source), `Lark`, and the grammar file behind `open(Path(__file__)... / "verilog.lark")`."""
    from .pkgenv import repo_class

    env = pkg.env(REL_PARSER)
    if env.get("__parser_env_ready__"):
        return env
    if (REL_PARSER, CLS_TRANSFORMER) not in pkg.repo.classes:
        raise AnalysisError(f"anchor vanished: class {CLS_TRANSFORMER}", REL_PARSER)
    env.setdefault("super", lambda *a: None)
    env.setdefault("type", type)
    cdef = pkg.repo.classes[(REL_PARSER, CLS_TRANSFORMER)]
    from .userclass import UserClass

    own_bases = [b for b in cdef.bases if (REL_PARSER, ast.unparse(b).split(".")[-1]) in pkg.repo.classes or pkg.repo.class_of_expr(REL_PARSER, b) is not None]
    if not ((own_bases or cdef.keywords) and isinstance(env.get(CLS_TRANSFORMER), UserClass)):
        # (a transformer spread over base classes of the module / registered through class keywords stays the class the
        # evaluator built from the whole hierarchy)
        env[CLS_TRANSFORMER] = repo_class(pkg, REL_PARSER, CLS_TRANSFORMER)
    lark_cls = type("MLarkBound", (MLark,), {"_pkg": pkg})
    env["Lark"] = lark_cls
    env["Path"] = _PPath
    env["__file__"] = "/site-packages/circuitgraph/parsing/verilog.py"
    env["open"] = _open_grammar
    _GRAMMAR_OF["text"] = pkg.repo.grammar_text
    # module-level constants that needed Path / __file__ (a hoisted grammar path ...) can be bound now
    from .pkgenv import bind_module_constants

    bind_module_constants(pkg.repo.tree[REL_PARSER], env)
    env["__parser_env_ready__"] = True
    return env


def full_parse(pkg, text, blackboxes=(), warnings=False, error_on_warning=False):
    """The full parser: `parse_verilog_netlist` itself evaluated from source (so whatever it does around the grammar - caches,
    pre-processing, result unpacking - is part of what is decided), with `Lark` standing for "build the tree the grammar
    defines and run the transformer callbacks bottom-up".

    Returns a RefCircuit / repository Circuit; raises ParseError(kind, msg) for a rejected netlist."""
    prepare_parser_env(pkg)
    if (REL_PARSER, "parse_verilog_netlist") not in pkg.repo.funcs:
        raise AnalysisError("anchor vanished: parse_verilog_netlist", REL_PARSER)
    r = pkg.call(REL_PARSER, "parse_verilog_netlist", text, list(blackboxes), warnings, error_on_warning)
    if r[0] == "raise":
        raise ParseError(r[1], r[2] if len(r) > 2 else "")
    res = r[1]
    if not isinstance(res, RefCircuit) and not (isinstance(res, Model) and hasattr(res, "graph")):
        raise ParseError("BadResult", f"parse_verilog_netlist did not return a circuit: {str(res)[:80]}")
    return res


# ---------------------------------------------------------------------------
# regex module model (real `re` semantics on plain strings)
# ---------------------------------------------------------------------------
class MMatch(Model):
    def __init__(self, m):
        self._m = m

    def group(self, *a):
        return self._m.group(*a)

    def groups(self):
        return self._m.groups()

    def start(self, *a):
        return self._m.start(*a)

    def end(self, *a):
        return self._m.end(*a)

    def span(self, *a):
        return self._m.span(*a)

    def groupdict(self):
        return self._m.groupdict()

    def __getitem__(self, i):
        return self._m[i]

    @property
    def string(self):
        return self._m.string


class MRe(Model):
    DOTALL = _re.DOTALL
    MULTILINE = _re.MULTILINE
    IGNORECASE = _re.IGNORECASE
    S = _re.S
    M = _re.M
    I = _re.I
    X = _re.X
    VERBOSE = _re.VERBOSE

    def search(self, pat, text, flags=0):
        try:
            m = _re.search(pat, text, flags)
        except _re.error as e:
            raise ModelRaise("re.error", str(e))
        return MMatch(m) if m else None

    def match(self, pat, text, flags=0):
        m = _re.match(pat, text, flags)
        return MMatch(m) if m else None

    def findall(self, pat, text, flags=0):
        try:
            return _re.findall(pat, text, flags)
        except _re.error as e:
            raise ModelRaise("re.error", str(e))

    def sub(self, pat, repl, text, count=0, flags=0):
        return _re.sub(pat, (lambda m: repl(MMatch(m))) if callable(repl) else repl, text, count=count, flags=flags)

    def subn(self, pat, repl, text, count=0, flags=0):
        return _re.subn(pat, (lambda m: repl(MMatch(m))) if callable(repl) else repl, text, count=count, flags=flags)

    def split(self, pat, text):
        return _re.split(pat, text)

    def compile(self, pat, flags=0):
        try:
            return MPattern(_re.compile(pat, flags))
        except _re.error as e:
            raise ModelRaise("re.error", str(e))

    def finditer(self, pat, text, flags=0):
        return iter([MMatch(m) for m in _re.finditer(pat, text, flags)])

    def fullmatch(self, pat, text, flags=0):
        m = _re.fullmatch(pat, text, flags)
        return MMatch(m) if m else None

    def escape(self, s):
        return _re.escape(s)


class MPattern(Model):
    def __init__(self, p):
        self._p = p

    @property
    def groups(self):
        return self._p.groups

    @property
    def groupindex(self):
        return dict(self._p.groupindex)

    @property
    def pattern(self):
        return self._p.pattern

    @property
    def flags(self):
        return self._p.flags

    def search(self, text, *a):
        m = self._p.search(text, *a)
        return MMatch(m) if m else None

    def match(self, text, *a):
        m = self._p.match(text, *a)
        return MMatch(m) if m else None

    def fullmatch(self, text, *a):
        m = self._p.fullmatch(text, *a)
        return MMatch(m) if m else None

    def findall(self, text, *a):
        return self._p.findall(text, *a)

    def finditer(self, text, *a):
        return iter([MMatch(m) for m in self._p.finditer(text, *a)])

    def sub(self, repl, text, count=0):
        return self._p.sub((lambda m: repl(MMatch(m))) if callable(repl) else repl, text, count=count)

    def split(self, text):
        return self._p.split(text)


# ---------------------------------------------------------------------------
# reference Verilog expression subset: parser + evaluator (the oracle)
# precedence (tightest first): ~ !  >  &  >  ^ ~^ ^~  >  |  >  ?:
# ---------------------------------------------------------------------------
TOK = _re.compile(r"\s*(1'[bBhHdDoO][01xX]|~\^|\^~|[A-Za-z_][A-Za-z0-9_$]*|\\\S+|[~!&|^?:()])")


def tokenize(s):
    out, pos = [], 0
    s = s.strip()
    while pos < len(s):
        m = TOK.match(s, pos)
        if not m:
            raise ValueError(f"bad token at {s[pos:pos+10]!r}")
        out.append(m.group(1))
        pos = m.end()
    return out


class RefExpr:
    def __init__(self, toks):
        self.t = toks
        self.i = 0

    def peek(self):
        return self.t[self.i] if self.i < len(self.t) else None

    def eat(self, x=None):
        tok = self.peek()
        if x is not None and tok != x:
            raise ValueError(f"expected {x}, got {tok}")
        self.i += 1
        return tok

    def cond(self):
        c = self.orx()
        if self.peek() == "?":
            # right-associative: both branches may be conditionals themselves (`a ? b : c ? d : e` is `a ? b : (c ? d : e)`)
            self.eat()
            a = self.cond()
            self.eat(":")
            b = self.cond()
            return ("?", c, a, b)
        return c

    def orx(self):
        l = self.xor()
        while self.peek() == "|":
            self.eat()
            l = ("|", l, self.xor())
        return l

    def xor(self):
        l = self.andx()
        while self.peek() in ("^", "~^", "^~"):
            op = self.eat()
            r = self.andx()
            l = ("^", l, r) if op == "^" else ("~^", l, r)
        return l

    def andx(self):
        l = self.unary()
        while self.peek() == "&":
            self.eat()
            l = ("&", l, self.unary())
        return l

    def unary(self):
        if self.peek() in ("~", "!"):
            self.eat()
            return ("~", self.unary())  # `~~a`, `!~a`
        return self.primary()

    def primary(self):
        tok = self.eat()
        if tok == "(":
            e = self.cond()
            self.eat(")")
            return e
        if tok is None or tok in ")&|^?:~!":
            raise ValueError(f"unexpected {tok}")
        return ("v", tok)


def parse_expr(text):
    p = RefExpr(tokenize(text))
    e = p.cond()
    if p.peek() is not None:
        raise ValueError("trailing tokens")
    return e


def eval_expr(e, env):
    k = e[0]
    if k == "v":
        n = e[1]
        if len(n) == 4 and n[:2] == "1'" and n[2] in "bBhHdDoO" and n[3] in "01":
            return n[3] == "1"
        return env[n]
    if k == "~":
        return not eval_expr(e[1], env)
    if k == "&":
        return eval_expr(e[1], env) and eval_expr(e[2], env)
    if k == "|":
        return eval_expr(e[1], env) or eval_expr(e[2], env)
    if k == "^":
        return eval_expr(e[1], env) != eval_expr(e[2], env)
    if k == "~^":
        return eval_expr(e[1], env) == eval_expr(e[2], env)
    if k == "?":
        return eval_expr(e[2], env) if eval_expr(e[1], env) else eval_expr(e[3], env)
    raise ValueError(k)
