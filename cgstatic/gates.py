"""Reference gate functions (Boolean and Kleene three-valued) - the finite oracles."""
from functools import reduce

X = "X"


def bool_gate(t, ins):
    ins = list(ins)
    if t == "and":
        return all(ins)
    if t == "nand":
        return not all(ins)
    if t == "or":
        return any(ins)
    if t == "nor":
        return not any(ins)
    if t == "xor":
        return reduce(lambda a, b: a ^ b, [bool(i) for i in ins], False)
    if t == "xnor":
        return not reduce(lambda a, b: a ^ b, [bool(i) for i in ins], False)
    if t in ("buf", "bb_input"):
        (a,) = ins
        return bool(a)
    if t == "not":
        (a,) = ins
        return not a
    if t == "0":
        return False
    if t == "1":
        return True
    raise ValueError(t)


def k_not(a):
    return X if a == X else (not a)


def k_and(ins):
    if any(i is False for i in ins):
        return False
    if any(i == X for i in ins):
        return X
    return True


def k_or(ins):
    if any(i is True for i in ins):
        return True
    if any(i == X for i in ins):
        return X
    return False


def k_xor(ins):
    if any(i == X for i in ins):
        return X
    return reduce(lambda a, b: a ^ b, ins, False)


def kleene_gate(t, ins):
    ins = list(ins)
    if t == "and":
        return k_and(ins)
    if t == "nand":
        return k_not(k_and(ins))
    if t == "or":
        return k_or(ins)
    if t == "nor":
        return k_not(k_or(ins))
    if t == "xor":
        return k_xor(ins)
    if t == "xnor":
        return k_not(k_xor(ins))
    if t in ("buf", "bb_input"):
        return ins[0]
    if t == "not":
        return k_not(ins[0])
    if t == "0":
        return False
    if t == "1":
        return True
    raise ValueError(t)


def simulate(attrs, fanin, assign):
    """Evaluate an acyclic model netlist. attrs: name->type; fanin: name->list; assign: values of free nodes."""
    val = dict(assign)
    pending = [n for n in attrs if n not in val]
    guard = 0
    while pending:
        guard += 1
        if guard > 10000:
            raise ValueError("cyclic model netlist")
        rest = []
        for n in pending:
            fi = fanin.get(n, [])
            if all(f in val for f in fi):
                val[n] = bool_gate(attrs[n], [val[f] for f in fi])
            else:
                rest.append(n)
        if len(rest) == len(pending):
            raise ValueError(f"cannot evaluate {rest}")
        pending = rest
    return val
