"""
C14 - the fast Verilog parser agrees with the full parser on its documented subset.

Decided:
  L   (lexical, static: regex literals parsed with re._parser, grammar terminals via lark as data)
      every identifier sub-pattern of the fast parser's statement regexes accepts the first/rest
      characters the grammar's CNAME accepts (a narrower class silently drops statements)
  A   (evaluation: parsing/fast_verilog.py evaluated from source by cgstatic's evaluator over the
      reference graph model with a faithful `re` model; the full parser through the C02 driver) on
      netlists obeying the fast parser's documented restrictions - the library writer's own output
      for model circuits (gate-primitive form) and synthesis-style netlists (underscore names,
      constant operands, net/constant assigns, named-port blackbox instances with connected,
      constant and unconnected pins, multi-line declarations) - both parsers return the same
      inputs, outputs, blackbox instances and pin connections and the same function at every
      output and blackbox input; apart from the name of the constant nodes the graphs are identical
Not decided: equality on all texts of the subset (regex cascade vs LALR grammar is a language
equivalence question out of reach; only the families above are enumerated).
"""
import ast
import itertools
import re as _re

from ..astutil import walk_no_nested
from ..core import AnalysisError
from ..minieval import ModelRaise
from ..pkgenv import Package
from ..refmodel import RefBlackBox, RefCircuit, build, free_nodes, simulate
from ..semantic import assignments, deep_circuits, guarded, one_gate_circuits
from ..verilogmodel import ParseError, full_parse, load_lark

FILE = "parsing/fast_verilog.py"


def charset(items, parser_mod):
    """Set of ASCII chars accepted by an `IN` item list / single literal of a parsed regex."""
    c = parser_mod
    out = set()
    neg = False
    for op, av in items:
        name = str(op)
        if name == "NEGATE":
            neg = True
        elif name == "LITERAL":
            out.add(chr(av))
        elif name == "RANGE":
            out |= {chr(x) for x in range(av[0], av[1] + 1)}
        elif name == "CATEGORY":
            cat = str(av)
            if cat.endswith("CATEGORY_DIGIT"):
                out |= set("0123456789")
            elif cat.endswith("CATEGORY_WORD"):
                out |= set("abcdefghijklmnopqrstuvwxyzABCDEFGHIJKLMNOPQRSTUVWXYZ0123456789_")
            elif cat.endswith("CATEGORY_SPACE"):
                out |= set(" \t\n\r\f\v")
            else:
                raise AnalysisError(f"regex category {cat} not modelled")
        else:
            raise AnalysisError(f"regex set item {name} not modelled")
    if neg:
        out = {chr(x) for x in range(32, 127)} - out
    return out


def identifier_groups(pattern):
    """Yield (group_index, first_chars, rest_chars) for groups shaped  [first][rest]*  in a regex."""
    import re._parser as sp  # noqa: stdlib private but stable API used read-only

    tree = sp.parse(pattern)
    res = []

    def visit(seq):
        for op, av in seq:
            name = str(op)
            if name == "SUBPATTERN":
                gid, _, _, sub = av
                items = list(sub)
                if len(items) == 2 and str(items[0][0]) == "IN" and str(items[1][0]) in ("MAX_REPEAT", "MIN_REPEAT"):
                    lo, hi, rep = items[1][1]
                    rep = list(rep)
                    if len(rep) == 1 and str(rep[0][0]) == "IN":
                        res.append((gid, charset(items[0][1], sp), charset(rep[0][1], sp)))
                visit(sub)
            elif name in ("MAX_REPEAT", "MIN_REPEAT"):
                visit(av[2])
            elif name == "BRANCH":
                for b in av[1]:
                    visit(b)

    visit(tree)
    return res


def lexical_rule(chk, repo):
    import ast

    fi = repo.func(FILE, "fast_parse_verilog_netlist")
    lark = load_lark(repo.grammar_text)
    # CNAME of lark's common grammar: ("_"|LETTER) ("_"|LETTER|DIGIT)*
    cname = None
    for t in lark.terminals:
        if t.name in ("IDENTIFIER", "CNAME"):
            cname = t
    first_ok = set("abcdefghijklmnopqrstuvwxyzABCDEFGHIJKLMNOPQRSTUVWXYZ_")
    rest_ok = first_ok | set("0123456789")
    if cname is not None:
        rx = cname.pattern.to_regexp()
        # confirm by probing the terminal's own regex with single characters (pure regex evaluation of grammar data)
        m1 = {ch for ch in first_ok | set("0123456789$") if _re.fullmatch(rx, ch)}
        if m1:
            first_ok = {ch for ch in m1 if ch != "\\"}
        m2 = {ch for ch in rest_ok | set("$") if _re.fullmatch(rx, "a" + ch)}
        if m2:
            rest_ok = m2
    n = 0
    seen_pats = set()
    # every string literal of the function (wherever it is bound or passed: `regex = r"..."`, re.compile(r"..."), ...)
    # that parses as a regex containing identifier-shaped groups
    # the whole module is scanned: patterns may be precompiled at module level or live in helper functions
    # module-level string constants, for patterns assembled with f-strings (`rf"({_IDENT})\s+({_IDENT})..."`)
    consts = {}
    # ... or in a private module of the package that the fast parser imports its text-level helpers from
    # (transitively: a sub-package whose `__init__` re-exports what its modules define)
    scan_files, todo_ = [FILE], [FILE]
    while todo_:
        for imp_ in sorted(repo.imported_names(todo_.pop()).values()):
            if imp_[1] in repo.extra_files and imp_[1] not in scan_files:
                scan_files.append(imp_[1])
                todo_.append(imp_[1])
    scan_nodes = [x for f_ in scan_files for x in ast.walk(repo.tree[f_])]
    for st in [st_ for f_ in scan_files for st_ in repo.tree[f_].body]:
        if isinstance(st, (ast.Assign, ast.AnnAssign)) and getattr(st, "value", None) is not None:
            tg = st.targets[0] if isinstance(st, ast.Assign) else st.target
            if isinstance(tg, ast.Name):
                v = _static_str(st.value, consts)
                if v is not None:
                    consts[tg.id] = v
    unresolved = 0
    in_fstring = {id(x) for j in scan_nodes if isinstance(j, ast.JoinedStr) for x in ast.walk(j) if x is not j}
    for node in scan_nodes:
        if id(node) in in_fstring:
            continue
        pat = None
        if isinstance(node, ast.Constant) and isinstance(node.value, str):
            pat = node.value
        elif isinstance(node, ast.JoinedStr):
            pat = _static_str(node, consts)
            if pat is None and any(isinstance(x, ast.Constant) and isinstance(x.value, str) and "(" in x.value for x in node.values):
                unresolved += 1
        if pat is not None and "[" in pat and "(" in pat and pat not in seen_pats:
            seen_pats.add(pat)
            try:
                groups = identifier_groups(pat)
            except Exception:
                continue
            for gid, first, rest in groups:
                if not (set("abcxyzABC") <= first):
                    continue  # not an identifier class (e.g. a digit or quote class)
                n += 1
                missing_first = sorted(first_ok - first)
                missing_rest = sorted((rest_ok - rest))
                # an operand group may also accept digits/quote first (constants): only narrower-than-grammar matters
                chk.ob("C14.L.identifier-class", f"regex::{pat[:40]}::group{gid}", not missing_first and not missing_rest, file=FILE, func="fast_parse_verilog_netlist", line=node.lineno,
                       fact={"regex": pat, "group": gid, "first_chars_rejected": "".join(missing_first), "rest_chars_rejected": "".join(missing_rest)},
                       expect="accepts every first / following character the grammar's identifier terminal accepts")
    if unresolved and n < 2:
        chk.note(f"{unresolved} pattern(s) assembled from parts that are not module-level string constants: the identifier-class rule abstains (C14.A decides on netlists)")
    else:
        chk.floor("identifier groups in the fast parser's regexes", n, 2)


def _static_str(node, consts):
    """The string a literal / f-string over module-level string constants / concatenation of such denotes, else None."""
    if isinstance(node, ast.Constant) and isinstance(node.value, str):
        return node.value
    if isinstance(node, ast.Name) and node.id in consts:
        return consts[node.id]
    if isinstance(node, ast.JoinedStr):
        out = ""
        for v in node.values:
            if isinstance(v, ast.Constant) and isinstance(v.value, str):
                out += v.value
            elif isinstance(v, ast.FormattedValue) and v.format_spec is None and v.conversion == -1:
                x = _static_str(v.value, consts)
                if x is None:
                    return None
                out += x
            else:
                return None
        return out
    if isinstance(node, ast.BinOp) and isinstance(node.op, ast.Add):
        a_, b_ = _static_str(node.left, consts), _static_str(node.right, consts)
        return a_ + b_ if a_ is not None and b_ is not None else None
    return None


def writer_texts(P):
    from ..corpus import corpus

    fams = list(one_gate_circuits(max_arity=3)) + [(k, c) for k, c in deep_circuits()] + [(f"corpus::{k}", c) for k, tags, c in corpus("quick", exclude=("x",))]
    fams.append(("const-fed", build({"a": ("input", []), "k": ("1", []), "z": ("0", []), "g": ("and", ["a", "k"]), "h": ("or", ["g", "z"])}, outputs=["h", "g"], name="cf")))
    ff = RefBlackBox("dff", ["clk", "d"], ["q", "qn"])
    bbs = [ff]
    fams.append(("blackbox", build({"a": ("input", []), "ck": ("input", []), "u0.clk": ("bb_input", ["ck"]), "u0.d": ("bb_input", ["g"]), "u0.q": ("bb_output", []), "u0.qn": ("bb_output", []),
                                    "w": ("buf", ["u0.q"]), "v": ("buf", ["u0.qn"]), "g": ("xor", ["a", "w"]), "o": ("nor", ["w", "v"])}, outputs=["o"], name="bbx", blackboxes={"u0": ff})))
    fams.append(("blackbox-unconnected", build({"a": ("input", []), "u0.clk": ("bb_input", []), "u0.d": ("bb_input", ["a"]), "u0.q": ("bb_output", []), "u0.qn": ("bb_output", []),
                                                "o": ("buf", ["u0.q"])}, outputs=["o"], name="bbu", blackboxes={"u0": ff})))
    for k, c in fams:
        r = P.call("io.py", "circuit_to_verilog", c, False)
        if r[0] == "return":
            yield f"writer::{k}", r[1], bbs, c.name


def synthesis_texts():
    ff = RefBlackBox("dff", ["clk", "d"], ["q", "qn"])
    yield "yosys-underscore-names", """module top (a, b, c, y, z);
  input a, b;
  input c;
  output y, z;
  wire _00_, _01_;
  wire n3;
  and _10_ (_00_, a, b);
  nor _11_ (_01_, _00_, c, 1'b0);
  xor g3 (n3, _01_, 1'b1);
  assign y = n3;
  assign z = _00_;
endmodule
""", [], "top"
    yield "assign-underscore-lvalue", """module top (a, b, y);
  input a, b;
  output y;
  wire _w_;
  nand g0 (_w_, a, b);
  assign y = _w_;
endmodule
""", [], "top"
    yield "constant-assign", """module k (a, y, z, w);
  input a;
  output y, z, w;
  assign y = 1'b1;
  assign z = 1'b0;
  buf b0 (w, a);
endmodule
""", [], "k"
    yield "multiline-declarations", """module m (a,
  b, c, y);
  input a,
    b,
    c;
  output y;
  wire t0, t1;
  or o0 (t0, a, b);
  xnor x0 (t1, t0, c);
  not n0 (y, t1);
endmodule
""", [], "m"
    yield "blackbox-pins", """module s (ck, a, y);
  input ck, a;
  output y;
  wire d0, q0, q1;
  xor x0 (d0, a, q1);
  dff r0 (.clk(ck), .d(d0), .q(q0), .qn());
  dff r1 (.clk(ck), .d(1'b1), .q(q1), .qn());
  and a0 (y, q0, q1);
endmodule
""", [ff], "s"
    yield "two-statements-on-one-line", """module l (a, b, y);
  input a, b; output y;
  wire w; nand g0 (w, a, b);
  not n0 (y, w);
endmodule
""", [], "l"
    yield "whole-netlist-on-one-line", "module o (a, b, y); input a, b; output y; wire w; and g0 (w, a, b); buf b0 (y, w); endmodule\n", [], "o"
    yield "declarations-after-instances", """module d (a, b, y, z);
  input a;
  wire w;
  and g0 (w, a, b);
  input b;
  not n0 (y, w);
  output y;
  buf b1 (z, b);
  output z;
endmodule
""", [], "d"
    yield "net-named-tie0", """module t (a, y, z);
  input a;
  output y, z;
  wire tie0;
  not n0 (tie0, a);
  and a0 (y, tie0, a);
  assign z = 1'b0;
endmodule
""", [], "t"
    yield "nets-named-tie0-and-tie0_", """module t (a, b, y, z);
  input a, b;
  output y, z;
  wire tie0, tie0_, tie1, tie1_;
  not n0 (tie0, a);
  or o1 (tie0_, tie0, b);
  and a1 (tie1, a, b);
  xor x1 (tie1_, tie1, 1'b1);
  and a0 (y, tie0_, tie1_, 1'b1);
  assign z = 1'b0;
endmodule
""", [], "t"
    yield "outputs-named-tie0-and-tie1", """module t (a, b, tie0, tie1, y);
  input a, b;
  output tie0, tie1, y;
  wire w;
  nand n0 (tie0, a, b);
  or o0 (w, a, 1'b0);
  xor x0 (tie1, w, 1'b1);
  and a0 (y, w, b);
endmodule
""", [], "t"
    yield "implicit-wire-named-tie1", """module t (a, b, y, z);
  input a, b;
  output y, z;
  nor n0 (tie1, a, b);
  and a0 (y, tie1, 1'b1);
  or o0 (z, tie1, 1'b0, a);
endmodule
""", [], "t"
    yield "instance-named-tie0", """module t (a, y);
  input a;
  output y;
  wire w;
  not tie0 (w, a);
  and tie1 (y, w, 1'b1);
endmodule
""", [], "t"
    # a flop with two outputs, one left unconnected (`.QN()`), and pin names that are suffixes of each other (D / CD, Q / QN)
    fd = RefBlackBox("fd2", ["CP", "D", "CD"], ["Q", "QN"])
    yield "flop-with-unconnected-output-pin", """module s (ck, rst, d0, y);
  input ck, rst, d0;
  output y;
  wire q0;
  fd2 r0 (.CD(rst), .CP(ck), .D(d0), .Q(q0), .QN());
  buf b0 (y, q0);
endmodule
""", [fd], "s"
    # identifiers that end in a declaration keyword after a `$` (a word boundary for a regular expression, not for Verilog)
    yield "identifiers-ending-in-$input-and-$output", """module t (a$input , b, x$output , y);
  input a$input , b;
  output x$output , y;
  wire w$input ;
  nand g$input (w$input , a$input , b);
  not g$output (x$output , w$input );
  and k$input (y, w$input , b);
endmodule
""", [], "t"
    # a module without ports: a constant on a blackbox pin
    yield "module-without-ports", """module np ();
  fd2 r0 (.CD(1'b0), .CP(1'b1), .D(1'b0), .Q(), .QN());
endmodule
""", [fd], "np"
    # a spare instance: every pin written and left unconnected, next to a connected one (the pins exist all the same)
    yield "instance-with-every-pin-unconnected", """module s (ck, rst, d0, y);
  input ck, rst, d0;
  output y;
  wire q0;
  fd2 spare (.CD(), .CP(), .D(), .Q(), .QN());
  fd2 r0 (.CD(rst), .CP(ck), .D(d0), .Q(q0), .QN());
  buf b0 (y, q0);
endmodule
""", [fd], "s"
    yield "flop-pins-that-are-suffixes-of-each-other", """module s (ck, rst, d0, d1, y, z);
  input ck, rst, d0, d1;
  output y, z;
  wire q0, q1, nq1;
  fd2 r0 (.QN(), .CD(), .D(d0), .Q(q0), .CP(ck));
  fd2 r1 (.CD(rst), .D(d1), .CP(ck), .QN(nq1), .Q(q1));
  and a0 (y, q0, q1);
  buf b0 (z, nq1);
endmodule
""", [fd], "s"
    yield "nets-named-like-the-value-part-of-a-constant", """module t (d0, d1, b0, h1, s, y, z, p0, p1);
  input d0, d1, b0, h1, s;
  output y, z, p0, p1;
  wire ns, t0, t1;
  assign p0 = d0;
  assign p1 = d1;
  not n0 (ns, s);
  and a0 (t0, p0, ns, b0);
  and a1 (t1, p1, s, h1);
  or o0 (y, t0, t1);
  assign z = b0;
endmodule
""", [], "t"
    yield "one-net-on-two-input-pins-of-an-instance", """module s (ck, en, y);
  input ck, en;
  output y;
  wire q0;
  fd2 r0 (.CP(ck), .D(en), .CD(en), .Q(q0), .QN());
  buf b0 (y, q0);
endmodule
""", [RefBlackBox("fd2", ["CP", "D", "CD"], ["Q", "QN"])], "s"
    # identifiers that end in a declaration keyword, followed by white space (`wire my_input , w2;`, an instance `x_output (...)`)
    yield "identifiers-ending-in-input-and-output", """module m (a, b, y, z);
  input a, b;
  output y, z;
  wire my_input , w2, the_output , x_endmodule;
  and g (w2, a, b);
  buf g4 (x_endmodule, a);
  buf g1 (my_input, a);
  not x_output (the_output, b);
  and g2 (y, w2, my_input, x_endmodule);
  or g3 (z, the_output, w2);
endmodule
""", [], "m"
    # named connections written without blanks after the commas, an unconnected pin among them
    yield "pin-connections-without-blanks", """module s (ck, rst, d0, y);
  input ck, rst, d0;
  output y;
  wire q0;
  fd2 r0 (.CD(rst),.QN(),.CP(ck),.D(d0),.Q(q0));
  buf b0 (y, q0);
endmodule
""", [fd], "s"
    # a primitive listing one net twice (edges form a set; on a parity gate the pair cancels out)
    yield "primitive-with-a-repeated-operand", """module r (a, b, y, z, w, v);
  input a, b;
  output y, z, w, v;
  xor g0 (y, a, a);
  xnor g1 (z, a, b, b);
  and g2 (w, a, a, b);
  xor g3 (v, a, b, a);
endmodule
""", [], "r"
    # a wire that is read but never driven (only the declared outputs have to be driven): an undriven buf in both parsers
    yield "net-read-but-never-driven", """module f (a, y, z);
  input a;
  output y, z;
  wire w, v;
  and g (y, a, w);
  assign z = v;
endmodule
""", [], "f"
    yield "net-named-tie1-input", """module t (tie1, a, y);
  input tie1, a;
  output y;
  wire w;
  or o0 (w, tie1, 1'b1);
  and a0 (y, w, a);
endmodule
""", [], "t"


@guarded
def compare(full, fast):
    if not isinstance(fast, RefCircuit):
        return {"problem": "fast parser did not return a circuit"}
    if fast.inputs() != full.inputs() or fast.outputs() != full.outputs():
        return {"problem": "inputs/outputs differ", "fast_inputs": sorted(fast.inputs()), "fast_outputs": sorted(fast.outputs()), "full_inputs": sorted(full.inputs()), "full_outputs": sorted(full.outputs())}
    if set(fast.blackboxes) != set(full.blackboxes) or any(fast.blackboxes[k] is not full.blackboxes[k] for k in full.blackboxes):
        return {"problem": "blackbox instances differ", "fast": sorted(fast.blackboxes), "full": sorted(full.blackboxes)}
    # constants may be named differently
    const_map = {}
    for t in ("0", "1"):
        a = sorted(fast.filter_type(t))
        b = sorted(full.filter_type(t))
        if len(a) != len(b) or len(a) > 1:
            return {"problem": "constant nodes differ", "type": t, "fast": a, "full": b}
        if a:
            const_map[a[0]] = b[0]
    ren = lambda n: const_map.get(n, n)
    fn = {ren(n) for n in fast.nodes()}
    if fn != set(full.nodes()):
        return {"problem": "node sets differ (apart from constant names)", "only_fast": sorted(fn - set(full.nodes())), "only_full": sorted(set(full.nodes()) - fn)}
    for n in fast.nodes():
        m = ren(n)
        if fast.type(n) != full.type(m) or {ren(x) for x in fast.fanin(n)} != full.fanin(m) or fast.is_output(n) != full.is_output(m):
            return {"problem": "graphs differ", "node": n, "fast": [fast.type(n), sorted(fast.fanin(n)), fast.is_output(n)], "full": [full.type(m), sorted(full.fanin(m)), full.is_output(m)]}
    return None


def run(chk):
    repo = chk.repo
    chk.explanation = ("Static lexical rule: identifier character classes of the fast parser's regex literals (re._parser) vs the grammar's identifier terminal. Evaluation: fast_parse_verilog_netlist evaluated from "
                       "source with a faithful `re` model on the writer's output for model circuits and on synthesis-style netlists, compared node by node with the full parser's result (C02 driver).")
    chk.assume("regex semantics are Python's own `re` (the model forwards to it on plain strings); CATEGORY_DIGIT is ASCII 0-9 on these texts")
    lexical_rule(chk, repo)
    P = Package(repo)
    fi = repo.func(FILE, "fast_parse_verilog_netlist")
    n = 0
    texts = list(writer_texts(P)) + list(synthesis_texts())
    for name, text, bbs, mname in texts:
        n += 1
        defs_before = [(set(b_.input_set), set(b_.output_set)) for b_ in bbs]
        try:
            full = full_parse(P, text, bbs)
        except ParseError as e:
            # every netlist of these families is inside the documented subset of both parsers
            chk.ob("C14.A.agreement", name, False, file="parsing/verilog.py", func="parse_verilog_netlist", fact={"problem": "the full parser rejects a conforming netlist", "error": str(e)[:160]},
                   expect="both parsers return the same circuit")
            for b_, d_ in zip(bbs, defs_before):
                b_.input_set, b_.output_set = set(d_[0]), set(d_[1])
            continue
        touched = [b_.name for b_, d_ in zip(bbs, defs_before) if (b_.input_set, b_.output_set) != d_]
        for b_, d_ in zip(bbs, defs_before):
            b_.input_set, b_.output_set = set(d_[0]), set(d_[1])
        r = P.call(FILE, "fast_parse_verilog_netlist", text, bbs)
        touched += [b_.name for b_, d_ in zip(bbs, defs_before) if (b_.input_set, b_.output_set) != d_]
        for b_, d_ in zip(bbs, defs_before):
            b_.input_set, b_.output_set = set(d_[0]), set(d_[1])
        if touched:
            prob = {"problem": "a parser modified the BlackBox definitions it was given (they are shared by every instance and by later parses)", "definitions": touched}
        elif r[0] != "return":
            prob = {"problem": "fast parser raises", "result": str(r)[:160]}
        else:
            prob = compare(full, r[1])
            if prob is None and r[1].name != full.name:
                prob = {"problem": "module name differs", "fast": r[1].name, "full": full.name}
        chk.ob("C14.A.agreement", name, prob is None, file=FILE, func="fast_parse_verilog_netlist", line=fi.node.lineno, fact=prob or {"nodes": len(full.nodes())},
               expect="same inputs, outputs, blackbox pins and identical graph apart from constant node names")
    # the same agreement over the repository's OWN Circuit class (the full parser builds its result through Circuit.add /
    # add_blackbox / relabel ..., the fast parser writes the graph directly) for the netlists with blackboxes / constants
    from ..pkgenv import to_ref

    PFS = Package(repo, full_stack=True)
    for name, text, bbs, mname in [t for t in texts if t[2] or "tie" in t[0] or "constant" in t[0]]:
        n += 1
        try:
            full = to_ref(full_parse(PFS, text, bbs))
        except ParseError as e:
            chk.ob("C14.A.agreement", f"{name}@full-stack", False, file="parsing/verilog.py", func="parse_verilog_netlist", fact={"problem": "the full parser rejects a conforming netlist", "error": str(e)[:160]})
            continue
        r = PFS.call(FILE, "fast_parse_verilog_netlist", text, bbs)
        prob = {"problem": "fast parser raises", "result": str(r)[:160]} if r[0] != "return" else compare(full, to_ref(r[1]))
        chk.ob("C14.A.agreement", f"{name}@full-stack", prob is None, file=FILE, func="fast_parse_verilog_netlist", line=fi.node.lineno, fact=prob or {"nodes": len(full.nodes())},
               expect="same inputs, outputs, blackbox pins and identical graph apart from constant node names")
    # a rejected netlist must not influence the next parse (no state carried between calls)
    bad_text = "module b (a, y);\n  input a;\n  output y;\n  wire w;\n  not n0 (w, a);\n  mystery u0 (.d(w), .q(y));\nendmodule\n"
    good = [t for t in texts if t[0] == "yosys-underscore-names"][0]
    r_bad = P.call(FILE, "fast_parse_verilog_netlist", bad_text, [])
    r_good = P.call(FILE, "fast_parse_verilog_netlist", good[1], good[2])
    try:
        full = full_parse(P, good[1], good[2])
        prob = {"problem": "fast parser raises after a previously rejected netlist", "result": str(r_good)[:160]} if r_good[0] != "return" else compare(full, r_good[1])
    except ParseError as e:
        prob = None
    chk.ob("C14.A.no-state-between-parses", "rejected netlist, then a conforming one", prob is None and r_bad[0] == "raise", file=FILE, func="fast_parse_verilog_netlist", line=fi.node.lineno,
           fact=prob or {"first_parse": str(r_bad)[:80]}, expect="the second parse equals the full parser's result")
    # two netlists in one process whose blackbox lists use the same module name for different definitions (a library flop
    # `ff(CK, D -> Q)` and the generic `ff(clk, d -> q)`): each parse goes by the list it was given
    ffA = RefBlackBox("ff", ["CK", "D"], ["Q"])
    ffB = RefBlackBox("ff", ["clk", "d"], ["q"])
    tA = "module s (ck, a, y);\n  input ck, a;\n  output y;\n  wire q0;\n  ff r0 (.CK(ck), .D(a), .Q(q0));\n  buf b0 (y, q0);\nendmodule\n"
    tB = "module s (ck, a, y);\n  input ck, a;\n  output y;\n  wire q0;\n  ff r0 (.clk(ck), .d(a), .q(q0));\n  not b0 (y, q0);\nendmodule\n"
    prob = None
    for text_, bb_ in ((tA, ffA), (tB, ffB), (tA, ffA)):
        try:
            full = full_parse(P, text_, [bb_])
        except ParseError as e:
            prob = {"problem": "the full parser rejects the netlist after an earlier parse with another definition of the same module name", "error": str(e)[:160]}
            break
        r_ = P.call(FILE, "fast_parse_verilog_netlist", text_, [bb_])
        prob = {"problem": "fast parser raises", "result": str(r_)[:120]} if r_[0] != "return" else compare(full, r_[1])
        if prob:
            break
    chk.ob("C14.A.no-state-between-parses", "same module name, different definitions, alternating", prob is None, file="parsing/verilog.py", func="parse_verilog_netlist", fact=prob or {"parses": 3},
           expect="each parse uses the blackbox definitions it was given")
    # the same text read twice, the first result edited in place in between (a cache of parsed netlists must hand out circuits of
    # their own, the first time as well)
    for name_, text_, bbs_, _m in [t for t in texts if t[0] in ("yosys-underscore-names", "pin-connections-without-blanks")]:
        PH = Package(repo)
        r1 = PH.call(FILE, "fast_parse_verilog_netlist", text_, bbs_)
        prob = None
        if r1[0] == "return":
            first = r1[1]
            gone = sorted(first.outputs())[0]
            first.set_output(gone, False)
            first.add("added_by_the_caller", "not", fanin=sorted(first.inputs())[0], output=True)
            r2 = PH.call(FILE, "fast_parse_verilog_netlist", text_, bbs_)
            r3 = PH.call(FILE, "fast_parse_verilog_netlist", text_, bbs_)
            fresh = Package(repo).call(FILE, "fast_parse_verilog_netlist", text_, bbs_)
            for which_, r_ in (("second", r2), ("third", r3)):
                if prob is None and (r_[0] != "return" or fresh[0] != "return" or r_[1]._snapshot() != fresh[1]._snapshot()):
                    prob = {"problem": f"the {which_} read of the same text differs from a first read", "edit_to_the_first_result": f"output mark of {gone} cleared, node added_by_the_caller added",
                            "outputs": sorted(r_[1].outputs()) if r_[0] == "return" else str(r_)[:80], "expected_outputs": sorted(fresh[1].outputs()) if fresh[0] == "return" else None}
                if prob is None and r_[1] is first:
                    prob = {"problem": "the same Circuit object is returned twice"}
        chk.ob("C14.A.no-state-between-parses", f"same text twice, first result edited in between::{name_}", prob is None, file=FILE, func="fast_parse_verilog_netlist", line=fi.node.lineno, fact=prob or {"parses": 3},
               expect="every read returns a circuit of its own, equal to a first read")
    # through the public entry point
    name, text, bbs, mname = texts[0]
    r = P.call("io.py", "verilog_to_circuit", text, mname, False, bbs, False, False, True)
    chk.ob("C14.A.entry-point", "verilog_to_circuit(fast=True) uses the fast parser", r[0] == "return" and isinstance(r[1], RefCircuit), file="io.py", func="verilog_to_circuit", fact={"result": str(r)[:80]}, expect="a circuit")
    chk.floor("netlists compared", n, 30)
