"""
C12 - graph queries agree with their graph-theoretic definitions.

Decided:
  Q   (evaluation over the reference graph model, exhaustive over *all* labelled digraphs on up to
      3 nodes and a systematic subset / all (thorough) on 4 nodes, cyclic ones included) every query
      method of Circuit, evaluated from circuit.py's source with `self` bound to the model circuit,
      returns what the definition gives: fanin/fanout (single node and lists), transitive_fanin/out
      (proper ancestors/descendants), startpoints(ns)/endpoints(ns) (reflexive), is_cyclic,
      topo_sort (valid order; raises on cycles), fanin_depth/fanout_depth (longest path; ValueError
      on cycles), reconvergent_fanout_nodes / has_reconvergent_fanout (two distinct fan-out branches
      reaching a common node, the branch itself included), kcuts (size bound and separation),
      props.levelize (longest path to a source, every zero-fan-in type is a source)
  D   (syntactic) direction table: fanin uses only predecessor-direction primitives, fanout only
      successor-direction ones, transitive_fanin <-> ancestors, transitive_fanout <-> descendants
  X   (syntactic) duality: fanin_depth is the mirror image of fanout_depth, endpoints of
      startpoints, transitive_fanout of transitive_fanin, fanout of fanin under
      predecessor<->successor / fanin<->fanout / input<->output renaming
Not decided: graphs with more than 4 nodes (the methods are size-generic); `paths`.
"""
import ast
import itertools

from ..astutil import body_without_doc, dotted, func_params, walk_no_nested
from ..core import AnalysisError, norm
from ..minieval import ModelRaise
from ..pkgenv import Package
from ..refmodel import MDiGraph, RefCircuit, build

FILE = "circuit.py"


def all_digraphs(n, stride=1):
    names = ["a", "b", "c", "d"][:n]
    pairs = [(u, v) for u in names for v in names if u != v]
    idx = 0
    for bits in itertools.product([0, 1], repeat=len(pairs)):
        idx += 1
        if stride > 1 and idx % stride:
            continue
        edges = [p for p, b in zip(pairs, bits) if b]
        yield names, edges


def make(names, edges, src_type="input", flavour=None):
    preds = {n: [u for u, v in edges if v == n] for n in names}
    succ = {n: [v for u, v in edges if u == n] for n in names}
    spec = {}
    for n in names:
        spec[n] = (("and" if preds[n] else src_type), preds[n])
    outs = [n for n in names if not succ[n]] or names[-1:]
    if flavour == "dangling":
        # sinks that nobody observes and sources that are not inputs: only the first sink is an output, every source but the first
        # is a constant (the structure a query walks is the same; what is an endpoint / a startpoint is not)
        outs = outs[:1]
        first = True
        for n in names:
            if not preds[n]:
                if not first:
                    spec[n] = ("1", [])
                first = False
    return build(spec, outputs=outs)


def longest_to(g, targets, pred=True):
    """Longest path length (edges) from any node to a node in targets following succ (pred=True: paths ending in targets)."""
    order = g.topo()
    dist = {}
    step = g._succ if pred else g._pred
    seq = reversed(order) if pred else order
    for x in seq:
        best = 0 if x in targets else None
        for y in step[x]:
            if dist.get(y) is not None:
                best = max(best if best is not None else -1, dist[y] + 1)
        dist[x] = best
    return max(d for d in dist.values() if d is not None)


def check_graph(chk, P, names, edges, counters, light=False, flavour=None):
    c = make(names, edges, flavour=flavour)
    g = c.graph
    cyc = not g.is_dag()
    tag = f"n={len(names)}:" + ",".join(f"{u}{v}" for u, v in edges) + (f":{flavour}" if flavour else "")

    def call(m, *a, **k):
        counters["evals"] += 1
        return P.call_method(FILE, f"Circuit.{m}", c, *a, **k)

    def fail(rule, what, got, want):
        key = f"{rule.split('.')[-1]}::{what}"
        if key not in counters["fails"]:
            counters["fails"][key] = (rule, {"graph": tag, "got": str(got)[:160], "expected": str(want)[:160]})

    def expect(rule, what, r, want):
        counters["obs"][rule] = counters["obs"].get(rule, 0) + 1
        if r[0] != "return":
            fail(rule, what, r, want)
            return
        got = r[1]
        if isinstance(want, set):
            try:
                got = set(got)
            except TypeError:
                pass
        if got != want:
            fail(rule, what, got, want)

    for n in names:
        expect("C12.Q.fanin", "single", call("fanin", n), set(g._pred[n]))
        expect("C12.Q.fanout", "single", call("fanout", n), set(g._succ[n]))
        expect("C12.Q.transitive_fanin", "single", call("transitive_fanin", n), g.ancestors(n))
        expect("C12.Q.transitive_fanout", "single", call("transitive_fanout", n), g.descendants(n))
        sp = {x for x in names if c.type(x) == "input"}
        ep = c.outputs()
        expect("C12.Q.startpoints", "of-node", call("startpoints", n), ({n} | g.ancestors(n)) & sp)
        expect("C12.Q.endpoints", "of-node", call("endpoints", n), ({n} | g.descendants(n)) & ep)
        # a set handed in is the caller's: it is read, not enlarged - the next query with the same object answers for the same nodes
        mine = {n}
        call("startpoints", mine)
        expect("C12.Q.endpoints", "of-a-set-already-used-in-a-query", call("endpoints", mine), ({n} | g.descendants(n)) & ep)
        call("endpoints", mine)
        expect("C12.Q.startpoints", "of-a-set-already-used-in-a-query", call("startpoints", mine), ({n} | g.ancestors(n)) & sp)
        if mine != {n}:
            fail("C12.Q.startpoints", "argument-set-modified", sorted(mine), [n])
    expect("C12.Q.startpoints", "all", call("startpoints"), {x for x in names if c.type(x) == "input"})
    expect("C12.Q.endpoints", "all", call("endpoints"), c.outputs())
    # an empty node list is a node list: nothing is among "ns and its ancestors"
    for empty, tag in (([], "empty-list"), (set(), "empty-set")):
        expect("C12.Q.startpoints", f"of-{tag}", call("startpoints", empty), set())
        expect("C12.Q.endpoints", f"of-{tag}", call("endpoints", empty), set())
        expect("C12.Q.transitive_fanin", f"of-{tag}", call("transitive_fanin", empty), set())
        expect("C12.Q.fanout", f"of-{tag}", call("fanout", empty), set())
    for pair in ([] if light else itertools.combinations(names, 2)):
        pl = list(pair)
        expect("C12.Q.fanin", "list", call("fanin", pl), set().union(*[set(g._pred[x]) for x in pl]))
        expect("C12.Q.fanout", "list", call("fanout", pl), set().union(*[set(g._succ[x]) for x in pl]))
        expect("C12.Q.transitive_fanin", "list", call("transitive_fanin", pl), set().union(*[g.ancestors(x) for x in pl]))
        expect("C12.Q.transitive_fanout", "list", call("transitive_fanout", pl), set().union(*[g.descendants(x) for x in pl]))
        sp = {x for x in names if c.type(x) == "input"}
        expect("C12.Q.startpoints", "of-list", call("startpoints", pl), (set(pl) | set().union(*[g.ancestors(x) for x in pl])) & sp)
        expect("C12.Q.endpoints", "of-list", call("endpoints", set(pl)), (set(pl) | set().union(*[g.descendants(x) for x in pl])) & c.outputs())
    expect("C12.Q.is_cyclic", "value", call("is_cyclic"), cyc)
    # topo_sort
    r = call("topo_sort")
    counters["obs"]["C12.Q.topo_sort"] = counters["obs"].get("C12.Q.topo_sort", 0) + 1
    if cyc:
        ok = r[0] == "raise"
        if r[0] == "return":
            try:
                list(r[1])
                ok = False
            except ModelRaise:
                ok = True
        if not ok:
            fail("C12.Q.topo_sort", "cyclic-accepted", r, "raise on a cyclic graph")
    else:
        if r[0] != "return":
            fail("C12.Q.topo_sort", "raises-on-dag", r, "an order")
        else:
            order = list(r[1])
            pos = {x: i for i, x in enumerate(order)}
            if sorted(order) != sorted(names) or any(pos[u] >= pos[v] for u, v in edges):
                fail("C12.Q.topo_sort", "invalid-order", order, "every edge goes forward")
    # depths
    for n in names:
        for meth, pred in (("fanin_depth", True), ("fanout_depth", False)):
            r = call(meth, n)
            counters["obs"][f"C12.Q.{meth}"] = counters["obs"].get(f"C12.Q.{meth}", 0) + 1
            if cyc:
                if not (r[0] == "raise" and r[1] == "ValueError"):
                    fail(f"C12.Q.{meth}", "cyclic-not-rejected", r, "ValueError")
            else:
                want = longest_to(g, {n}, pred)
                if r != ("return", want):
                    fail(f"C12.Q.{meth}", "single", r, want)
    if not cyc:
        for pair in ([] if light else itertools.combinations(names, 2)):
            for meth, pred in (("fanin_depth", True), ("fanout_depth", False)):
                r = call(meth, list(pair))
                counters["obs"][f"C12.Q.{meth}"] = counters["obs"].get(f"C12.Q.{meth}", 0) + 1
                want = longest_to(g, set(pair), pred)
                if r != ("return", want):
                    fail(f"C12.Q.{meth}", "list", r, want)
    # reconvergence
    want = set()
    for n in names:
        for a, b in itertools.combinations(sorted(g._succ[n]), 2):
            if ({a} | g.descendants(a)) & ({b} | g.descendants(b)):
                want.add(n)
    r = call("reconvergent_fanout_nodes")
    counters["obs"]["C12.Q.reconvergent_fanout_nodes"] = counters["obs"].get("C12.Q.reconvergent_fanout_nodes", 0) + 1
    if r[0] != "return":
        fail("C12.Q.reconvergent_fanout_nodes", "raises", r, want)
    else:
        got = list(r[1])
        if set(got) != want or len(got) != len(set(got)):
            fail("C12.Q.reconvergent_fanout_nodes", "misses-a-reconvergent-node" if want - set(got) else "reports-a-non-reconvergent-node", sorted(got), sorted(want))
    expect("C12.Q.has_reconvergent_fanout", "value", call("has_reconvergent_fanout"), bool(want))
    # kcuts (acyclic only); once with a fresh memo per call and once with the documented shared `computed` cache
    if not cyc:
        srcs = {x for x in names if not g._pred[x]}
        shared = {0: {}, 1: {}, 2: {}}
        # (k = 0: no cut other than {n} fits the bound - a node with a single fan-in included)
        for n, k, use_shared in [(n, k, s) for s in (False, True) for n in names for k in (0, 1, 2)]:
            if True:
                r = call("kcuts", n, k, shared[k]) if use_shared else call("kcuts", n, k)
                counters["obs"]["C12.Q.kcuts"] = counters["obs"].get("C12.Q.kcuts", 0) + 1
                if r[0] != "return":
                    fail("C12.Q.kcuts", "raises", r, "cuts")
                    continue
                cuts = [set(x) for x in r[1]]
                if {n} not in cuts:
                    fail("C12.Q.kcuts", "trivial-cut-missing", cuts, "{n} among the cuts")
                for cut in cuts:
                    if cut == {n}:
                        continue
                    if len(cut) > k:
                        fail("C12.Q.kcuts", "size-bound", cut, f"<= {k} nodes")
                    # separation: removing the cut disconnects every source from n
                    seen, stack = set(), [s for s in srcs if s not in cut]
                    while stack:
                        x = stack.pop()
                        if x in seen or x in cut:
                            continue
                        seen.add(x)
                        stack.extend(g._succ[x])
                    if n in seen and n not in srcs:
                        fail("C12.Q.kcuts", "not-separating", cut, "every source-to-n path meets the cut")


def check_levelize(chk, P):
    specs = {
        "plain": {"a": ("input", []), "b": ("input", []), "g": ("and", ["a", "b"]), "h": ("not", ["g"]), "k": ("or", ["h", "a"])},
        "constants": {"z": ("0", []), "o": ("1", []), "x": ("x", []), "a": ("input", []), "g": ("or", ["z", "a"]), "h": ("and", ["g", "o", "x"])},
        "blackbox-source": {"a": ("input", []), "u.q": ("bb_output", []), "w": ("buf", ["u.q"]), "g": ("and", ["w", "a"]), "u.d": ("bb_input", ["g"])},
        "only-blackbox-source": {"u.q": ("bb_output", []), "w": ("buf", ["u.q"]), "n": ("not", ["w"])},
        # a gate without fan-in (an undriven gate: expressible, though lint reports it by default) is a source like any other
        "undriven-gate-as-a-source": {"a": ("input", []), "fl": ("and", []), "g": ("or", ["a", "fl"]), "h": ("not", ["g"])},
        "only-undriven-gates": {"p": ("xor", []), "q": ("buf", ["p"])},
        # gates all of whose operands are constants (a constant is a source: the gate is one step away from it), then more logic
        "gates-over-constants-only": {"z": ("0", []), "o": ("1", []), "k": ("nand", ["z", "o"]), "m": ("not", ["o"]), "a": ("input", []), "g": ("xor", ["k", "m"]), "h": ("and", ["g", "a"])},
        "a-chain-behind-one-constant": {"o": ("1", []), "n1": ("buf", ["o"]), "n2": ("not", ["n1"]), "n3": ("buf", ["n2"])},
    }
    for name, spec in specs.items():
        c = build(spec, outputs=[list(spec)[-1]])
        r = P.call("props.py", "levelize", c)
        want = {}
        for n in c.graph.topo():
            want[n] = 0 if not c.graph._pred[n] else 1 + max(want[p] for p in c.graph._pred[n])
        chk.ob("C12.Q.levelize", f"levelize::{name}", r[0] == "return" and r[1] == want, file="props.py", func="levelize", fact={"result": str(r)[:200]}, expect=want)
    c = build({"a": ("input", []), "p": ("and", ["a", "q"]), "q": ("or", ["p"])}, outputs=["q"])
    r = P.call("props.py", "levelize", c)
    chk.ob("C12.Q.levelize", "levelize::cyclic rejected", r[0] == "raise" and r[1] == "ValueError", file="props.py", func="levelize", fact={"result": str(r)[:100]}, expect="ValueError")


def check_point_types(chk, P):
    spec = {"a": ("input", []), "z": ("0", []), "u.q": ("bb_output", []), "w": ("buf", ["u.q"]), "g": ("and", ["w", "a", "z"]), "u.d": ("bb_input", ["g"]), "o": ("not", ["g"]), "v.q": ("bb_output", [])}
    c = build(spec, outputs=["o", "a"])
    for m, want in (("startpoints", {"a", "u.q", "v.q"}), ("endpoints", {"o", "a", "u.d"})):
        r = P.call_method(FILE, f"Circuit.{m}", c)
        chk.ob(f"C12.Q.{m}", f"{m}::type table (inputs+blackbox outputs / outputs+blackbox inputs)", r[0] == "return" and set(r[1]) == want, file=FILE, func=f"Circuit.{m}", fact={"result": str(r)[:120]}, expect=sorted(want))
    for m, arg, want in (("startpoints", "u.d", {"a", "u.q"}), ("startpoints", "u.q", {"u.q"}), ("endpoints", "w", {"o", "u.d"}), ("endpoints", "u.d", {"u.d"}), ("endpoints", "a", {"a", "o", "u.d"})):
        r = P.call_method(FILE, f"Circuit.{m}", c, arg)
        chk.ob(f"C12.Q.{m}", f"{m}::of {arg} with blackbox pins", r[0] == "return" and set(r[1]) == want, file=FILE, func=f"Circuit.{m}", fact={"result": str(r)[:120]}, expect=sorted(want))


# ---- syntactic rules -------------------------------------------------------
PRED_WORDS = {"predecessors", "pred", "in_edges", "ancestors", "in_degree"}
SUCC_WORDS = {"successors", "succ", "out_edges", "descendants", "neighbors", "adj", "out_degree"}


def direction_words(fn):
    words = set()
    for n in walk_no_nested(fn):
        if isinstance(n, ast.Attribute) and n.attr in PRED_WORDS | SUCC_WORDS:
            words.add(n.attr)
    return words


DUAL = {"fanin": "fanout", "fanout": "fanin", "transitive_fanin": "transitive_fanout", "transitive_fanout": "transitive_fanin", "predecessors": "successors", "successors": "predecessors",
        "ancestors": "descendants", "descendants": "ancestors", "startpoints": "endpoints", "endpoints": "startpoints", "inputs": "outputs", "outputs": "inputs",
        "fi": "fo", "fo": "fi", "bb_output": "bb_input", "bb_input": "bb_output", "fanin_depth": "fanout_depth", "fanout_depth": "fanin_depth"}


class Dualize(ast.NodeTransformer):
    def visit_Attribute(self, n):
        self.generic_visit(n)
        if n.attr in DUAL:
            n.attr = DUAL[n.attr]
        return n

    def visit_Name(self, n):
        if n.id in DUAL:
            n.id = DUAL[n.id]
        return n

    def visit_Constant(self, n):
        if isinstance(n.value, str) and n.value in DUAL:
            return ast.Constant(DUAL[n.value])
        return n

    def visit_arg(self, n):
        if n.arg in DUAL:
            n.arg = DUAL[n.arg]
        return n


def normal_body(fn, dual=False):
    import copy

    f = copy.deepcopy(fn)
    f.body = body_without_doc(f)
    if dual:
        f = Dualize().visit(f)
    f.name = "_"
    # drop comments (already gone) and docstrings of nested defs
    for n in ast.walk(f):
        if isinstance(n, ast.FunctionDef):
            n.body = body_without_doc(n) or [ast.Pass()]
    return ast.dump(ast.Module(body=f.body, type_ignores=[]), include_attributes=False)


def check_syntactic(chk, repo):
    table = {"fanin": ("pred", PRED_WORDS, SUCC_WORDS), "transitive_fanin": ("pred", PRED_WORDS, SUCC_WORDS), "fanout": ("succ", SUCC_WORDS, PRED_WORDS), "transitive_fanout": ("succ", SUCC_WORDS, PRED_WORDS)}
    for m, (d, good, bad) in table.items():
        fi = repo.func(FILE, f"Circuit.{m}")
        w = direction_words(fi.node)
        chk.ob("C12.D.direction-table", f"Circuit.{m}::graph primitives used", not (w & bad) or bool(w & good), file=FILE, func=f"Circuit.{m}", line=fi.node.lineno,
               fact={"primitives": sorted(w)}, expect=f"{d}-direction primitives only ({sorted(good)})")
    pairs = [("fanin_depth", "fanout_depth"), ("startpoints", "endpoints"), ("transitive_fanin", "transitive_fanout"), ("fanin", "fanout")]
    for a, b in pairs:
        fa = repo.func(FILE, f"Circuit.{a}")
        fb = repo.func(FILE, f"Circuit.{b}")
        same = normal_body(fa.node, dual=True) == normal_body(fb.node)
        # informational only: a one-sided refactor that keeps behaviour must not raise an alarm, so a
        # divergence is reported as a note; behaviour of both siblings is decided by rule Q
        chk.ob("C12.X.duality", f"Circuit.{a} <-> Circuit.{b}", True, file=FILE, func=f"Circuit.{a}", line=fa.node.lineno,
               fact={"mirror_images_equal": same}, expect="informational: siblings are mirror images under fanin<->fanout renaming", nontrivial=same)
        if not same:
            chk.note(f"siblings Circuit.{a} / Circuit.{b} are no longer syntactic mirror images (informational; behaviour is decided by the C12.Q rules)")


def run(chk):
    repo = chk.repo
    chk.explanation = ("Circuit's query methods are evaluated from circuit.py's source by the checker's evaluator with self bound to a reference graph model, exhaustively over all labelled "
                       "digraphs on <= 3 nodes and a systematic subset (quick) or all (thorough) on 4 nodes, and compared with the graph-theoretic definitions; plus syntactic direction-table and sibling-duality rules.")
    chk.assume("reference DiGraph model implements predecessors/successors/ancestors/descendants/topological order as networkx documents them (ancestors/descendants exclude the node itself)")
    P = Package(repo)
    counters = {"evals": 0, "fails": {}, "obs": {}}
    n_graphs = 0
    for n in (1, 2, 3):
        for names, edges in all_digraphs(n):
            check_graph(chk, P, names, edges, counters)
            n_graphs += 1
            if n == 3:
                check_graph(chk, P, names, edges, counters, flavour="dangling")
                n_graphs += 1
    # 4 nodes: every acyclic digraph (543; depth / kcuts / reconvergence only make sense there) and a systematic
    # subset (quick) or all (thorough) of the cyclic ones
    idx = 0
    for names, edges in all_digraphs(4):
        g = MDiGraph()
        for x in names:
            g.add_node(x)
        g.add_edges_from(edges)
        dag = g.is_dag()
        idx += 1
        if not dag and chk.tier != "thorough" and idx % 37:
            continue
        check_graph(chk, P, names, edges, counters, light=(chk.tier != "thorough" and dag and idx % 5 != 0))
        n_graphs += 1
        if dag and (chk.tier == "thorough" or idx % 7 == 0):
            check_graph(chk, P, names, edges, counters, light=True, flavour="dangling")
            n_graphs += 1
    for rule, cnt in sorted(counters["obs"].items()):
        mine = {k: v for k, v in counters["fails"].items() if v[0] == rule}
        if not mine:
            chk.ob(rule, f"{rule.split('.')[-1]}::all graphs", True, file=FILE, func=f"Circuit.{rule.split('.')[-1]}", fact={"graphs": n_graphs, "comparisons": cnt})
        for key, (r, fact) in mine.items():
            chk.ob(rule, key, False, file=FILE, func=f"Circuit.{rule.split('.')[-1]}", fact=fact, expect="the graph-theoretic definition")
    check_levelize(chk, P)
    check_point_types(chk, P)
    check_syntactic(chk, repo)
    from ..structural import closure_discipline_rule, vocabulary_rule

    vocabulary_rule(chk, repo, "C12.S.vocabulary", [(FILE, "Circuit.startpoints"), (FILE, "Circuit.endpoints"), (FILE, "Circuit.inputs"), ("props.py", "levelize")])
    ns = closure_discipline_rule(chk, repo, "C12.S.reflexive-closure", [(FILE, "Circuit.startpoints"), (FILE, "Circuit.endpoints"), (FILE, "Circuit.reconvergent_fanout_nodes"), (FILE, "Circuit.fanin_depth"), (FILE, "Circuit.fanout_depth")],
                                 {(FILE, "Circuit.fanin_depth"): "`reachable` only restricts the all-visited test; the seeds are tracked in `visited`", (FILE, "Circuit.fanout_depth"): "same as fanin_depth"})
    from ..structural import path_recursion_rule

    path_recursion_rule(chk, repo, "C12.R.call-depth", [(FILE, f"Circuit.{m}") for m in ("fanin", "fanout", "transitive_fanin", "transitive_fanout", "startpoints", "endpoints", "fanin_depth", "fanout_depth",
                                                                                             "reconvergent_fanout_nodes", "kcuts", "topo_sort", "is_cyclic")] + [("props.py", "levelize")])
    from ..history import history_rule

    history_rule(chk, "C12.H")
    # no state between calls: after the enumeration above the long-lived environment has answered thousands of queries
    # on graphs that reuse the node names a..d; its answers on a few rich graphs (also with k decreasing) must be those
    # of a fresh environment (memo tables in default arguments, module-level caches)
    def _norm(r):
        if r[0] != "return":
            return ("raise", r[1])
        v = r[1]
        if isinstance(v, (set, frozenset)):
            return ("set", sorted(map(str, v)))
        if isinstance(v, (list, tuple)) or hasattr(v, "__next__"):
            v = list(v)
            if all(isinstance(x, (set, frozenset)) for x in v):
                return ("sets", sorted(sorted(map(str, x)) for x in v))
            return ("list", [str(x) for x in v])
        return ("value", str(v))

    rich = [("diamond+tail", ["a", "b", "c", "d"], [("a", "b"), ("a", "c"), ("b", "d"), ("c", "d")]),
            ("two-sources", ["a", "b", "c", "d"], [("a", "c"), ("b", "c"), ("c", "d"), ("a", "d")]),
            ("chain", ["a", "b", "c", "d"], [("a", "b"), ("b", "c"), ("c", "d")]),
            ("fan-in-3", ["a", "b", "c", "d"], [("a", "d"), ("b", "d"), ("c", "d")])]
    queries = [("kcuts", ("d", 3)), ("kcuts", ("d", 2)), ("kcuts", ("d", 1)), ("kcuts", ("c", 2)), ("fanin_depth", ("d",)), ("fanout_depth", ("a",)), ("transitive_fanin", ("d",)),
               ("startpoints", ("d",)), ("reconvergent_fanout_nodes", ()), ("is_cyclic", ()), ("topo_sort", ())]
    for gname, names, edges in rich:
        c_long, c_fresh = make(names, edges), make(names, edges)
        PF = Package(repo)
        for m, args in queries:
            got = _norm(P.call_method(FILE, f"Circuit.{m}", c_long, *args))
            want = _norm(PF.call_method(FILE, f"Circuit.{m}", c_fresh, *args))
            if m == "topo_sort":
                got, want = (got[0], sorted(got[1])) if got[0] == "list" else got, (want[0], sorted(want[1])) if want[0] == "list" else want
            chk.ob("C12.H.no-state-between-calls", f"{m}{args}::{gname}", got == want, file=FILE, func=f"Circuit.{m}", fact={"long_lived_environment": str(got)[:140], "fresh_environment": str(want)[:140]} if got != want else {"same": True},
                   expect="a query's answer does not depend on earlier queries (on this or any other circuit)")
    chk.floor("graphs enumerated", n_graphs, 200)
    chk.extra["graphs"] = n_graphs
    chk.extra["method_evaluations"] = counters["evals"]
