"""
C11 - sensitivity analyses agree with their definitions.

Decided (tx.sensitization_transform / tx.sensitivity_transform / props.sensitize / sensitivity /
influence / avg_sensitivity evaluated by cgstatic's evaluator over the reference Circuit model, with
sat.solve / sat.model_count replaced by reference brute-force functions - the SAT layer itself is
decided by C01/C08):
  Z   sensitization_transform: `sat` == (inverting n changes some selected endpoint), for every
      valuation, for every node n of the model circuits (inputs, internal nodes, outputs) and for
      endpoint selections
  S   sensitize: returns None exactly when no valuation sensitizes n, otherwise a valuation of the
      startpoints that does
  T   sensitivity_transform: dif_out_s == (flipping s flips n) and the sen_out bits encode the
      number of such s
  M   sensitivity == max over valuations of that number; influence (exact) == fraction of
      valuations where flipping s flips n, per startpoint; avg_sensitivity == their sum
Not decided: approximate (approxmc) modes, circuits outside the families (supergates=True: one tree-shaped model, a recorded finding).
"""
import itertools
from fractions import Fraction

from ..pkgenv import Package
from ..refmodel import RefCircuit, build, free_nodes, simulate
from ..refsat import overrides
from ..semantic import assignments, deep_circuits, one_gate_circuits, two_level_circuits

FILE = "tx.py"


class EvalFail(Exception):
    pass


_sim = simulate


def simulate(c, a):  # noqa: F811
    from ..minieval import ModelRaise
    try:
        return _sim(c, a)
    except (ModelRaise, ValueError, KeyError) as e:
        raise EvalFail(f"{type(e).__name__}: {e}")


def flips(c, n, a, endpoints):
    v = simulate(c, a)
    forced = dict(a)
    forced[n] = not v[n]
    v2 = simulate(c, forced)
    return any(v[e] != v2[e] for e in endpoints)


def n_sensitive(c, n, sp, a):
    v = simulate(c, a)
    cnt = {}
    for s in sp:
        b = dict(a)
        b[s] = not a[s]
        cnt[s] = simulate(c, b)[n] != v[n]
    return cnt


def families(tier):
    out = [(k, c) for k, c in deep_circuits() if k in ("reconv", "consts", "in-is-out", "fanout")]
    out += list(one_gate_circuits(max_arity=3, types=["and", "nor", "xor", "xnor", "not"]))
    out += list(two_level_circuits(limit=24 if tier == "quick" else 200))
    from ..corpus import corpus

    # nodes whose sets of achievable "number of sensitive startpoints" have gaps (0 and 5 but not 2; 0 and 2 but not 1) and
    # whose maximum is below the startpoint count - a search that assumes monotonicity in the count goes wrong on them
    from ..refmodel import build as _build

    I_ = ("input", [])
    out.append(("gap::parity4-gated", _build({"a": I_, "b": I_, "c": I_, "d": I_, "e": I_, "g": I_, "p": ("xor", ["a", "b", "c", "d"]), "q": ("or", ["e", "g"]), "o": ("and", ["p", "q"])}, outputs=["o"])))
    out.append(("gap::parity-or-constant-false", _build({"a": I_, "b": I_, "c": I_, "p": ("xor", ["a", "b"]), "nc": ("not", ["c"]), "z": ("and", ["c", "nc"]), "o": ("or", ["p", "z"])}, outputs=["o"])))
    out.append(("gap::parity3-and-parity2", _build({"a": I_, "b": I_, "c": I_, "d": I_, "e": I_, "p": ("xnor", ["a", "b", "c"]), "q": ("xor", ["d", "e"]), "o": ("nor", ["p", "q"])}, outputs=["o", "p"])))
    # read-once cones (trees without shared nets) three levels deep with a parity gate under a controlled gate: a closed form for
    # tree cones has to get the 0- and 1-sensitivities of a parity gate right
    out.append(("tree::and-over-xor-of-ands", _build({"a": I_, "b": I_, "c": I_, "d": I_, "e": I_, "p": ("and", ["a", "b"]), "q": ("and", ["c", "d"]), "x": ("xor", ["p", "q"]), "o": ("and", ["x", "e"])}, outputs=["o"])))
    out.append(("tree::nor-over-xnor-of-or-and-nand", _build({"a": I_, "b": I_, "c": I_, "d": I_, "e": I_, "p": ("or", ["a", "b"]), "q": ("nand", ["c", "d"]), "x": ("xnor", ["p", "q"]), "o": ("nor", ["x", "e"])}, outputs=["o"])))
    keep = ("feedthrough-and-gate", "controlling-constants", "net-and-its-buffer", "reconvergence-through-inverters", "many-outputs-sharing-logic") if tier == "quick" else None
    out += [(f"corpus::{k}", c) for k, tags, c in corpus(tier, exclude=("x", "names", "joining", "wide")) if keep is None or k in keep]
    return out


def run(chk):
    repo = chk.repo
    chk.explanation = ("Sensitivity transforms and props analyses evaluated by the checker's evaluator over the reference Circuit model with a reference brute-force SAT layer; results compared "
                       "with the definitions (flip n / flip a startpoint and compare by exhaustive simulation).")
    chk.assume("sat.solve / sat.model_count are replaced by reference brute-force functions here; the real encoder and counters are decided by C01/C08")
    from ..structural import closure_discipline_rule

    closure_discipline_rule(chk, repo, "C11.S.reflexive-closure", [(FILE, "sensitization_transform"), (FILE, "sensitivity_transform"), ("props.py", "influence"), ("props.py", "signal_probability")], {})
    P = Package(repo, overrides=overrides())
    fz = repo.func(FILE, "sensitization_transform")
    ft = repo.func(FILE, "sensitivity_transform")
    n_eval = 0
    n_touched = 0
    for kname, c in families(chk.tier):
        snap0 = c._snapshot()
        try:
            n_eval += per_circuit(chk, P, kname, c, fz, ft)
        except (EvalFail, KeyError) as e:
            chk.ob("C11.E.result-evaluable", f"{kname}", False, file=FILE, func="sensitization_transform/sensitivity_transform", fact={"problem": f"a transform result cannot be evaluated: {e}"})
        # the analysed circuit itself is only read: output marks, types and wiring are what they were (a later analysis of the
        # same object would otherwise see another circuit)
        if c._snapshot() != snap0:
            n_touched += 1
            after = c._snapshot()
            chk.ob("C11.A.argument-untouched", f"{kname}", False, file=FILE, func="sensitization_transform / sensitivity_transform / props.*",
                   fact={"problem": "the circuit under analysis was modified by the analyses", "before": str(snap0)[:160], "after": str(after)[:160]}, expect="the argument circuit is left as it was")
    # names that collide under the transform's own `inv_<startpoint>_<node>` naming of its copies (no helper-like name involved:
    # startpoints a / a_b next to nodes b_c / c give inv_a + _b_c == inv_a_b + _c)
    from ..refmodel import build as _b2

    cn = _b2({"a": ("input", []), "b_c": ("input", []), "a_b": ("input", []), "c": ("input", []), "g1": ("and", ["a_b", "c"]), "g2": ("and", ["a", "b_c"]), "o": ("or", ["g1", "g2"])}, outputs=["o"])
    r = P.call(FILE, "sensitivity_transform", cn, "o")
    chk.ob("C11.N.copy-naming", "sensitivity_transform::startpoints a, a_b, b_c, c", r[0] == "return", file=FILE, func="sensitivity_transform", line=ft.node.lineno, fact={"result": str(r)[:160]},
           expect="the transform of a lint-clean circuit (the copies of the circuit are named apart whatever the node names are)")
    cn2 = _b2({"a": ("input", []), "a_b": ("input", []), "b_a": ("and", ["a", "a_b"]), "o": ("buf", ["b_a"])}, outputs=["o"])
    r = P.call(FILE, "sensitivity_transform", cn2, "o")
    chk.ob("C11.N.copy-naming", "sensitivity_transform::startpoints a, a_b and a node b_a", r[0] == "return", file=FILE, func="sensitivity_transform", line=ft.node.lineno, fact={"result": str(r)[:160]},
           expect="the transform of a lint-clean circuit (the copies of the circuit are named apart whatever the node names are)")
    cn3 = _b2({"sat": ("input", []), "b": ("input", []), "o": ("and", ["sat", "b"])}, outputs=["o"])
    r = P.call(FILE, "sensitization_transform", cn3, "o")
    chk.ob("C11.N.copy-naming", "sensitization_transform::an input named sat", r[0] == "return", file=FILE, func="sensitization_transform", line=fz.node.lineno, fact={"result": str(r)[:160]},
           expect="the transform of a lint-clean circuit (the miter's helper nodes are named apart whatever the node names are)")
    # influence(..., supergates=True) in exact mode: the same numbers as without the decomposition.  On a tree (no reconvergent
    # fan-out, so every gate is its own supergate) the product of the per-gate influences treats the inner nets as uniformly
    # distributed inputs
    from fractions import Fraction as _Fr

    csg = _b2({"a": ("input", []), "b": ("input", []), "c": ("input", []), "g": ("and", ["a", "b"]), "o": ("or", ["g", "c"])}, outputs=["o"])
    want_sg = {"a": _Fr(1, 4), "b": _Fr(1, 4), "c": _Fr(3, 4)}
    r = P.call("props.py", "influence", csg, "o", True, False)
    n_eval += 1
    ok = r[0] == "return" and isinstance(r[1], dict) and set(r[1]) == set(want_sg) and all(_Fr(r[1][s_]).limit_denominator(1 << 20) == want_sg[s_] for s_ in want_sg)
    chk.ob("C11.M.influence-supergates", "influence::supergates=True::or(and(a, b), c)", ok, file="props.py", func="influence", fact={"result": str(r)[:160], "expected": {k_: str(v_) for k_, v_ in want_sg.items()}},
           expect="the fraction of valuations where flipping s flips n, per startpoint - with or without the supergate decomposition")
    r = P.call("props.py", "avg_sensitivity", csg, "o", True, False)
    n_eval += 1
    ok = r[0] == "return" and isinstance(r[1], (int, float)) and _Fr(r[1]).limit_denominator(1 << 20) == sum(want_sg.values())
    chk.ob("C11.M.influence-supergates", "avg_sensitivity::supergates=True::or(and(a, b), c)", ok, file="props.py", func="avg_sensitivity", fact={"result": str(r)[:80], "expected": str(sum(want_sg.values()))}, expect="5/4")
    # second pass over the repository's own Circuit class for a few circuits
    from ..pkgenv import FullStackCaller

    FS = FullStackCaller(repo, overrides=overrides())
    for kname, c in [x for x in families(chk.tier) if x[0] in ("reconv", "consts", "in-is-out", "corpus::net-and-its-buffer", "gap::parity-or-constant-false")]:
        try:
            n_eval += per_circuit(chk, FS, f"{kname}@full-stack", c, fz, ft)
        except (EvalFail, KeyError) as e:
            chk.ob("C11.E.result-evaluable", f"{kname}@full-stack", False, file=FILE, func="sensitization_transform/sensitivity_transform", fact={"problem": f"a transform result cannot be evaluated: {e}"})
    chk.ob("C11.A.argument-untouched", "all analysed circuits", n_touched == 0, file=FILE, func="sensitization_transform / sensitivity_transform / props.*", fact={"circuits_modified": n_touched},
           expect="no analysis modifies the circuit it is given")
    from ..stale import circuit_snapshot, stale_state_rule
    from ..minieval import ModelRaise as _MR

    def _mk_call(file_, fname_, *extra):
        def _call(c):
            r = P.call(file_, fname_, c, *extra)
            if r[0] != "return":
                raise _MR(r[1], r[2] if len(r) > 2 else "")
            return r[1]
        return _call

    stale_state_rule(chk, "C11.H.no-stale-state", _mk_call(FILE, "sensitization_transform", "g"), circuit_snapshot, FILE, "sensitization_transform")
    stale_state_rule(chk, "C11.H.no-stale-state", _mk_call(FILE, "sensitivity_transform", "o"), circuit_snapshot, FILE, "sensitivity_transform")
    # the counter inside sensitivity_transform is built from the generators of logic.py: what those generators were asked for before
    # (another width, a carry input, a carry output) must not show in the transform - one environment for the whole sequence against
    # a fresh one per call
    from ..pkgenv import Package as _Pkg
    from ..stale import base_model as _base

    PSEQ = _Pkg(repo, overrides=overrides())
    for gen_call in (("adder", 1, True, True), ("adder", 2, True, False), ("adder", 3, False, True), ("full_adder",), ("half_adder",), ("popcount", 3), ("adder", 1, True, True)):
        PSEQ.call("logic.py", *gen_call)
    for kname, mk in (("base", _base), ("majority", lambda: _b2({"a": ("input", []), "b": ("input", []), "c": ("input", []), "ab": ("and", ["a", "b"]), "bc": ("and", ["b", "c"]), "ac": ("and", ["a", "c"]),
                                                                   "o": ("or", ["ab", "bc", "ac"])}, outputs=["o"]))):
        cseq = mk()
        node = sorted(cseq.outputs())[0]
        r_seq = PSEQ.call(FILE, "sensitivity_transform", cseq.copy(), node)
        r_new = _Pkg(repo, overrides=overrides()).call(FILE, "sensitivity_transform", cseq.copy(), node)
        n_eval += 2
        same = r_seq[0] == r_new[0] and (r_seq[0] != "return" or circuit_snapshot(r_seq[1]) == circuit_snapshot(r_new[1]))
        chk.ob("C11.H.no-state-between-calls", f"sensitivity_transform::{kname}::after calls to the generators of logic.py", same, file=FILE, func="sensitivity_transform",
               fact={"differs_from_a_fresh_environment": not same, "after": str(r_seq)[:100] if not same else None}, expect="the transform does not depend on earlier calls to logic.adder / popcount")
    chk.floor("evaluations", n_eval, 300)


def per_circuit(chk, P, kname, c, fz, ft):
    n_eval = 0
    if True:
        sp_all = sorted(c.startpoints())
        eps = sorted(c.endpoints())
        for n in sorted(c.nodes()):
            if c.type(n) in ("0", "1"):
                continue
            # ---- Z: sensitization_transform --------------------------------
            r = P.call(FILE, "sensitization_transform", c, n)
            n_eval += 1
            key = f"sensitization_transform::{kname}::{n}"
            if r[0] != "return" or not isinstance(r[1], RefCircuit):
                chk.ob("C11.Z.sensitization", key, False, file=FILE, func="sensitization_transform", line=fz.node.lineno, fact={"result": str(r)[:160]})
            else:
                m = r[1]
                prob = None
                if set(free_nodes(m)) != set(sp_all) or m.inputs() != set(sp_all):
                    prob = {"problem": "inputs of the transform are not the circuit's startpoints", "free": sorted(free_nodes(m))}
                else:
                    for a in assignments(sp_all):
                        want = flips(c, n, a, eps)
                        got = simulate(m, a)["sat"]
                        if got != want:
                            prob = {"problem": "sat differs from 'inverting n changes an endpoint'", "assignment": a, "sat": got, "expected": want}
                            break
                chk.ob("C11.Z.sensitization", key, prob is None, file=FILE, func="sensitization_transform", line=fz.node.lineno, fact=prob or {"valuations": 2 ** len(sp_all)},
                       expect="sat == 1 exactly for valuations where inverting n changes some endpoint")
            # ---- S: sensitize ----------------------------------------------
            r = P.call("props.py", "sensitize", c, n)
            n_eval += 1
            exists = [a for a in assignments(sp_all) if flips(c, n, a, eps)]
            if r[0] == "return":
                res = r[1]
                if res is None:
                    ok = not exists
                    fact = {"result": None, "sensitizing_valuations": len(exists)}
                else:
                    ok = isinstance(res, dict) and set(res) == set(sp_all) and flips(c, n, {k: bool(v) for k, v in res.items()}, eps)
                    fact = {"result": {k: res[k] for k in sorted(res)} if isinstance(res, dict) else str(res), "sensitizing_valuations": len(exists)}
            else:
                ok, fact = False, {"result": str(r)[:160]}
            chk.ob("C11.S.sensitize", f"sensitize::{kname}::{n}", ok, file="props.py", func="sensitize", fact=fact, expect="None iff no sensitizing valuation; otherwise a startpoint valuation that sensitizes n")
        # endpoint selection (Z with endpoints)
        if len(eps) >= 1:
            e = eps[-1]
            cone = c.transitive_fanin(e)
            for n in sorted(cone)[:3]:
                if c.type(n) in ("0", "1"):
                    continue
                r = P.call(FILE, "sensitization_transform", c, n, e)
                n_eval += 1
                key = f"sensitization_transform::{kname}::{n}->[{e}]"
                if r[0] != "return":
                    chk.ob("C11.Z.sensitization-endpoints", key, False, file=FILE, func="sensitization_transform", line=fz.node.lineno, fact={"result": str(r)[:160]})
                    continue
                m = r[1]
                sub_sp = sorted(c.startpoints(e))
                prob = None
                if set(free_nodes(m)) != set(sub_sp):
                    prob = {"problem": "inputs are not the startpoints of the selected endpoint", "free": sorted(free_nodes(m)), "expected": sub_sp}
                else:
                    for a in assignments(sub_sp):
                        full = dict(a)
                        for s in sp_all:
                            full.setdefault(s, False)
                        want = flips(c, n, full, [e])
                        got = simulate(m, a)["sat"]
                        if got != want:
                            prob = {"problem": "sat differs for the selected endpoint", "assignment": a, "sat": got, "expected": want}
                            break
                chk.ob("C11.Z.sensitization-endpoints", key, prob is None, file=FILE, func="sensitization_transform", line=fz.node.lineno, fact=prob or {"endpoint": e}, expect="sat == inverting n changes the selected endpoint")
            # the empty selection selects nothing: refused (the node is in the fan-in of no selected endpoint), or a `sat` that is
            # never 1 - not the comparison of every output that endpoints=None stands for
            n0 = sorted(cone)[0] if cone else e
            for empty, label in (([], "[]"), (set(), "set()")):
                r = P.call(FILE, "sensitization_transform", c, n0, empty)
                n_eval += 1
                prob = None
                if r[0] == "raise":
                    prob = None if r[1] == "ValueError" else {"result": str(r)[:120]}
                elif r[0] == "return" and "sat" in r[1]:
                    fr_ = sorted(free_nodes(r[1]))
                    if any(simulate(r[1], a)["sat"] for a in assignments(fr_)):
                        prob = {"problem": "an empty endpoint selection is treated like no selection: the outputs are compared", "compared": sorted(x for x in r[1].nodes() if x.startswith("dif_"))}
                else:
                    prob = {"result": str(r)[:120]}
                chk.ob("C11.Z.sensitization-endpoints", f"sensitization_transform::{kname}::{n0}->{label}", prob is None, file=FILE, func="sensitization_transform", line=fz.node.lineno, fact=prob or {},
                       expect="ValueError, or sat constant 0")
        # ---- T / M: sensitivity_transform, sensitivity, influence --------
        wants_by_node = {}
        for n in sorted(c.nodes()):
            sp = sorted(c.startpoints(n))
            if not sp or c.type(n) in ("0", "1"):
                continue
            r = P.call(FILE, "sensitivity_transform", c, n)
            n_eval += 1
            key = f"sensitivity_transform::{kname}::{n}"
            best = 0
            infl = {s: 0 for s in sp}
            rows = []
            for a in assignments(sp):
                full = dict(a)
                for s in c.startpoints():
                    full.setdefault(s, False)
                cnt = n_sensitive(c, n, sp, full)
                rows.append((a, cnt))
                best = max(best, sum(cnt.values()))
                for s in sp:
                    infl[s] += cnt[s]
            if r[0] != "return" or not isinstance(r[1], RefCircuit):
                chk.ob("C11.T.sensitivity_transform", key, False, file=FILE, func="sensitivity_transform", line=ft.node.lineno, fact={"result": str(r)[:160]})
            else:
                st = r[1]
                prob = None
                if set(free_nodes(st)) != set(sp):
                    prob = {"problem": "inputs are not the startpoints of n", "free": sorted(free_nodes(st)), "expected": sp}
                else:
                    bits = sorted((o for o in st.outputs() if o.startswith("sen_out_")), key=lambda x: int(x.rsplit("_", 1)[1]))
                    for a, cnt in rows:
                        v = simulate(st, a)
                        for s in sp:
                            if f"dif_out_{s}" not in v or v[f"dif_out_{s}"] != cnt[s]:
                                prob = {"problem": "dif_out_s differs from 'flipping s flips n'", "assignment": a, "startpoint": s, "dif_out": v.get(f"dif_out_{s}"), "expected": cnt[s]}
                                break
                        if prob:
                            break
                        num = sum((1 << i) for i, b in enumerate(bits) if v[b])
                        if num != sum(cnt.values()) or (1 << len(bits)) <= len(sp):
                            prob = {"problem": "sen_out bits do not encode the number of sensitive startpoints", "assignment": a, "sen_out": num, "expected": sum(cnt.values()), "bits": len(bits)}
                            break
                chk.ob("C11.T.sensitivity_transform", key, prob is None, file=FILE, func="sensitivity_transform", line=ft.node.lineno, fact=prob or {"startpoints": sp},
                       expect="dif_out_s == flipping s flips n; sen_out == popcount of dif_out")
            # sensitivity
            r = P.call("props.py", "sensitivity", c, n)
            n_eval += 1
            chk.ob("C11.M.sensitivity", f"sensitivity::{kname}::{n}", r == ("return", best), file="props.py", func="sensitivity", fact={"result": str(r)[:80], "expected": best, "startpoints": len(sp)},
                   expect=best)
            # influence (exact)
            r = P.call("props.py", "influence", c, n, False, False)
            n_eval += 1
            want = {s: Fraction(infl[s], 2 ** len(sp)) for s in sp}
            ok = r[0] == "return" and isinstance(r[1], dict) and set(r[1]) == set(sp) and all(Fraction(r[1][s]).limit_denominator(1 << 20) == want[s] for s in sp)
            chk.ob("C11.M.influence", f"influence::{kname}::{n}", ok, file="props.py", func="influence", fact={"result": str(r)[:160], "expected": {s: str(want[s]) for s in sp}},
                   expect="fraction of valuations where flipping s flips n, per startpoint")
            wants_by_node[n] = want
            r = P.call("props.py", "avg_sensitivity", c, n, False, False)
            n_eval += 1
            tot = sum(want.values())
            ok = r[0] == "return" and isinstance(r[1], (int, float)) and Fraction(r[1]).limit_denominator(1 << 20) == tot
            chk.ob("C11.M.avg_sensitivity", f"avg_sensitivity::{kname}::{n}", ok, file="props.py", func="avg_sensitivity", fact={"result": str(r)[:80], "expected": str(tot)}, expect=str(tot))
        # several nodes in one call (their cones share startpoints): a dict per node, each as for the single-node call
        many = sorted(wants_by_node)
        # the list form holding ONE node: the sum of its influences, as a number or as a one-entry dict (the documentation leaves
        # the form open for a one-element list; an exception is not among the forms)
        if many:
            n1 = many[-1]
            r = P.call("props.py", "avg_sensitivity", c, [n1], False, False)
            n_eval += 1
            tot1 = sum(wants_by_node[n1].values())
            v1 = r[1].get(n1) if r[0] == "return" and isinstance(r[1], dict) else r[1] if r[0] == "return" else None
            ok = isinstance(v1, (int, float)) and Fraction(v1).limit_denominator(1 << 20) == tot1
            chk.ob("C11.M.avg_sensitivity", f"avg_sensitivity::{kname}::list holding one node", ok, file="props.py", func="avg_sensitivity", fact={"result": str(r)[:120], "expected": str(tot1)},
                   expect="the sum of the node's influences")
        if len(many) >= 2:
            for order_name, ns_list in (("sorted", many), ("reversed", many[::-1])):
                r = P.call("props.py", "influence", c, list(ns_list), False, False)
                n_eval += 1
                prob = None
                if r[0] != "return" or not isinstance(r[1], dict) or set(r[1]) != set(many):
                    prob = {"result": str(r)[:160]}
                else:
                    for n_ in many:
                        got = r[1][n_]
                        w_ = wants_by_node[n_]
                        if not isinstance(got, dict) or set(got) != set(w_) or any(Fraction(got[s_]).limit_denominator(1 << 20) != w_[s_] for s_ in w_):
                            prob = {"node": n_, "result": str(got)[:160], "expected": {s_: str(v_) for s_, v_ in w_.items()}}
                            break
                chk.ob("C11.M.influence", f"influence::{kname}::list of {len(many)} nodes::{order_name}", prob is None, file="props.py", func="influence", fact=prob or {"nodes": many},
                       expect="for a list of nodes: per node, the same influences as the single-node call")
                r = P.call("props.py", "avg_sensitivity", c, list(ns_list), False, False)
                n_eval += 1
                ok = r[0] == "return" and isinstance(r[1], dict) and set(r[1]) == set(many) and all(Fraction(r[1][n_]).limit_denominator(1 << 20) == sum(wants_by_node[n_].values()) for n_ in many)
                chk.ob("C11.M.avg_sensitivity", f"avg_sensitivity::{kname}::list of {len(many)} nodes::{order_name}", ok, file="props.py", func="avg_sensitivity", fact={"result": str(r)[:160]},
                       expect="for a list of nodes: per node, the sum of its influences")
    return n_eval
