"""
C19 - transforms, queries and writers never modify or alias their argument.

Decided by the interprocedural effect / alias / freshness analysis (effects.py):
  purity     no public function of tx/props/sat/io/utils/logic and no read-only Circuit/BlackBox
             method has an effect on state reachable from a Circuit/BlackBox/graph parameter
             (path-insensitive, so an effect before a `raise` counts)
  freshness  nothing returned by those functions aliases a parameter's circuit object, graph,
             node views / attribute dicts or blackbox registry
  mutators   the set of Circuit methods that have an effect on `self` equals the documented
             mutator list (a new writer elsewhere in the class is reported)
  resolved   every call that passes parameter state to a callee is resolved (repository
             function, library table) - otherwise ANALYSIS-ERROR, never a silent pass
"""
from ..astutil import func_params
from ..core import AnalysisError
from ..effects import BB_PARTS, VIOLATING_PARTS, Analyzer

CIRCUIT_MUTATORS = {
    "__init__", "set_type", "add_subcircuit", "add_blackbox", "fill_blackbox", "add", "remove", "relabel",
    "connect", "disconnect", "set_output", "remove_unloaded",
}
SCOPE_FILES = ["tx.py", "props.py", "sat.py", "io.py", "utils.py", "logic.py", "parsing/verilog.py", "parsing/fast_verilog.py"]
TRACKED_KINDS = {"Circuit", "BlackBox", "Graph"}


_OWN = {}


def _owners(repo, m):
    from .c07 import class_callers, effective_owners

    if id(repo) not in _OWN:
        _OWN[id(repo)] = class_callers(repo)
    return effective_owners(m, _OWN[id(repo)])


def analysis(repo):
    an = Analyzer(repo)
    an.run()
    return an


def tracked_params(an, key):
    pk = an.param_kinds[key]
    # only the kinds the function *documents*: a kind inferred for a private helper's parameter from its call sites refines the
    # analysis, it does not make the helper a function the property speaks about (it may work on its caller's private copy)
    inferred = getattr(an, "inferred_kinds", {})
    return {p for p, k in pk.items() if k in TRACKED_KINDS and (key, p) not in inferred}


def run(chk):
    repo = chk.repo
    an = analysis(repo)
    chk.explanation = (
        "Interprocedural effect/alias/freshness dataflow over the package's syntax trees: abstract values are sets of "
        "(parameter, part) tags; per-function summaries (mutated parts, return aliases, stores) are computed to a fixpoint over the "
        "resolved call graph; obligations: purity and return-freshness of every public transform/query/writer and of every read-only "
        "Circuit/BlackBox method; derived mutator table equals the documented one."
    )
    chk.assume("networkx copy semantics: DiGraph.copy(), relabel_nodes(copy=True), subgraph().copy() and Graph.update() copy node/edge attribute dicts")
    chk.assume("node attribute values are immutable (str/bool); BlackBox objects are shared between circuits by design and are never mutated (checked: no effect on a 'bbfield')")
    chk.assume("no reflection (setattr/exec/eval/__dict__) in the package - checked below")

    in_scope = []
    for (rel, qual), fi in sorted(repo.funcs.items()):
        if rel in SCOPE_FILES and fi.parent is None and fi.cls is None and (rel, qual) not in repo.inherited:
            in_scope.append((fi, None))
        elif rel == "circuit.py" and qual.count(".") == 1 and qual.split(".")[0] in ("Circuit", "BlackBox") and fi.parent is None:
            # (a method Circuit inherits from a mixin of the package - possibly in a module of its own - is a method of Circuit)
            in_scope.append((fi, qual.split(".")[0]))

    n_funcs = 0
    n_with_tracked = 0
    derived_mutators = set()
    for fi, owner_cls in in_scope:
        key = (fi.file, fi.qual)
        s = an.summ[key]
        tr = tracked_params(an, key)
        charged_to_callers = False
        is_mutator = owner_cls == "Circuit" and (fi.node.name in CIRCUIT_MUTATORS or (fi.node.name.startswith("_") and not fi.node.name.startswith("__") and _owners(repo, fi.node.name) <= CIRCUIT_MUTATORS))
        if owner_cls == "Circuit" and fi.node.name.startswith("_") and not fi.node.name.startswith("__") and _owners(repo, fi.node.name) == {fi.node.name}:
            # a private method that no method of the class reaches: it acts on behalf of callers elsewhere in the package (a helper
            # of a transform, called on the transform's own working copy). What it does to `self` is an effect on the receiver at
            # every call site and is charged to the caller's parameters there - not an obligation of its own.
            is_mutator = True
            charged_to_callers = True
        is_bb_init = owner_cls == "BlackBox" and fi.node.name == "__init__"
        n_funcs += 1
        if tr:
            n_with_tracked += 1
        # unresolved calls that receive parameter state
        for u in s.unknown_calls:
            if not (set(u["params"]) & tr):
                continue
            raise AnalysisError(f"{fi.qual}: {u['why']}: `{u['text']}` - add the callee to the library table after reading it", fi.file, u["line"])
        # effects on self => derived mutator table
        if owner_cls == "Circuit":
            if any(p == "self" and part in VIOLATING_PARTS for (p, part, how) in s.mut):
                derived_mutators.add(fi.node.name)
        # purity
        seen = set()
        bad_eff = []
        for e in s.effects:
            p = e["param"]
            if p.startswith("^") or p not in tr:
                continue
            if (is_mutator or is_bb_init) and p == "self":
                continue
            if e["part"] in VIOLATING_PARTS or e["part"] == "bbfield" or (e["part"] == "blackbox" and "attribute" in e["how"]):
                ident = (p, e["part"], e["text"])
                if ident in seen:
                    continue
                seen.add(ident)
                bad_eff.append(e)
        if not (is_mutator and tr == {"self"}):
            for p in sorted(tr):
                if (is_mutator or is_bb_init) and p == "self":
                    continue
                mine = [e for e in bad_eff if e["param"] == p]
                if mine:
                    for e in mine:
                        chk.ob("C19.purity", f"{fi.file}::{fi.qual}::{p}.{e['part']}::{e['text']}", False, file=fi.file, func=fi.qual, line=e["line"],
                               fact={"parameter": p, "part": e["part"], "effect": e["how"], "construct": e["text"]},
                               expect=f"no effect on state reachable from parameter '{p}'")
                else:
                    chk.ob("C19.purity", f"{fi.file}::{fi.qual}::{p}", True, file=fi.file, func=fi.qual, line=fi.node.lineno,
                           fact={"parameter": p, "kind": an.param_kinds[key][p], "effects_on_parameter": 0})
        # freshness of the return value
        if s.returns_seen:
            pk = an.param_kinds[key]
            aliases = sorted({(p, part) for (slot, p, part) in s.ret if not p.startswith("^") and p in tr and part in VIOLATING_PARTS
                              and not (pk.get(p) == "BlackBox" and part == "self")})
            if owner_cls == "Circuit" and fi.node.name in ("__init__",):
                aliases = []
            if charged_to_callers:
                # (`return self` of such a helper - a fluent loader called on the caller's own new circuit - aliases the receiver at
                # the call site: the caller's summary carries it, and the caller's own freshness obligation decides)
                aliases = [(p, part) for (p, part) in aliases if p != "self"]
            if tr:
                chk.ob("C19.freshness", f"{fi.file}::{fi.qual}::return", not aliases, file=fi.file, func=fi.qual, line=fi.node.lineno,
                       fact={"return_may_alias": [f"{p}.{part}" for p, part in aliases], "return_kind": s.ret_kind},
                       expect="returned value shares no circuit object / graph / node view / registry with a parameter",
                       nontrivial=True)
    chk.floor("functions analysed for purity/freshness", n_funcs, 80)
    chk.floor("functions with a Circuit/BlackBox/graph parameter", n_with_tracked, 50)

    # derived mutator table == documented table
    doc = set(CIRCUIT_MUTATORS)
    from .c07 import class_callers, effective_owners

    callers = class_callers(repo)
    for m in sorted(derived_mutators | doc):
        if m in derived_mutators and m not in doc and effective_owners(m, callers) <= doc and m.startswith("_"):
            chk.ob("C19.mutator-table", f"circuit.py::Circuit.{m}", True, file="circuit.py", func=f"Circuit.{m}", fact={"private_helper_of": sorted(effective_owners(m, callers))}, nontrivial=False)
            continue
        if m in derived_mutators and m not in doc and m.startswith("_") and not m.startswith("__") and effective_owners(m, callers) == {m}:
            # a private method no method of the class reaches: a helper of code elsewhere in the package, acting on that code's own
            # working copy - its effect on `self` is charged to the caller's parameters at every call site (purity rule above)
            chk.ob("C19.mutator-table", f"circuit.py::Circuit.{m}", True, file="circuit.py", func=f"Circuit.{m}", fact={"private_helper_without_callers_in_the_class": True}, nontrivial=False)
            continue
        if m in derived_mutators and m not in doc:
            s = an.summ[("circuit.py", f"Circuit.{m}")]
            e = next((e for e in s.effects if e["param"] == "self" and e["part"] in VIOLATING_PARTS), None)
            chk.ob("C19.mutator-table", f"circuit.py::Circuit.{m}::writes self", False, file="circuit.py", func=f"Circuit.{m}", line=e["line"] if e else None,
                   fact={"effect": e}, expect="a read-only Circuit method (not in the documented mutator list) has no effect on self")
        elif m in doc and repo.has_func("circuit.py", f"Circuit.{m}"):
            chk.ob("C19.mutator-table", f"circuit.py::Circuit.{m}", True, file="circuit.py", func=f"Circuit.{m}", fact={"documented_mutator": True, "derived_effect_on_self": m in derived_mutators}, nontrivial=m in derived_mutators)

    # Circuit(...) construction sites: graph= / blackboxes= must be fresh in non-mutator scope -> covered by tags; count them
    import ast as _ast
    from ..astutil import dotted as _dotted

    ctor_sites = copy_sites = 0
    reflection = []
    for rel, tree in repo.tree.items():
        for n in _ast.walk(tree):
            if isinstance(n, _ast.Call):
                d = _dotted(n.func)
                if d in ("cg.Circuit", "Circuit", "circuitgraph.Circuit"):
                    ctor_sites += 1
                if isinstance(n.func, _ast.Attribute) and n.func.attr == "copy":
                    copy_sites += 1
                if d in ("exec", "eval", "globals", "locals", "vars", "__import__"):  # setattr / delattr are attribute stores in the effect analysis
                    # (the namespace of a helper class of the package itself - `vars(_Encoder)` to collect its registered methods - holds
                    # functions, not circuit state)
                    if d == "vars" and len(n.args) == 1 and not n.keywords and repo.class_of_expr(rel, n.args[0]) not in (None, ("circuit.py", "Circuit"), ("circuit.py", "BlackBox")):
                        continue
                    # ... also when the class is the parameter of a function that is only ever used as a class decorator on such helper classes
                    if d == "vars" and len(n.args) == 1 and not n.keywords and isinstance(n.args[0], _ast.Name) and _only_decorates_helper_classes(repo, rel, tree, n):
                        continue
                    reflection.append((rel, n.lineno, d))
            if isinstance(n, _ast.Attribute) and n.attr == "__dict__":
                if repo.class_of_expr(rel, n.value) not in (None, ("circuit.py", "Circuit"), ("circuit.py", "BlackBox")):
                    continue
                reflection.append((rel, n.lineno, "__dict__"))
    chk.ob("C19.no-reflection", "package::exec/eval/vars/__dict__", not reflection, fact={"sites": reflection}, expect="none (soundness assumption of the effect analysis)")
    chk.floor("Circuit(...) construction sites seen", ctor_sites, 10)
    chk.floor(".copy() sites seen", copy_sites, 8)
    chk.floor("call sites visited", an.call_sites, 400)
    chk.extra.update({"call_sites": an.call_sites, "resolved_call_sites": an.resolved_sites, "mutator_call_sites_on_parameter_state": an.mutator_sites,
                      "fixpoint_rounds": an.rounds, "circuit_constructor_sites": ctor_sites, "copy_sites": copy_sites,
                      "derived_mutators": sorted(derived_mutators)})


def _only_decorates_helper_classes(repo, rel, tree, call):
    """`vars(cls)` inside `def deco(cls)` where every reference to `deco` in the package is a decorator of a class outside the
    hierarchy of Circuit / BlackBox: the namespace read is that of a helper class (functions, no circuit state)."""
    import ast as _ast

    owner = next((f for f in tree.body if isinstance(f, _ast.FunctionDef) and any(x is call for x in _ast.walk(f))), None)
    if owner is None or call.args[0].id not in [a.arg for a in owner.args.posonlyargs + owner.args.args][:1]:
        return False
    circuit_family = {k for top in ("Circuit", "BlackBox") for k in repo.class_mro.get(("circuit.py", top), [("circuit.py", top)])}
    decorated, refs = 0, 0
    for rel2, tree2 in repo.tree.items():
        dec_ids = set()
        for c in _ast.walk(tree2):
            if isinstance(c, _ast.ClassDef):
                for dnode in c.decorator_list:
                    base = dnode.func if isinstance(dnode, _ast.Call) else dnode
                    nm = base.id if isinstance(base, _ast.Name) else base.attr if isinstance(base, _ast.Attribute) else None
                    if nm == owner.name:
                        if (rel2, c.name) in circuit_family or isinstance(dnode, _ast.Call):
                            return False
                        decorated += 1
                        dec_ids.add(id(base))
        for x in _ast.walk(tree2):
            if (isinstance(x, _ast.Name) and x.id == owner.name and isinstance(x.ctx, _ast.Load)) or (isinstance(x, _ast.Attribute) and x.attr == owner.name):
                if id(x) not in dec_ids:
                    refs += 1
    return decorated > 0 and refs == 0
