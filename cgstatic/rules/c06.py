"""
C06 - hierarchical composition is functional substitution.

Decided (Circuit.add_subcircuit / Circuit.fill_blackbox evaluated from circuit.py's source with `self`
bound to the reference Circuit model, tx.strip_blackboxes evaluated from tx.py; model parents and
children with connected and unconnected io, sub-blackboxes, both strip_io settings):
  S   add_subcircuit: every spliced node name_n computes what n computes in the child when the
      child's inputs take the values of the nets they were attached to (unattached inputs are free);
      nets driven from child outputs take the child's value; every other pre-existing node keeps its
      function; the parent's input / output sets are unchanged under strip_io (child io kept under
      strip_io=False); sub-blackboxes are carried under prefixed names with their pins; the child is
      left unchanged
  F   fill_blackbox: same substitution semantics for a filled instance; the filled blackbox
      disappears from the registry and the child's blackboxes appear under prefixed names
  B   strip_blackboxes: every pin becomes a primary input/output named inst_pin (ignored pins are
      deleted), no registry remains, every other node keeps its function; a name overlap raises
  G   rejected calls (unknown connection key, name overlap, existing blackbox name, io mismatch)
      raise ValueError
Not decided: parents/children outside the model families; networkx merge semantics (modelled).
"""
import itertools

from ..core import AnalysisError
from ..minieval import ModelRaise
from ..pkgenv import Package
from ..refmodel import RefBlackBox, RefCircuit, build, free_nodes, simulate
from ..semantic import assignments, guarded

FILE = "circuit.py"


def children():
    yield "half-adder", build({"x": ("input", []), "y": ("input", []), "c": ("and", ["x", "y"]), "s": ("xor", ["x", "y"])}, outputs=["c", "s"])
    yield "inv-chain", build({"i": ("input", []), "n1": ("not", ["i"]), "n2": ("nand", ["n1", "i"]), "o": ("buf", ["n2"])}, outputs=["o", "n1"])
    yield "out-is-in", build({"p": ("input", []), "q": ("input", []), "g": ("nor", ["p", "q"])}, outputs=["g", "p"])
    # nets whose names differ only by a leading underscore (`t` / `_t`), an input named `_i`: the instance prefix keeps them apart
    yield "underscore-led-names", build({"_i": ("input", []), "i": ("input", []), "t": ("and", ["_i", "i"]), "_t": ("nor", ["_i", "i"]), "o": ("xor", ["t", "_t"])}, outputs=["o", "_t"])
    yield "with-const", build({"a": ("input", []), "k": ("1", []), "g": ("xnor", ["a", "k"])}, outputs=["g"])
    ff = RefBlackBox("ff", ["d"], ["q"])
    yield "with-blackbox", build({"a": ("input", []), "r.d": ("bb_input", ["a"]), "r.q": ("bb_output", []), "w": ("buf", ["r.q"]), "o": ("and", ["w", "a"])}, outputs=["o"], blackboxes={"r": ff})


def parent():
    return build({"A": ("input", []), "B": ("input", []), "G": ("or", ["A", "B"]), "T1": ("buf", []), "T2": ("buf", []), "H": ("and", ["T1", "G"]), "O": ("xor", ["H", "T2"])}, outputs=["O", "G"])


def child_eval(sc, in_vals, free_vals):
    a = dict(in_vals)
    a.update(free_vals)
    return simulate(sc, a)


@guarded
def check_add_subcircuit(p0, p1, sc, name, conns, strip_io):
    ins, outs = sc.inputs(), sc.outputs()
    # structure
    for n in sc.nodes():
        if f"{name}_{n}" not in p1:
            return {"problem": "spliced node missing", "node": f"{name}_{n}"}
    if strip_io:
        if p1.inputs() != p0.inputs() or p1.outputs() != p0.outputs():
            return {"problem": "parent input/output sets changed under strip_io", "inputs": sorted(p1.inputs()), "outputs": sorted(p1.outputs())}
    else:
        if p1.inputs() != p0.inputs() | {f"{name}_{i}" for i in ins} or p1.outputs() != p0.outputs() | {f"{name}_{o}" for o in outs}:
            return {"problem": "child io not kept under strip_io=False", "inputs": sorted(p1.inputs()), "outputs": sorted(p1.outputs())}
    for k, bb in sc.blackboxes.items():
        if p1.blackboxes.get(f"{name}_{k}") is not bb:
            return {"problem": "sub-blackbox not carried under the prefixed name", "expected_key": f"{name}_{k}", "registry": sorted(p1.blackboxes)}
        for pin in bb.io():
            if f"{name}_{k}.{pin}" not in p1:
                return {"problem": "pin of a carried blackbox missing", "pin": f"{name}_{k}.{pin}"}
    if set(p1.blackboxes) != set(p0.blackboxes) | {f"{name}_{k}" for k in sc.blackboxes}:
        return {"problem": "registry differs", "registry": sorted(p1.blackboxes)}
    # semantics by substitution
    fr1 = free_nodes(p1)
    sc_free = [n for n in free_nodes(sc) if n not in ins]
    targets = set()
    for k, v in (conns or {}).items():
        if k in outs:
            targets |= {v} if isinstance(v, str) else set(v)
    affected = set(targets)
    for t in targets:
        affected |= p0.graph.descendants(t) if t in p0 else set()
    for a in assignments(fr1):
        v1 = simulate(p1, a)
        in_vals = {}
        for i in ins:
            net = (conns or {}).get(i)
            in_vals[i] = v1[net] if isinstance(net, str) else v1[f"{name}_{i}"]
        free_vals = {n: v1[f"{name}_{n}"] for n in sc_free}
        vc = child_eval(sc, in_vals, free_vals)
        for n in sc.nodes():
            if v1[f"{name}_{n}"] != vc[n]:
                return {"problem": "spliced node differs from the child's value under the attached nets", "node": f"{name}_{n}", "assignment": a, "value": v1[f"{name}_{n}"], "expected": vc[n]}
        for k, v in (conns or {}).items():
            if k in outs:
                for t in ([v] if isinstance(v, str) else v):
                    if p1.type(t) == "buf" and v1[t] != vc[k]:
                        return {"problem": "net attached to a child output does not take the child's value", "net": t, "child_output": k}
        # untouched pre-existing nodes
        fr0 = free_nodes(p0)
        a0 = {n: (a[n] if n in a else v1[n]) for n in fr0}
        v0 = simulate(p0, a0)
        for n in p0.nodes():
            if n not in affected and v1[n] != v0[n]:
                return {"problem": "a pre-existing node changed its function", "node": n, "assignment": a}
    return None


@guarded
def same_as_reference(got, ref):
    if not set(ref.nodes()) <= set(got.nodes()):
        return {"problem": "nodes missing", "missing": sorted(set(ref.nodes()) - set(got.nodes()))}
    if got.inputs() != ref.inputs() or got.outputs() != ref.outputs():
        return {"problem": "input/output sets differ from functional substitution", "inputs": sorted(got.inputs()), "outputs": sorted(got.outputs()), "expected_inputs": sorted(ref.inputs()), "expected_outputs": sorted(ref.outputs())}
    if set(got.blackboxes) != set(ref.blackboxes) or any(got.blackboxes[k] is not ref.blackboxes[k] for k in ref.blackboxes):
        return {"problem": "registry differs", "registry": sorted(got.blackboxes), "expected": sorted(ref.blackboxes)}
    for n in ref.nodes():
        if got.type(n) in ("bb_input", "bb_output") or ref.type(n) in ("bb_input", "bb_output"):
            if got.type(n) != ref.type(n):
                return {"problem": "pin type differs", "node": n, "type": got.type(n), "expected": ref.type(n)}
    fg, fr = set(free_nodes(got)), set(free_nodes(ref))
    if fg != fr:
        return {"problem": "free signals differ", "free": sorted(fg), "expected": sorted(fr)}
    for a in assignments(sorted(fr)):
        vg, vr = simulate(got, a), simulate(ref, a)
        for n in ref.nodes():
            if vg[n] != vr[n]:
                return {"problem": "node function differs from functional substitution", "node": n, "assignment": a, "value": vg[n], "expected": vr[n]}
    return None


def run(chk):
    repo = chk.repo
    chk.explanation = ("add_subcircuit / fill_blackbox (methods, from circuit.py's source, self = reference model) and tx.strip_blackboxes are evaluated by the checker's evaluator on model parents/children; "
                       "the result is compared with functional substitution by exhaustive simulation, plus bookkeeping of io sets and the blackbox registry.")
    chk.assume("reference DiGraph model for relabel_nodes / Graph.update (attribute dicts copied, node attributes merged)")
    # ---- structural: the child circuit argument is neither mutated nor retained (E2 dataflow) ----
    from ..effects import Analyzer, VIOLATING_PARTS
    from ..structural import vocabulary_rule
    from .c19 import tracked_params

    an = Analyzer(repo)
    an.run()
    for meth, param in (("Circuit.add_subcircuit", "sc"), ("Circuit.fill_blackbox", "c")):
        s = an.summ[(FILE, meth)]
        if param not in s.params:
            raise AnalysisError(f"{meth} lost its parameter {param}", FILE)
        effs = [e for e in s.effects if e["param"] == param and e["part"] in VIOLATING_PARTS]
        chk.ob("C06.A.child-not-mutated", f"{meth}::{param}", not effs, file=FILE, func=meth, line=effs[0]["line"] if effs else None,
               fact={"effects": [e["how"] + " @ " + e["text"][:60] for e in effs[:3]]}, expect="the sub-circuit passed in is only read (a renamed *copy* is spliced)")
        kept = sorted({(slot, part) for (dst, slot, src, part) in s.stores if dst == "self" and src == param and part in VIOLATING_PARTS})
        chk.ob("C06.A.child-not-retained", f"{meth}::{param}", not kept, file=FILE, func=meth, fact={"retained_parts": kept}, expect="the parent keeps no reference to the child's graph / registry (only the shared BlackBox objects)")
    # a BlackBox definition is shared by all its instances (and by copies of the circuit): nothing in the package may
    # edit its pin sets after construction
    n_bb = 0
    for (rel, qual), sm in sorted(an.summ.items()):
        if qual.startswith("BlackBox.__init__"):
            continue
        # only parameters known to be a Circuit / BlackBox / registry (an untyped helper parameter whose `.outputs()` result
        # is popped is a Circuit's fresh set in every caller - the same tracked-kind filter as C19)
        tr = tracked_params(an, (rel, qual))
        effs = [e for e in sm.effects if e["part"] == "bbfield" and e["param"] in tr]
        n_bb += 1
        if effs or qual in ("Circuit.add_subcircuit", "Circuit.fill_blackbox", "Circuit.add_blackbox"):
            chk.ob("C06.A.blackbox-definition-not-mutated", f"{rel}::{qual}", not effs, file=rel, func=qual, line=effs[0]["line"] if effs else None,
                   fact={"effects": [e["how"] + " @ " + e["text"][:60] for e in effs[:3]], "functions_scanned": n_bb}, expect="the pin sets of a BlackBox object are never modified in place (the object is shared between instances)")
    chk.floor("function summaries scanned for BlackBox pin-set edits", n_bb, 80)
    vocabulary_rule(chk, repo, "C06.S.vocabulary", [("tx.py", "strip_blackboxes"), ("tx.py", "strip_io"), ("tx.py", "strip_inputs"), ("tx.py", "subcircuit")])
    P = Package(repo)
    fa = repo.func(FILE, "Circuit.add_subcircuit")
    ff_ = repo.func(FILE, "Circuit.fill_blackbox")
    n_eval = 0
    # ---- S: add_subcircuit ---------------------------------------------
    for cname, sc in children():
        ins, outs = sorted(sc.inputs()), sorted(sc.outputs())
        conn_sets = [None, {ins[0]: "A"}, {ins[0]: "G", outs[0]: "T1"}, {**{i: n for i, n in zip(ins, ["A", "B"])}, outs[0]: ["T1", "T2"] if sc.type(outs[0]) != "input" else "T1"}]
        if len(ins) >= 2:
            conn_sets.append({i: "G" for i in ins})  # one parent net feeds every child input
            conn_sets.append({ins[0]: "A", ins[1]: "A", outs[0]: "T2"} if sc.type(outs[0]) != "input" else {ins[0]: "A", ins[1]: "A"})
        for ci, conns in enumerate(conn_sets):
            for strip_io in (True, False):
                if conns and not strip_io and any(k in ins for k in conns):
                    continue  # attaching a net to a node that stays an `input` is rejected by connect()
                p0 = parent()
                p1 = p0.copy()
                snap = sc._snapshot()
                r = P.call_method(FILE, "Circuit.add_subcircuit", p1, sc, "u0", conns, strip_io) if conns is not None else P.call_method(FILE, "Circuit.add_subcircuit", p1, sc, "u0", strip_io=strip_io)
                n_eval += 1
                key = f"add_subcircuit::{cname}::conns{ci}::strip_io={strip_io}"
                if r[0] != "return":
                    chk.ob("C06.S.add_subcircuit", key, False, file=FILE, func="Circuit.add_subcircuit", line=fa.node.lineno, fact={"result": str(r)[:160]})
                    continue
                prob = check_add_subcircuit(p0, p1, sc, "u0", conns, strip_io)
                if prob is None and sc._snapshot() != snap:
                    prob = {"problem": "the child circuit was modified"}
                if prob is None:
                    ref = p0.copy()
                    ref.add_subcircuit(sc, "u0", conns, strip_io)
                    prob = same_as_reference(p1, ref)
                chk.ob("C06.S.add_subcircuit", key, prob is None, file=FILE, func="Circuit.add_subcircuit", line=fa.node.lineno, fact=prob or {"connections": str(conns)}, expect="functional substitution of the renamed child")
    # guards
    sc = next(children())[1]
    for label, args, kw in (("unknown connection key", (sc, "u0", {"nope": "A"}), {}), ("connection to a missing net", (sc, "u0", {"x": "ghost"}), {})):
        p1 = parent()
        before = p1._snapshot()
        r = P.call_method(FILE, "Circuit.add_subcircuit", p1, *args, **kw)
        n_eval += 1
        ok = r[0] == "raise" and r[1] == "ValueError"
        if label == "unknown connection key":
            ok = ok and p1._snapshot() == before
        chk.ob("C06.G.guards", f"add_subcircuit::{label}", ok, file=FILE, func="Circuit.add_subcircuit", line=fa.node.lineno, fact={"result": str(r)[:100], "parent_unchanged": p1._snapshot() == before}, expect="ValueError" + (" and nothing merged" if label == "unknown connection key" else ""))
    p1 = parent()
    p1.graph.add_node("u0_x", type="buf", output=False)
    before = p1._snapshot()
    r = P.call_method(FILE, "Circuit.add_subcircuit", p1, sc, "u0")
    chk.ob("C06.G.guards", "add_subcircuit::name overlap", r[0] == "raise" and r[1] == "ValueError" and p1._snapshot() == before, file=FILE, func="Circuit.add_subcircuit", fact={"result": str(r)[:100]}, expect="ValueError and nothing merged")
    scbb = [c for n, c in children() if n == "with-blackbox"][0]
    p1 = parent()
    p1.blackboxes["u0_r"] = RefBlackBox("x", [], [])
    before = p1._snapshot()
    r = P.call_method(FILE, "Circuit.add_subcircuit", p1, scbb, "u0")
    chk.ob("C06.G.guards", "add_subcircuit::sub-blackbox name exists", r[0] == "raise" and r[1] == "ValueError" and p1._snapshot() == before, file=FILE, func="Circuit.add_subcircuit", fact={"result": str(r)[:100]}, expect="ValueError and nothing merged")

    # the same splice with the repository's OWN Circuit class on both sides (full stack): `relabel`, `copy`, `set_type`, `connect` ... are
    # circuit.py's code then. Children of every family, and one whose own nets already look prefixed (it contains an instance `u` and
    # is instantiated as `u` itself: `g` next to `u_g`, the plain name first in node order)
    from ..pkgenv import Package as _Pkg, to_full as _to_full, to_ref as _to_ref

    PFS = _Pkg(repo, full_stack=True)
    nested = build({"i": ("input", []), "g": ("not", ["i"]), "u_g": ("and", ["g", "i"]), "u_i": ("buf", ["g"]), "o": ("xor", ["u_g", "u_i"])}, outputs=["o", "u_g"])
    for cname, sc, inst in [(k_, c_, "u0") for k_, c_ in children() if k_ in ("half-adder", "inv-chain", "with-const", "out-is-in")] + [("nets-that-already-look-prefixed", nested, "u")]:
        ins, outs = sorted(sc.inputs()), sorted(sc.outputs())
        conns = {ins[0]: "A", outs[0]: "T1"}
        ref = parent()
        ref.add_subcircuit(sc, inst, dict(conns), True)
        prob = None
        try:
            pf, cf = _to_full(PFS, parent()), _to_full(PFS, sc)
            pf.add_subcircuit(cf, inst, dict(conns))
            prob = same_as_reference(_to_ref(pf), ref)
        except ModelRaise as e_:
            prob = {"problem": "raises", "error": str(e_)[:160]}
        n_eval += 1
        chk.ob("C06.S.add_subcircuit", f"add_subcircuit::{cname}::as {inst}@full-stack", prob is None, file=FILE, func="Circuit.add_subcircuit", line=fa.node.lineno, fact=prob or {"connections": str(conns)},
               expect="the documented splice, with circuit.py's own class on both sides")
    # ---- F: fill_blackbox ------------------------------------------------
    for cname, sc in children():
        ins, outs = sorted(sc.inputs()), sorted(sc.outputs())
        if set(ins) & set(outs):
            continue  # a pin cannot be both an input and an output of a blackbox
        bb = RefBlackBox("blk", ins, outs)
        for variant in ("all-connected", "some-unconnected", "pins-the-parent-observes"):
            p0 = parent()
            conns = {}
            nets = ["A", "G", "B"]
            for i, pin in enumerate(ins):
                if variant != "some-unconnected" or i == 0:
                    conns[pin] = nets[i % 3]
            for i, pin in enumerate(outs):
                if variant != "some-unconnected" or i == 0:
                    if i < 2:
                        conns[pin] = ["T1", "T2"][i]
            p0.add_blackbox(bb, "inst", conns)
            if variant == "pins-the-parent-observes":
                # the parent's own output list holds pins of the instance: it is unchanged by the fill (under the pins' new names)
                p0.set_output([f"inst.{outs[0]}", f"inst.{ins[0]}"] if ins else [f"inst.{outs[0]}"])
            p1 = p0.copy()
            snap = sc._snapshot()
            bb_before = (set(bb.input_set), set(bb.output_set))
            r = P.call_method(FILE, "Circuit.fill_blackbox", p1, "inst", sc)
            n_eval += 1
            key = f"fill_blackbox::{cname}::{variant}"
            if r[0] != "return":
                chk.ob("C06.F.fill_blackbox", key, False, file=FILE, func="Circuit.fill_blackbox", line=ff_.node.lineno, fact={"result": str(r)[:160]})
                continue
            if (bb.input_set, bb.output_set) != bb_before:
                chk.ob("C06.F.fill_blackbox", key, False, file=FILE, func="Circuit.fill_blackbox", line=ff_.node.lineno,
                       fact={"problem": "the shared BlackBox definition was modified by the fill", "inputs": sorted(bb.input_set), "outputs": sorted(bb.output_set), "before": [sorted(x) for x in bb_before]},
                       expect="a BlackBox object is shared by its instances and is left as it was")
                bb.input_set, bb.output_set = bb_before
                continue
            ref = p0.copy()
            ref.fill_blackbox("inst", sc)
            prob = same_as_reference(p1, ref)
            if prob is None and "inst" in p1.blackboxes:
                prob = {"problem": "the filled blackbox is still in the registry"}
            if prob is None and any(n.startswith("inst.") for n in p1.nodes()):
                prob = {"problem": "pin nodes of the filled blackbox remain", "nodes": sorted(n for n in p1.nodes() if n.startswith("inst."))}
            if prob is None and sc._snapshot() != snap:
                prob = {"problem": "the child circuit was modified"}
            chk.ob("C06.F.fill_blackbox", key, prob is None, file=FILE, func="Circuit.fill_blackbox", line=ff_.node.lineno, fact=prob or {"connections": str(conns)}, expect="functional substitution; blackbox disappears; sub-blackboxes prefixed")
    # the circuit as the filling of one of its own blackboxes (an instance with the circuit's own interface, next to another
    # sub-blackbox): "a renamed copy of sc" is a copy of the circuit as it was when the call was made - its own instances included
    ffs_ = RefBlackBox("ff", ["d"], ["q"])
    selfbb = RefBlackBox("me", ["a"], ["o"])
    ps = build({"a": ("input", []), "f.d": ("bb_input", ["a"]), "f.q": ("bb_output", []), "w": ("buf", ["f.q"]), "inst.a": ("bb_input", ["w"]), "inst.o": ("bb_output", []), "v": ("buf", ["inst.o"]),
                "o": ("xor", ["v", "a"])}, outputs=["o"], blackboxes={"f": ffs_, "inst": selfbb})
    ref = ps.copy()
    ref.fill_blackbox("inst", ps.copy())
    r = P.call_method(FILE, "Circuit.fill_blackbox", ps, "inst", ps)
    n_eval += 1
    prob = {"result": str(r)[:160]} if r[0] != "return" else same_as_reference(ps, ref)
    if prob is None and sorted(ps.blackboxes) != sorted(ref.blackboxes):
        prob = {"problem": "sub-blackboxes are not carried over under prefixed names", "registry": sorted(ps.blackboxes), "expected": sorted(ref.blackboxes)}
    chk.ob("C06.F.fill_blackbox", "fill_blackbox::the circuit itself as the filling", prob is None, file=FILE, func="Circuit.fill_blackbox", line=ff_.node.lineno, fact=prob or {"registry": sorted(ps.blackboxes)},
           expect="as filling with a copy of the circuit taken before the call: its own instances carried over under prefixed names")
    # two recorded instances whose names overlap textually (hierarchical prefixing makes `top_inst` next to `inst`)
    sc = next(children())[1]
    bbh = RefBlackBox("blk", sorted(sc.inputs()), sorted(sc.outputs()))
    for other in ("top_inst", "inst2", "my.inst"):
        if "." in other:
            continue
        p0 = parent()
        p0.add_blackbox(bbh, "inst", {"x": "A", "y": "B", "c": "T1"})
        p0.add_blackbox(bbh, other, {"x": "G", "y": "A", "s": "T2"})
        p1 = p0.copy()
        pins_h = (set(bbh.input_set), set(bbh.output_set))
        r = P.call_method(FILE, "Circuit.fill_blackbox", p1, "inst", sc)
        n_eval += 1
        key = f"fill_blackbox::sibling instance named {other}"
        if r[0] != "return":
            chk.ob("C06.F.fill_blackbox", key, False, file=FILE, func="Circuit.fill_blackbox", line=ff_.node.lineno, fact={"result": str(r)[:160]})
            continue
        if (bbh.input_set, bbh.output_set) != pins_h:
            chk.ob("C06.F.fill_blackbox", key, False, file=FILE, func="Circuit.fill_blackbox", line=ff_.node.lineno, fact={"problem": "the shared BlackBox definition was modified by the fill", "inputs": sorted(bbh.input_set), "outputs": sorted(bbh.output_set)})
            bbh.input_set, bbh.output_set = set(pins_h[0]), set(pins_h[1])
            continue
        ref = p0.copy()
        ref.fill_blackbox("inst", sc)
        prob = same_as_reference(p1, ref)
        if prob is None:
            for pin in bbh.io():
                if f"{other}.{pin}" not in p1:
                    prob = {"problem": "a pin of another, still recorded instance disappeared", "pin": f"{other}.{pin}"}
        chk.ob("C06.F.fill_blackbox", key, prob is None, file=FILE, func="Circuit.fill_blackbox", line=ff_.node.lineno, fact=prob or {}, expect="only the filled instance's pins are renamed; other instances keep their pins")
        # repeated instantiation: both instances of the one definition filled, in either order, and a third added afterwards
        for order in (("inst", other), (other, "inst")):
            bb2 = RefBlackBox("blk", sorted(sc.inputs()), sorted(sc.outputs()))
            pins0 = (set(bb2.input_set), set(bb2.output_set))
            q0, qr = parent(), parent()
            for q, d in ((q0, bb2), (qr, bb2)):
                q.add_blackbox(d, "inst", {"x": "A", "y": "B", "c": "T1"})
                q.add_blackbox(d, other, {"x": "G", "y": "A", "s": "T2"})
            key2 = f"fill_blackbox::both instances filled::{order[0]} then {order[1]}"
            prob = None
            for which in order:
                r = P.call_method(FILE, "Circuit.fill_blackbox", q0, which, sc)
                n_eval += 1
                if r[0] != "return":
                    prob = {"problem": f"filling {which} fails", "result": str(r)[:160]}
                    break
                if (bb2.input_set, bb2.output_set) != pins0:
                    prob = {"problem": f"filling {which} modified the shared BlackBox definition", "inputs": sorted(bb2.input_set), "outputs": sorted(bb2.output_set)}
                    bb2.input_set, bb2.output_set = set(pins0[0]), set(pins0[1])
                    break
                qr.fill_blackbox(which, sc)
            if prob is None:
                r = P.call_method(FILE, "Circuit.add_blackbox", q0, bb2, "late", {"x": "A"})
                qr.add_blackbox(bb2, "late", {"x": "A"})
                if r[0] != "return":
                    prob = {"problem": "adding another instance of the same definition after a fill fails", "result": str(r)[:160]}
            if prob is None:
                prob = same_as_reference(q0, qr)
            chk.ob("C06.F.fill_blackbox", key2, prob is None, file=FILE, func="Circuit.fill_blackbox", line=ff_.node.lineno, fact=prob or {}, expect="instances of one BlackBox definition can be filled in any order and the definition stays usable")
    sc = next(children())[1]
    bb_bad = RefBlackBox("blk", ["x"], ["c", "s"])
    p1 = parent()
    p1.add_blackbox(bb_bad, "inst", {"x": "A"})
    before = p1._snapshot()
    r = P.call_method(FILE, "Circuit.fill_blackbox", p1, "inst", sc)
    chk.ob("C06.G.guards", "fill_blackbox::io mismatch", r[0] == "raise" and r[1] == "ValueError" and p1._snapshot() == before, file=FILE, func="Circuit.fill_blackbox", fact={"result": str(r)[:100]}, expect="ValueError, nothing changed")
    bb_bad2 = RefBlackBox("blk", ["x", "y"], ["c"])
    p1 = parent()
    p1.add_blackbox(bb_bad2, "inst", {"x": "A", "y": "B"})
    before = p1._snapshot()
    r = P.call_method(FILE, "Circuit.fill_blackbox", p1, "inst", sc)
    chk.ob("C06.G.guards", "fill_blackbox::output mismatch", r[0] == "raise" and r[1] == "ValueError" and p1._snapshot() == before, file=FILE, func="Circuit.fill_blackbox", fact={"result": str(r)[:100]}, expect="ValueError, nothing changed")
    # the child lacks a pin the blackbox has (its io is a strict subset): rejected as well
    for label, bins, bouts in (("child lacks an output pin", ["x", "y"], ["c", "s", "extra_o"]), ("child lacks an input pin", ["x", "y", "extra_i"], ["c", "s"])):
        bb_big = RefBlackBox("blk", bins, bouts)
        p1 = parent()
        p1.add_blackbox(bb_big, "inst", {"x": "A", "y": "B", "c": "T1"})
        before = p1._snapshot()
        r = P.call_method(FILE, "Circuit.fill_blackbox", p1, "inst", sc)
        chk.ob("C06.G.guards", f"fill_blackbox::{label}", r[0] == "raise" and r[1] == "ValueError" and p1._snapshot() == before, file=FILE, func="Circuit.fill_blackbox", fact={"result": str(r)[:100], "unchanged": p1._snapshot() == before},
               expect="ValueError, nothing changed (otherwise a pin of the filled instance stays behind as a bb_input / bb_output node)")
    r = P.call_method(FILE, "Circuit.fill_blackbox", parent(), "ghost", sc)
    chk.ob("C06.G.guards", "fill_blackbox::unknown instance", r[0] == "raise" and r[1] == "ValueError", file=FILE, func="Circuit.fill_blackbox", fact={"result": str(r)[:100]}, expect="ValueError")

    # ---- B: strip_blackboxes ---------------------------------------------
    fsb = repo.func("tx.py", "strip_blackboxes")
    ff2 = RefBlackBox("ff", ["clk", "d"], ["q"])
    base = build({"a": ("input", []), "clk": ("input", []), "u.clk": ("bb_input", ["clk"]), "u.d": ("bb_input", ["g"]), "u.q": ("bb_output", []), "w": ("buf", ["u.q"]), "g": ("xor", ["a", "w"]),
                  "v.clk": ("bb_input", ["clk"]), "v.d": ("bb_input", ["w"]), "v.q": ("bb_output", []), "o": ("nand", ["g", "w"])}, outputs=["o"], blackboxes={"u": ff2, "v": ff2})
    for ign in (None, "clk", ["clk"], ["clk", "q"]):
        snap = base._snapshot()
        r = P.call("tx.py", "strip_blackboxes", base, ign) if ign is not None else P.call("tx.py", "strip_blackboxes", base)
        n_eval += 1
        key = f"strip_blackboxes::ignore={ign}"
        if r[0] != "return" or not isinstance(r[1], RefCircuit):
            chk.ob("C06.B.strip_blackboxes", key, False, file="tx.py", func="strip_blackboxes", line=fsb.node.lineno, fact={"result": str(r)[:160]})
            continue
        s = r[1]
        ignl = [] if ign is None else ([ign] if isinstance(ign, str) else list(ign))
        prob = None
        if s.blackboxes:
            prob = {"problem": "registry not empty", "registry": sorted(s.blackboxes)}
        pins_in = [n for n in base.filter_type("bb_input")]
        pins_out = [n for n in base.filter_type("bb_output")]
        for pn in pins_in + pins_out:
            new = pn.replace(".", "_")
            if pn.split(".")[-1] in ignl:
                if new in s or pn in s:
                    prob = prob or {"problem": "ignored pin not deleted", "pin": pn}
            else:
                if new not in s or pn in s:
                    prob = prob or {"problem": "pin not exposed as inst_pin", "pin": pn}
                elif pn in pins_in and not (s.is_output(new) and s.type(new) == "buf"):
                    prob = prob or {"problem": "blackbox input pin is not a primary output buffer", "pin": pn, "type": s.type(new), "output": s.is_output(new)}
                elif pn in pins_out and s.type(new) != "input":
                    prob = prob or {"problem": "blackbox output pin is not a primary input", "pin": pn, "type": s.type(new)}
        if prob is None:
            # only pins go: every other node is still there, of its type, with its drivers (minus a deleted pin) and its output mark
            gone_pins = {pn for pn in pins_in + pins_out if pn.split(".")[-1] in ignl}
            for n in base.nodes():
                if n in pins_in or n in pins_out:
                    continue
                if n not in s:
                    prob = {"problem": "a node that is not a pin was deleted", "node": n}
                elif s.type(n) != base.type(n) or s.is_output(n) != base.is_output(n):
                    prob = {"problem": "a node that is not a pin changed its type / output mark", "node": n}
                else:
                    want_fi = {f.replace(".", "_") if (f in pins_in or f in pins_out) else f for f in base.fanin(n) if f not in gone_pins}
                    if set(s.fanin(n)) != want_fi:
                        prob = {"problem": "a node that is not a pin changed its drivers", "node": n, "fanin": sorted(s.fanin(n)), "expected": sorted(want_fi)}
                if prob:
                    break
        if prob is None:
            try:
                fr = free_nodes(base)
                for a in assignments(fr):
                    vb = simulate(base, a)
                    a2 = {}
                    for n in free_nodes(s):
                        orig = n if n in base else next((p for p in pins_out if p.replace(".", "_") == n), None)
                        a2[n] = a.get(orig, False) if orig is not None else False
                    vs = simulate(s, a2)
                    skip = set()
                    for pn in pins_out:
                        if pn.split(".")[-1] in ignl:
                            skip |= {pn} | base.graph.descendants(pn)
                    for n in base.nodes():
                        if n in pins_in or n in pins_out:
                            new = n.replace(".", "_")
                            if new in vs and n not in skip and vs[new] != vb[n]:
                                prob = {"problem": "exposed pin value differs", "pin": n}
                        elif n in vs and n not in skip and vs[n] != vb[n]:
                            prob = {"problem": "a node changed its function", "node": n, "assignment": a}
                    if prob:
                        break
            except (ModelRaise, ValueError, KeyError) as e:
                prob = {"problem": f"result cannot be evaluated: {e}"}
        if prob is None and base._snapshot() != snap:
            prob = {"problem": "argument modified"}
        chk.ob("C06.B.strip_blackboxes", key, prob is None, file="tx.py", func="strip_blackboxes", line=fsb.node.lineno, fact=prob or {"pins": len(pins_in) + len(pins_out)}, expect="pins exposed as inst_pin io, ignored pins deleted, no registry, other functions unchanged")
    ff3 = RefBlackBox("fd2", ["cp", "cd", "d"], ["q", "nq"])
    base2 = build({"a": ("input", []), "r": ("input", []), "u.cp": ("bb_input", ["a"]), "u.cd": ("bb_input", ["r"]), "u.d": ("bb_input", ["g"]), "u.q": ("bb_output", []), "u.nq": ("bb_output", []),
                   "w": ("buf", ["u.q"]), "v": ("buf", ["u.nq"]), "g": ("xor", ["a", "w"]), "o": ("and", ["w", "v"])}, outputs=["o"], blackboxes={"u": ff3})
    for ign, gone, kept in (("d", ["u.d"], ["u_cd", "u_cp", "u_q", "u_nq"]), ("q", ["u.q"], ["u_nq", "u_d", "u_cd"]), (["cp", "q"], ["u.cp", "u.q"], ["u_cd", "u_d", "u_nq"])):
        r = P.call("tx.py", "strip_blackboxes", base2, ign)
        n_eval += 1
        prob = None
        if r[0] != "return":
            prob = {"result": str(r)[:160]}
        else:
            s2 = r[1]
            missing = [k for k in kept if k not in s2]
            left = [g_ for g_ in gone if g_ in s2 or g_.replace(".", "_") in s2]
            if missing or left:
                prob = {"problem": "ignored-pin matching is not by exact pin name", "pins_wrongly_deleted": missing, "ignored_pins_left": left}
        chk.ob("C06.B.strip_blackboxes", f"strip_blackboxes::pin names sharing a suffix::ignore={ign}", prob is None, file="tx.py", func="strip_blackboxes", line=fsb.node.lineno, fact=prob or {}, expect="exactly the named pins are deleted")
    # two pins that come out under one name (`a.b_c` and `a_b.c` -> `a_b_c`): refused like any other overlap, never merged into one node
    twice = build({"x": ("input", []), "y": ("input", []), "a.b_c": ("bb_input", ["x"]), "a_b.c": ("bb_input", ["y"])}, outputs=[], blackboxes={"a": RefBlackBox("A", ["b_c"], []), "a_b": RefBlackBox("B", ["c"], [])})
    r = P.call("tx.py", "strip_blackboxes", twice)
    n_eval += 1
    prob = None
    if not (r[0] == "raise" and r[1] == "ValueError"):
        prob = {"problem": "two pins share the name they are exposed under", "result": str(r)[:100],
                "drivers_of_the_shared_node": sorted(r[1].fanin("a_b_c")) if r[0] == "return" and isinstance(r[1], RefCircuit) and "a_b_c" in r[1] else None}
    chk.ob("C06.G.guards", "strip_blackboxes::two pins exposed under one name", prob is None, file="tx.py", func="strip_blackboxes", fact=prob or {}, expect="ValueError")
    clash = base.copy()
    clash.graph.add_node("u_q", type="buf", output=False)
    r = P.call("tx.py", "strip_blackboxes", clash)
    chk.ob("C06.G.guards", "strip_blackboxes::name overlap", r[0] == "raise" and r[1] == "ValueError", file="tx.py", func="strip_blackboxes", fact={"result": str(r)[:100]}, expect="ValueError")
    chk.floor("composition evaluations", n_eval, 35)
    # ---- H: call histories about composition, on the repository's own Circuit class against the documented semantics (full stack):
    # repeated instantiation of the same child object edited in place in between, rejected splices, fills, self-splices
    from ..history import history_rule

    history_rule(chk, "C06.H", only=lambda name, ops: any(op[0] in ("@add_sub", "@add_sub_kept", "@add_sub_self", "@fill", "@fill_self") for op in ops), floor=40)
