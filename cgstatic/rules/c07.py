"""
C07 - the construction API never leaves an illegally wired circuit.

Decided (static, circuit.py's syntax tree):
  L   legality of `connect`: its guards + the single edge-adding statement are tabulated over a
      finite abstract domain (source type x sink type x existing fan-in/fan-out x |us| x |vs|):
      whenever the post-state would violate a wiring invariant the method raises ValueError and
      has added no edge before raising
  A   `add`: pre-checks tabulated the same way (unknown type, name clash, leading digit, fan-in
      on zero-input types, >1 fan-in on buf/not); a rejected call adds no edge
  U   `uid` never returns a name that is in the graph or blocked; add(uid=True) uses it before
      touching the graph
  W   who-may-mutate: raw edge insertion only in `connect`, graph merge only in
      add_subcircuit/fill_blackbox (after their clash checks), in-place relabel only in `relabel`,
      type stores only in set_type/add, registry writes only in the three blackbox methods
  T   set_type validates against addable_types before storing
  O   ordering (check-before-mutate): in add/add_blackbox/add_subcircuit/fill_blackbox no
      explicit-raise-capable point follows an edge-adding point; registry entries are written
      only after the pins exist
  B   add_blackbox creates bb_input pins for inputs and bb_output pins for outputs
Not decided: the invariant over arbitrary histories (L/A give the inductive step), networkx internals.
"""
import ast
import itertools

from ..astutil import body_without_doc, dotted, func_params, kwarg, method_name, raise_exc_name, walk_no_nested
from ..core import AnalysisError, ConstEnv, norm, type_vocabulary
from ..effects import Analyzer, VIOLATING_PARTS
from ..minieval import bind_unbound_defaults, BlockInterp, MiniEval, ModelRaise, Unsupported
from ..models import MBlackBox, MMutCircuit, reference_connect_error
from ..typetables import NO_FANIN, NO_FANOUT, SINGLE_FANIN, reference_partition

FILE = "circuit.py"


def _run_body(fi, env, what):
    bi = BlockInterp(env)
    try:
        bind_unbound_defaults(fi.node, bi.me.env)
        r = bi.run(body_without_doc(fi.node))
    except ModelRaise as e:
        return ("raise", e.kind)
    except Unsupported as e:
        raise AnalysisError(f"{what}: unrecognised idiom: {e}", FILE, fi.node.lineno)
    if isinstance(r, tuple):
        return r
    return ("return", None)


_PKG = {}


def base_env(repo, rel=FILE):
    """The module environment of circuit.py (module-level constants and helper functions evaluated from source)."""
    from ..pkgenv import Package

    if id(repo) not in _PKG:
        _PKG[id(repo)] = Package(repo)
    voc = type_vocabulary(repo)
    env = dict(_PKG[id(repo)].env(rel))  # the module that defines the method (a mixin of Circuit may live in a module of its own)
    env.update({"supported_types": list(voc["supported_types"]), "addable_types": list(voc["addable_types"]), "primitive_gates": list(voc["primitive_gates"])})
    return env


def check_connect(chk, repo, sup):
    fi = repo.func(FILE, "Circuit.connect")
    params = func_params(fi.node)
    if len(params) < 3:
        raise AnalysisError("Circuit.connect lost its (us, vs) parameters", FILE, fi.node.lineno)
    pu, pv = params[1], params[2]
    n_states = 0
    failures = {}
    types = list(sup)
    other_types = ["and", "buf"]
    for tu in types:
        for tv in types:
            for fin in (0, 1, 2):
                for fout in (0, 1):
                    for nus in (1, 2):
                        for nvs in (1, 2):
                            for t2 in other_types if (nus > 1 or nvs > 1) else [None]:
                                for as_str in ((True, False) if nus == 1 and nvs == 1 else (False,)):
                                    # (pre == 2: the sink already drives the source - the requested edge closes a loop; an "edge exists already"
                                    # test has to look in the right direction)
                                    for order, pre in (((0, 0), (1, 0), (0, 1), (1, 1)) if (nus > 1 or nvs > 1) else ((0, 0), (0, 2))):
                                        attrs = {"u": {"type": tu, "output": False}, "v": {"type": tv, "output": False}}
                                        edges = []
                                        if pre == 2:
                                            edges.append(("v", "u"))
                                        for i in range(fin):
                                            attrs[f"d{i}"] = {"type": "input", "output": False}
                                            edges.append((f"d{i}", "v"))
                                        for i in range(fout):
                                            attrs[f"l{i}"] = {"type": "buf", "output": True}
                                            edges.append(("u", f"l{i}"))
                                        us, vs = ["u"], ["v"]
                                        if nus > 1:
                                            attrs["u2"] = {"type": t2, "output": False}
                                            us = ["u", "u2"]
                                        if nvs > 1:
                                            attrs["v2"] = {"type": t2, "output": False}
                                            vs = ["v", "v2"]
                                        if pre == 1:
                                            # one of the requested edges exists already: u feeds the *other* sink / the *other* source feeds v
                                            if nvs > 1:
                                                edges.append(("u", "v2"))
                                            if nus > 1:
                                                edges.append(("u2", "v"))
                                        if order:
                                            us, vs = us[::-1], vs[::-1]
                                        c = MMutCircuit(attrs, edges)
                                        if pre and c.illegal():
                                            continue  # not a reachable state
                                        n_states += 1
                                        want_err = reference_connect_error(c, us, vs)
                                        env = base_env(repo, fi.file)
                                        env.update({"self": c, pu: "u" if as_str else list(us), pv: "v" if as_str else list(vs)})
                                        r = _run_body(fi, env, "Circuit.connect")
                                        added = [l for l in c._log if l[0] == "add_edge"]
                                        state = {"source_type": tu, "sink_type": tv, "sink_fanin": fin, "source_fanout": fout, "us": us, "vs": vs, "second_type": t2, "existing_edges": [e for e in edges if e[0] in ("u", "u2") and e[1] in ("v", "v2")]}
                                        if want_err:
                                            ok = r[0] == "raise" and r[1] == "ValueError" and not added
                                            if not ok:
                                                cls = want_err if "does not exist" not in want_err else "missing node"
                                                what = "no ValueError" if r[0] != "raise" else (f"raises {r[1]}" if r[1] != "ValueError" else "edge added before the raise")
                                                failures.setdefault((cls, what), state | {"result": list(r), "edges_added": added})
                                        else:
                                            # legal: the edges must be exactly us x vs (direction!)
                                            if r[0] != "raise":
                                                want_edges = {("add_edge", a, b) for a in us for b in vs}
                                                if set(added) != want_edges:
                                                    failures.setdefault(("legal connection", "edges added differ from us x vs"), state | {"edges_added": added})
    # missing nodes
    for miss in ("u", "v"):
        attrs = {"u": {"type": "and", "output": False}, "v": {"type": "and", "output": False}}
        attrs.pop(miss)
        c = MMutCircuit(attrs, [])
        env = base_env(repo, fi.file)
        env.update({"self": c, pu: ["u"], pv: ["v"]})
        r = _run_body(fi, env, "Circuit.connect")
        n_states += 1
        ok = r == ("raise", "ValueError") and not [l for l in c._log if l[0] == "add_edge"]
        chk.ob("C07.L.connect-missing-node", f"connect::missing {'source' if miss == 'u' else 'sink'}", ok, file=FILE, func="Circuit.connect", line=fi.node.lineno,
               fact={"result": list(r), "log": c._log}, expect="ValueError and no edge")
    ref_classes = ["fan-in on " + t for t in sorted(NO_FANIN)] + ["more than one fan-in on " + t for t in sorted(SINGLE_FANIN)] + \
                  ["fan-out from " + t for t in sorted(NO_FANOUT)] + ["bb_output drives a non-buf", "bb_output drives more than one node"]
    failed_classes = {k[0] for k in failures}
    for cls in ref_classes:
        f = [(k, v) for k, v in failures.items() if k[0] == cls]
        chk.ob("C07.L.connect-legality", f"connect::{cls}", not f, file=FILE, func="Circuit.connect", line=fi.node.lineno,
               fact={"counterexample_state": f[0][1], "problem": f[0][0][1]} if f else {"class": cls, "rejected_in_all_states": True},
               expect="ValueError raised, no edge added, in every abstract state of this class")
    for (cls, what), st in failures.items():
        if cls not in ref_classes:
            chk.ob("C07.L.connect-legality", f"connect::{cls}::{what}", False, file=FILE, func="Circuit.connect", line=fi.node.lineno, fact={"state": st})
    chk.floor("abstract states tabulated for connect", n_states, 2000)
    return n_states


# values that are *not* supported types but sit next to one: case variants, padding, the integers for the constant
# types, None, the empty string, a plural.  (Only hashable values: the type is looked up in tables.)
NEAR_MISS_TYPES = ["AND", "Buf", "INPUT", "X", " and", "not ", 0, 1, None, "", "bb_inputs", True]


def check_add(chk, repo, sup):
    fi = repo.func(FILE, "Circuit.add")
    params = func_params(fi.node)
    for need in ("n", "node_type", "fanin", "fanout", "output", "add_connected_nodes", "allow_redefinition", "uid"):
        if need not in params:
            raise AnalysisError(f"Circuit.add lost its parameter '{need}'", FILE, fi.node.lineno)
    n_states = 0
    fails = {}
    for t in list(sup) + ["bogus"] + NEAR_MISS_TYPES:
        for nfi in (0, 1, 2):
            for nfo in (0, 1):
                for name in ("g", "9g", ""):
                    for exists in (False, True):
                        for allow in (False, True):
                            for uid in (False, True):
                                if not isinstance(t, str) or t in NEAR_MISS_TYPES:
                                    if name != "g" or exists or allow:
                                        continue
                                if name == "" and (exists or uid or allow):
                                    continue  # the empty name is judged as given (uid would replace it by a generated one)
                                for missing_fi in (False, True) if nfi else (False,):
                                    for acn in (False, True) if missing_fi else (False,):
                                        n_states += 1
                                        attrs = {"o": {"type": "and", "output": True}}
                                        edges = []
                                        if exists:
                                            attrs[name] = {"type": "and", "output": False}
                                        fanin = []
                                        for i in range(nfi):
                                            fanin.append(f"a{i}")
                                            if not (missing_fi and i == nfi - 1):
                                                attrs[f"a{i}"] = {"type": "input", "output": False}
                                        fanout = ["o"] if nfo else []
                                        c = MMutCircuit(attrs, edges)
                                        before_nodes = set(attrs)
                                        env = base_env(repo, fi.file)
                                        env.update({"self": c, "n": name, "node_type": t, "fanin": list(fanin) if nfi != 1 else fanin[0], "fanout": list(fanout),
                                                    "output": False, "add_connected_nodes": acn, "allow_redefinition": allow, "uid": uid})
                                        r = _run_body(fi, env, "Circuit.add")
                                        # what the call leaves behind: additions minus what it took back itself (rollback of the new node)
                                        removed_nodes = {l[1] for l in c._log if l[0] == "remove_node"}
                                        removed_edges = {(l[1], l[2]) for l in c._log if l[0] == "remove_edge"}
                                        edges_added = [l for l in c._log if l[0] == "add_edge" and l[1] not in removed_nodes and l[2] not in removed_nodes and (l[1], l[2]) not in removed_edges]
                                        nodes_added = [l for l in c._log if l[0] == "add_node" and l[1] not in removed_nodes]
                                        state = {"type": t, "fanin": fanin, "fanout": fanout, "name": name, "exists": exists, "allow_redefinition": allow, "uid": uid,
                                                 "missing_fanin_node": missing_fi, "add_connected_nodes": acn}
                                        # reference: must be rejected with ValueError
                                        reasons = []
                                        if not isinstance(t, str) or t not in sup:
                                            reasons.append("unknown-type")
                                        if exists and not allow and not uid:
                                            reasons.append("name-clash")
                                        if name == "":
                                            reasons.append("empty-name")
                                        elif name[0].isdigit():
                                            reasons.append("leading-digit")
                                        if t in ("buf", "not") and nfi > 1:
                                            reasons.append("multi-fanin-on-single-input-type")
                                        if t in ("0", "1", "x", "input") and nfi > 0:
                                            reasons.append("fanin-on-zero-input-type")
                                        if t in ("bb_output",) and nfi > 0:
                                            reasons.append("fanin-on-bb_output")
                                        if t == "bb_input" and nfi > 1:
                                            reasons.append("multi-fanin-on-bb_input")
                                        if t == "bb_input" and nfo:
                                            reasons.append("fanout-from-bb_input")
                                        if missing_fi and not acn:
                                            reasons.append("missing-fanin-node")
                                        if exists and (allow or uid) and not reasons and not uid:
                                            pass
                                        if reasons:
                                            if r != ("raise", "ValueError"):
                                                fails.setdefault(("C07.A.add-rejects", f"add::{reasons[0]}::" + ("no ValueError" if r[0] != "raise" else f"raises {r[1]}")), state | {"result": list(r)})
                                            elif edges_added and not allow:
                                                # (the property covers add with default flags or uid=True; with allow_redefinition=True the node
                                                # existed before the call and the call cannot simply take it away again)
                                                fails.setdefault(("C07.A.add-rejected-call-adds-no-edge", f"add::{reasons[0]}::edge left behind"), state | {"edges_left": edges_added})
                                            # pre-checkable reasons must be rejected before the node is created
                                            if r == ("raise", "ValueError") and nodes_added and reasons[0] in ("unknown-type", "name-clash", "leading-digit", "empty-name", "multi-fanin-on-single-input-type", "fanin-on-zero-input-type"):
                                                fails.setdefault(("C07.A.add-checks-before-node", f"add::{reasons[0]}::node created before the raise"), state | {"log": c._log})
                                        else:
                                            if r[0] == "raise":
                                                pass  # stricter than required: not a violation of this property
                                            else:
                                                bad = c.illegal()
                                                if bad:
                                                    fails.setdefault(("C07.A.add-result-legal", f"add::accepted call leaves {bad[0].split(' ')[0]}"), state | {"illegal": bad})
                                                if uid and exists:
                                                    created = [l[1] for l in nodes_added]
                                                    if name in created or any(x in before_nodes for x in created):
                                                        fails.setdefault(("C07.U.uid-never-overwrites", "add::uid=True overwrote an existing node"), state | {"created": created})
                                                # direction of the edges: fanin -> n -> fanout
                                                newname = r[1] if isinstance(r[1], str) else name
                                                want = {("add_edge", f, newname) for f in fanin} | {("add_edge", newname, o) for o in fanout}
                                                if set(edges_added) != want:
                                                    fails.setdefault(("C07.A.add-edge-direction", "add::edges differ from fanin->n->fanout"), state | {"edges": edges_added, "want": sorted(want)})
    classes = [("C07.A.add-rejects", "add::" + r) for r in ("unknown-type", "name-clash", "leading-digit", "empty-name", "multi-fanin-on-single-input-type", "fanin-on-zero-input-type",
                                                             "fanin-on-bb_output", "multi-fanin-on-bb_input", "fanout-from-bb_input", "missing-fanin-node")]
    for rule, key in classes:
        f = [(k, v) for k, v in fails.items() if k[0] == rule and k[1].startswith(key + "::")]
        chk.ob(rule, key, not f, file=FILE, func="Circuit.add", line=fi.node.lineno, fact={"state": f[0][1], "problem": f[0][0][1]} if f else {"rejected_in_all_states": True},
               expect="ValueError")
    for (rule, key), st in fails.items():
        if rule == "C07.A.add-rejects":
            continue
        chk.ob(rule, key, False, file=FILE, func="Circuit.add", line=fi.node.lineno, fact={"state": st})
    for rule in ("C07.A.add-rejected-call-adds-no-edge", "C07.A.add-checks-before-node", "C07.A.add-result-legal", "C07.U.uid-never-overwrites", "C07.A.add-edge-direction"):
        if not any(k[0] == rule for k in fails):
            chk.ob(rule, "add::all states", True, file=FILE, func="Circuit.add", line=fi.node.lineno, fact={"states": n_states})
    chk.floor("abstract states tabulated for add", n_states, 1000)


def check_uid(chk, repo):
    fi = repo.func(FILE, "Circuit.uid")
    params = func_params(fi.node)
    n = 0
    bad = None
    # k = 0..13: x and its first k - 1 numbered copies are taken; 71: the jump beyond ten copies lands on a taken name; 100+: numbered
    # names with gaps (a copy counted is not a copy probed: x, x_1 / x, x_0, x_2 / x, x_5 / x_0 alone)
    gaps = {100: {"x", "x_1"}, 101: {"x", "x_0", "x_2"}, 102: {"x", "x_5"}, 103: {"x_0"}, 104: {"x", "x_1", "x_2", "x_3"}}
    for k in list(range(0, 14)) + [71] + sorted(gaps):
        for blocked in (None, [], ["x"], ["x", "x_0"], ["x_1"], ["x_3", "x_70"]):
            names = set()
            if k >= 1:
                names.add("x")
            for i in range(max(0, k - 1) if k < 100 else 0):
                names.add(f"x_{i}")
            if k in gaps:
                names = set(gaps[k])
            if k == 71:
                names = {"x"} | {f"x_{i}" for i in range(11)} | {"x_70"}
            c = MMutCircuit({m: {"type": "and"} for m in names}, [])
            env = base_env(repo, fi.file)
            env.update({"self": c, params[1]: "x"})
            if len(params) > 2:
                env[params[2]] = blocked
            r = _run_body(fi, env, "Circuit.uid")
            n += 1
            if r[0] != "return" or not isinstance(r[1], str) or r[1] in names or (blocked and r[1] in blocked):
                bad = bad or {"graph": sorted(names), "blocked": blocked, "result": list(r)}
    chk.ob("C07.U.uid-fresh", "uid::returned name not in graph or blocked", bad is None, file=FILE, func="Circuit.uid", line=fi.node.lineno,
           fact={"states": n, "counterexample": bad}, expect="a name that is neither in the graph nor blocked")


def check_set_type(chk, repo, voc):
    fi = repo.func(FILE, "Circuit.set_type")
    params = func_params(fi.node)
    bad = None
    n = 0
    for t in list(voc["supported_types"]) + ["bogus"] + NEAR_MISS_TYPES:
        for as_str in (True, False):
            c = MMutCircuit({"a": {"type": "and", "output": False}, "b": {"type": "or", "output": False}}, [])
            env = base_env(repo, fi.file)
            env.update({"self": c, params[1]: "a" if as_str else ["a", "b"], params[2]: t})
            r = _run_body(fi, env, "Circuit.set_type")
            n += 1
            want_raise = not isinstance(t, str) or t not in voc["addable_types"]
            stored = {k: v["type"] for k, v in c._attrs.items()}
            if want_raise:
                if r != ("raise", "ValueError") or stored != {"a": "and", "b": "or"}:
                    bad = bad or {"type": t, "result": list(r), "stored": stored}
            else:
                exp = {"a": t, "b": "or" if as_str else t}
                if r[0] == "raise" or stored != exp:
                    bad = bad or {"type": t, "result": list(r), "stored": stored, "want": exp}
    chk.ob("C07.T.set_type-validated", "set_type::addable_types guard before the store", bad is None, file=FILE, func="Circuit.set_type", line=fi.node.lineno,
           fact={"states": n, "counterexample": bad}, expect="ValueError for a type outside addable_types, nothing stored; otherwise exactly the named nodes retyped")


# ---- who may mutate ------------------------------------------------------
RAW_WRITERS = {
    "edge-insert": ({"add_edge", "add_edges_from", "add_weighted_edges_from"}, {"connect"}),
    "graph-merge": ({"update"}, {"add_subcircuit", "fill_blackbox"}),
    "node-insert": ({"add_node", "add_nodes_from"}, {"add"}),
}


def class_callers(repo):
    """method name -> set of methods of class Circuit that call it through `self.`"""
    callers = {}
    for fi in repo.methods(FILE, "Circuit"):
        for n in walk_no_nested(fi.node):
            if isinstance(n, ast.Call) and isinstance(n.func, ast.Attribute) and dotted(n.func.value) == "self":
                callers.setdefault(n.func.attr, set()).add(fi.node.name)
    return callers


def effective_owners(m, callers, depth=0):
    """A private helper (leading underscore) acts on behalf of its callers: the public methods it is reached from."""
    if not m.startswith("_") or m.startswith("__") or depth > 5:
        return {m}
    out = set()
    for c in callers.get(m, ()):
        out |= effective_owners(c, callers, depth + 1)
    return out or {m}


def check_who_may_mutate(chk, repo):
    n_sites = 0
    callers = class_callers(repo)

    class _In:
        """`m in allowed` where a private helper counts as its public callers"""

        def __init__(self, m):
            self.owners = effective_owners(m, callers)

        def within(self, allowed):
            return self.owners <= set(allowed)

    for fi in repo.methods(FILE, "Circuit"):
        m = fi.node.name
        who = _In(m)
        for n in walk_no_nested(fi.node):
            if isinstance(n, ast.Call) and isinstance(n.func, ast.Attribute):
                recv = dotted(n.func.value)
                if recv in ("self.graph",):
                    for cls, (names, allowed) in RAW_WRITERS.items():
                        if n.func.attr in names:
                            n_sites += 1
                            chk.ob("C07.W.who-may-mutate", f"Circuit.{m}::self.graph.{n.func.attr}", who.within(allowed), file=FILE, func=f"Circuit.{m}", line=n.lineno,
                                   fact={"writer_class": cls, "method": m, "call": norm(n)[:100]}, expect=f"only in {sorted(allowed)}")
                d = dotted(n.func)
                if d == "nx.relabel_nodes":
                    cp = kwarg(n, "copy", 2)
                    inplace = cp is not None and not (isinstance(cp, ast.Constant) and cp.value is True)
                    if inplace:
                        n_sites += 1
                        chk.ob("C07.W.who-may-mutate", f"Circuit.{m}::nx.relabel_nodes(copy=False)", who.within({"relabel", "fill_blackbox"}), file=FILE, func=f"Circuit.{m}", line=n.lineno,
                               fact={"method": m}, expect="only in relabel and in fill_blackbox (which renames the pins of the filled instance - through relabel or directly)")
            # attribute-dict stores
            targets = []
            if isinstance(n, ast.Assign):
                targets = n.targets
            elif isinstance(n, ast.AugAssign):
                targets = [n.target]
            for t in targets:
                if isinstance(t, ast.Subscript):
                    base = dotted(t.value)
                    if base and base.startswith("self.graph.nodes[]") and isinstance(t.slice, ast.Constant):
                        n_sites += 1
                        key = t.slice.value
                        allowed = {"type": {"set_type"}, "output": {"set_output"}}.get(key, set())
                        chk.ob("C07.W.who-may-mutate", f"Circuit.{m}::nodes[...][{key!r}] store", who.within(allowed), file=FILE, func=f"Circuit.{m}", line=n.lineno,
                               fact={"method": m, "attribute": key}, expect=f"only in {sorted(allowed)}")
                    elif base == "self.blackboxes":
                        n_sites += 1
                        chk.ob("C07.W.who-may-mutate", f"Circuit.{m}::registry store", who.within({"add_blackbox", "add_subcircuit", "fill_blackbox"}), file=FILE, func=f"Circuit.{m}", line=n.lineno,
                               fact={"method": m}, expect="only in add_blackbox/add_subcircuit/fill_blackbox")
                elif isinstance(n, ast.AugAssign) and isinstance(n.op, ast.BitOr) and isinstance(t, ast.Attribute) and dotted(t) == "self.blackboxes":
                    # `self.blackboxes |= {...}`: dict.__ior__ updates the registry object in place - a store, not a new registry
                    n_sites += 1
                    chk.ob("C07.W.who-may-mutate", f"Circuit.{m}::registry store", who.within({"add_blackbox", "add_subcircuit", "fill_blackbox"}), file=FILE, func=f"Circuit.{m}", line=n.lineno,
                           fact={"method": m}, expect="only in add_blackbox/add_subcircuit/fill_blackbox")
                elif isinstance(t, ast.Attribute) and dotted(t) in ("self.graph", "self.blackboxes") and m != "__init__":
                    n_sites += 1
                    chk.ob("C07.W.who-may-mutate", f"Circuit.{m}::rebinds {dotted(t)}", False, file=FILE, func=f"Circuit.{m}", line=n.lineno, fact={"method": m}, expect="only in __init__")
    chk.floor("raw writer sites in class Circuit", n_sites, 6)


# ---- ordering ------------------------------------------------------------
def may_raise_functions(repo):
    """Circuit methods that contain an explicit `raise` (transitively through self.<method> calls)."""
    meths = {fi.node.name: fi for fi in repo.methods(FILE, "Circuit")}
    direct = {m for m, fi in meths.items() if any(isinstance(n, ast.Raise) for n in walk_no_nested(fi.node))}
    changed = True
    while changed:
        changed = False
        for m, fi in meths.items():
            if m in direct:
                continue
            for n in walk_no_nested(fi.node):
                if isinstance(n, ast.Call) and isinstance(n.func, ast.Attribute) and dotted(n.func.value) == "self" and n.func.attr in direct:
                    if n.func.attr == "set_type" and set_type_literal_ok(n, repo, fi.file):
                        continue  # set_type with a literal addable type has no rejecting path
                    direct.add(m)
                    changed = True
                    break
    return direct


def _enum_constant(expr, repo, rel=FILE):
    """`<EnumClass>.<MEMBER>.value` (or `<EnumClass>.<MEMBER>` of a str-valued enum) for an Enum class circuit.py defines -> the literal."""
    if isinstance(expr, ast.Attribute) and expr.attr == "value":
        expr = expr.value
    if isinstance(expr, ast.Attribute) and isinstance(expr.value, (ast.Name, ast.Attribute)):
        key = repo.class_of_expr(rel, expr.value)  # the class may be imported from another module of the package
        for st in ([repo.classes[key]] if key else []):
            if isinstance(st, ast.ClassDef) and any(norm(b_).split(".")[-1] in ("Enum", "StrEnum") for b_ in st.bases):
                for x in st.body:
                    if isinstance(x, ast.Assign) and len(x.targets) == 1 and isinstance(x.targets[0], ast.Name) and x.targets[0].id == expr.attr and isinstance(x.value, ast.Constant):
                        return x.value.value
    return None


def set_type_literal_ok(call, repo, rel=FILE):
    voc = type_vocabulary(repo)
    a = kwarg(call, "t", 1)
    if isinstance(a, ast.Constant):
        return a.value in voc["addable_types"]
    return a is not None and _enum_constant(a, repo, rel) in voc["addable_types"]


class Order:
    """Syntax-directed walk with a small state: has an edge-adding point been passed?"""

    def __init__(self, chk, repo, fi, raising):
        self.chk = chk
        self.repo = repo
        self.fi = fi
        self.raising = raising
        self.found = []

    def classify(self, st):
        """-> (adds_edges, may_raise, text)"""
        adds = False
        raises = False
        for n in walk_no_nested(st):
            if isinstance(n, ast.Raise):
                raises = True
            if isinstance(n, ast.Call) and isinstance(n.func, ast.Attribute):
                recv = dotted(n.func.value)
                a = n.func.attr
                if recv == "self":
                    if a == "connect":
                        adds = True
                        raises = True
                    elif a == "add":
                        has_conn = any(k.arg in ("fanin", "fanout") for k in n.keywords) or len(n.args) > 2
                        adds = adds or has_conn
                        raises = True
                    elif a == "set_type":
                        if not set_type_literal_ok(n, self.repo, self.fi.file):
                            raises = True
                    elif a in self.raising and a not in ("type", "is_output", "filter_type", "inputs", "outputs", "io", "startpoints", "endpoints", "fanin", "fanout"):
                        raises = True
                    if a in ("add_subcircuit", "fill_blackbox", "add_blackbox"):
                        adds = True
                elif recv == "self.graph" and a in ("update", "add_edge", "add_edges_from"):
                    adds = True
        return adds, raises

    def is_rollback(self, tr):
        for h in tr.handlers:
            names = [norm(x).split(".")[-1] for x in (h.type.elts if isinstance(h.type, ast.Tuple) else [h.type])] if h.type is not None else ["BaseException"]
            if not ({"ValueError", "Exception", "BaseException"} & set(names)):
                continue
            removes = self._removes(h.body)
            if not removes:
                # ... or through a local helper of the enclosing function (`take_back()`)
                local_defs = {d.name: d for d in ast.walk(self.fi.node) if isinstance(d, ast.FunctionDef) and d is not self.fi.node} if getattr(self, "fi", None) is not None else {}
                called = {n.func.id for x in h.body for n in ast.walk(x) if isinstance(n, ast.Call) and isinstance(n.func, ast.Name)}
                removes = any(nm in local_defs and self._removes(local_defs[nm].body) for nm in called)
                if not removes and getattr(self, "fi", None) is not None:
                    # ... or a local lambda (`give_up = (lambda: None) if existed else (lambda: graph.remove_node(n))`)
                    for a_ in ast.walk(self.fi.node):
                        if isinstance(a_, ast.Assign) and any(isinstance(t_, ast.Name) and t_.id in called for t_ in a_.targets):
                            if any(isinstance(l_, ast.Lambda) and self._removes([l_.body]) for l_ in ast.walk(a_.value)):
                                removes = True
                if not removes:
                    # ... or through a private method of the class (`self._withdraw(...)`), defined in the class or stored on it by a
                    # class decorator of the package (`cls._withdraw = _withdraw`)
                    for x in h.body:
                        for n in ast.walk(x):
                            if isinstance(n, ast.Call) and isinstance(n.func, ast.Attribute) and dotted(n.func.value) == "self":
                                m_ = self.repo.funcs.get((FILE, f"Circuit.{n.func.attr}"))
                                if m_ is not None and self._removes(m_.node.body):
                                    removes = True
                                cdef_ = self.repo.classes.get((FILE, "Circuit"))
                                for dec in (cdef_.decorator_list if m_ is None and cdef_ is not None else ()):
                                    dfi = self.repo.func_of_callee(FILE, dec.func if isinstance(dec, ast.Call) else dec)
                                    for a_ in (ast.walk(dfi.node) if dfi is not None else ()):
                                        if isinstance(a_, ast.Assign) and len(a_.targets) == 1 and isinstance(a_.targets[0], ast.Attribute) and a_.targets[0].attr == n.func.attr and isinstance(a_.value, ast.Name):
                                            f_ = self.repo.func_of_name(dfi.file, a_.value.id)
                                            ps_ = [p_.arg for p_ in f_.node.args.posonlyargs + f_.node.args.args] if f_ is not None else []
                                            if ps_ and self._removes(f_.node.body, recv=ps_[0]):
                                                removes = True
                if not removes:
                    # ... or through a helper of another module of the package that is handed this circuit (`_impl.drop_instance(self, ...)`)
                    for x in h.body:
                        for n in ast.walk(x):
                            if isinstance(n, ast.Call) and any(isinstance(a, ast.Name) and a.id == "self" for a in n.args):
                                callee = self.repo.func_of_callee(FILE, n.func)
                                if callee is not None and callee.cls is None:
                                    params = [a.arg for a in callee.node.args.posonlyargs + callee.node.args.args]
                                    idx = next(i for i, a in enumerate(n.args) if isinstance(a, ast.Name) and a.id == "self")
                                    if idx < len(params) and self._removes(callee.node.body, recv=params[idx]):
                                        removes = True
            reraises = bool(h.body) and isinstance(h.body[-1], ast.Raise) and h.body[-1].exc is None
            if removes and reraises:
                return True
        return False

    def is_rollback_manager(self, expr):
        if not (isinstance(expr, ast.Call) and isinstance(expr.func, (ast.Attribute, ast.Name))):
            return False
        name = expr.func.attr if isinstance(expr.func, ast.Attribute) else expr.func.id
        if isinstance(expr.func, ast.Attribute) and dotted(expr.func.value) != "self":
            return False
        # a class used as the manager: its __exit__ removes the nodes and does not suppress the exception
        if isinstance(expr.func, ast.Name):
            ex = self.repo.funcs.get((FILE, f"{name}.__exit__"))
            if ex is not None:
                removes = any(isinstance(n, ast.Call) and isinstance(n.func, ast.Attribute) and n.func.attr in ("remove_node", "remove_nodes_from") and (dotted(n.func.value) or "").split(".")[-1] == "graph"
                              for n in ast.walk(ex.node))
                suppresses = any(isinstance(r, ast.Return) and not (r.value is None or (isinstance(r.value, ast.Constant) and not r.value.value)) for r in ast.walk(ex.node))
                if removes and not suppresses:
                    return True
        cands = [fi for (rel, q), fi in self.repo.funcs.items() if rel == FILE and q in (f"Circuit.{name}", name)]
        for fi in cands:
            if not any(norm(d).split(".")[-1] == "contextmanager" for d in fi.node.decorator_list):
                continue
            for tr in ast.walk(fi.node):
                if isinstance(tr, ast.Try) and any(isinstance(x, (ast.Yield, ast.YieldFrom)) for b_ in tr.body for x in ast.walk(b_)) and self.is_rollback(tr):
                    return True
                # a generic manager `try: yield  except <errors>: undo(); raise` whose `undo` parameter receives a local function of the
                # caller that removes the nodes
                if isinstance(tr, ast.Try) and any(isinstance(x, (ast.Yield, ast.YieldFrom)) for b_ in tr.body for x in ast.walk(b_)):
                    params = [a.arg for a in fi.node.args.posonlyargs + fi.node.args.args]
                    for h in tr.handlers:
                        reraises = bool(h.body) and isinstance(h.body[-1], ast.Raise) and h.body[-1].exc is None
                        called = {x.func.id for b_ in h.body for x in ast.walk(b_) if isinstance(x, ast.Call) and isinstance(x.func, ast.Name) and x.func.id in params}
                        if not reraises or not called:
                            continue
                        for pname in called:
                            idx = params.index(pname) - (1 if params and params[0] == "self" else 0)
                            actual = expr.args[idx] if 0 <= idx < len(expr.args) else next((k.value for k in expr.keywords if k.arg == pname), None)
                            if isinstance(actual, ast.Name):
                                for d in ast.walk(self.fi.node):
                                    if isinstance(d, ast.FunctionDef) and d.name == actual.id and self._removes(d.body):
                                        return True
        return False

    @staticmethod
    def _removes(body, recv="self"):
        # `self.graph.remove_node(s_from)(...)`, the same through a local alias of the graph (`graph = self.graph`), `self.remove(...)`
        return any(isinstance(n, ast.Call) and isinstance(n.func, ast.Attribute) and ((n.func.attr in ("remove_node", "remove_nodes_from") and (dotted(n.func.value) == f"{recv}.graph" or isinstance(n.func.value, ast.Name)))
                                                                                  or (dotted(n.func.value) == recv and n.func.attr == "remove"))
                   for x in body for n in ast.walk(x))

    def is_rollback_stack(self, st):
        """`with ExitStack() as stack: stack.push(undo); <wire>` where the local function `undo(exc_type, exc, tb)` removes the nodes this
        call created and does not suppress the exception."""
        for item in st.items:
            ce = item.context_expr
            if not (isinstance(ce, ast.Call) and norm(ce.func).split(".")[-1] == "ExitStack" and isinstance(item.optional_vars, ast.Name)):
                continue
            var = item.optional_vars.id
            for x in st.body:
                for n in ast.walk(x):
                    if isinstance(n, ast.Call) and isinstance(n.func, ast.Attribute) and n.func.attr == "push" and dotted(n.func.value) == var and n.args and isinstance(n.args[0], ast.Name):
                        for d in ast.walk(self.fi.node):
                            if isinstance(d, ast.FunctionDef) and d.name == n.args[0].id and self._removes(d.body):
                                suppresses = any(isinstance(r, ast.Return) and not (r.value is None or (isinstance(r.value, ast.Constant) and not r.value.value)) for r in ast.walk(d))
                                if not suppresses:
                                    return True
        return False

    def is_unread_manager(self, expr):
        """The manager of a `with` statement is built by a plain function of the package (or held in a local variable): what it does
        when the block is left by an exception is not visible in the shape of this statement."""
        if isinstance(expr, ast.Name):
            return True
        if isinstance(expr, ast.IfExp):
            return self.is_unread_manager(expr.body) or self.is_unread_manager(expr.orelse)  # `with nullcontext() if existed else <manager>:`
        if not (isinstance(expr, ast.Call) and isinstance(expr.func, (ast.Attribute, ast.Name))):
            return False
        imported = self.repo.imported_names(FILE)
        if isinstance(expr.func, ast.Attribute) and isinstance(expr.func.value, ast.Name) and imported.get(expr.func.value.id, ("",))[0] == "module":
            return True  # `with _impl.undo_on(...)`: a manager defined in another module of the package, not read by this shape rule
        if isinstance(expr.func, ast.Name) and imported.get(expr.func.id, ("",))[0] == "name":
            return True  # `from ._impl import undo_on`
        if isinstance(expr.func, ast.Attribute) and dotted(expr.func.value) not in ("self", "Circuit"):
            return False
        name = expr.func.attr if isinstance(expr.func, ast.Attribute) else expr.func.id
        if (FILE, name) in self.repo.classes:
            return True  # a manager class of the module whose `__exit__` the rollback reader did not recognise (it calls what it was handed)
        cands = [fi for (rel, q), fi in self.repo.funcs.items() if rel == FILE and q in (f"Circuit.{name}", name)]
        return any(not any(norm(d).split(".")[-1] == "contextmanager" for d in fi.node.decorator_list) for fi in cands)

    def walk(self, stmts, dirty):
        for st in stmts:
            if isinstance(st, (ast.For, ast.While)):
                d = dirty
                for _ in range(2):
                    d = self.walk(st.body, d)
                dirty = d
                continue
            if isinstance(st, ast.If):
                # the test itself cannot add edges
                d1 = self.walk(st.body, dirty)
                d2 = self.walk(st.orelse, dirty)
                dirty = d1 or d2
                continue
            if isinstance(st, ast.Try):
                if self.is_rollback(st):
                    # rollback idiom: `try: <wire> except ValueError: <remove the nodes this call created>; raise` - an edge added
                    # inside the try does not survive a rejection raised inside it (edges die with their nodes); whether the
                    # handler removes *all* of them is a behavioural question that C07.A / C07.X decide on states
                    keep = self.found
                    self.found = []
                    dirty = self.walk(st.body, False) or dirty
                    self.found = keep
                    self.rollbacks = getattr(self, "rollbacks", 0) + 1
                    dirty = self.walk(st.orelse, dirty)  # runs only when the body was not rejected
                    dirty = self.walk(st.finalbody, dirty)
                    continue
                dirty = self.walk(st.body, dirty)
                for h in st.handlers:
                    dirty = self.walk(h.body, dirty) or dirty
                dirty = self.walk(st.finalbody, dirty)
                continue
            if isinstance(st, ast.With):
                if any(self.is_rollback_manager(item.context_expr) for item in st.items) or self.is_rollback_stack(st):
                    # the same idiom behind a context manager: `with self._undo_on_reject(nodes): <wire>` where the manager is a
                    # @contextmanager generator `try: yield  except ValueError: <remove the nodes>; raise`
                    keep = self.found
                    self.found = []
                    dirty = self.walk(st.body, False) or dirty
                    self.found = keep
                    self.rollbacks = getattr(self, "rollbacks", 0) + 1
                    continue
                unread = [item.context_expr for item in st.items if self.is_unread_manager(item.context_expr)]
                if unread:
                    # the shape rule abstains inside the block: whether a rejected call leaves an edge behind is decided on
                    # states by C07.A / C07.X / C07.R
                    self.abstained = getattr(self, "abstained", []) + [norm(unread[0])[:80]]
                    keep = self.found
                    self.found = []
                    dirty = self.walk(st.body, dirty)
                    self.found = keep
                    continue
                dirty = self.walk(st.body, dirty)
                continue
            adds, raises = self.classify(st)
            if raises and dirty:
                self.found.append(st)
            if adds:
                dirty = True
        return dirty


def check_ordering(chk, repo):
    raising = may_raise_functions(repo)
    for m in ("add", "add_blackbox", "add_subcircuit", "fill_blackbox"):
        fi = repo.func(FILE, f"Circuit.{m}")
        o = Order(chk, repo, fi, raising)
        o.walk(body_without_doc(fi.node), False)
        seen = set()
        for st in o.found:
            txt = norm(st)[:100]
            # the construct is identified by the kind of raise-capable point (callee name / explicit raise), so that
            # re-wording the statement neither hides nor duplicates a finding
            kinds = sorted({f"self.{n.func.attr}()" for n in walk_no_nested(st) if isinstance(n, ast.Call) and isinstance(n.func, ast.Attribute) and dotted(n.func.value) == "self"
                            and n.func.attr in ("connect", "add", "set_type", "relabel", "add_blackbox", "add_subcircuit", "fill_blackbox")} | ({"raise"} if any(isinstance(n, ast.Raise) for n in walk_no_nested(st)) else set()))
            kind = "+".join(kinds) or "call"
            if kind in seen:
                continue
            seen.add(kind)
            chk.ob("C07.O.check-before-mutate", f"Circuit.{m}::raise-capable after an edge-adding point::{kind}", False, file=FILE, func=f"Circuit.{m}", line=st.lineno,
                   fact={"statement": txt}, expect="every explicit-raise-capable point precedes the first edge-adding point (a rejected call adds no edge)")
        for txt in getattr(o, "abstained", ()):
            chk.note(f"C07.O.check-before-mutate abstains inside `with {txt}` in Circuit.{m}: the manager is built by a plain function, its exit behaviour is not visible in the statement (C07.A / C07.X / C07.R decide on states)")
        if not o.found:
            chk.ob("C07.O.check-before-mutate", f"Circuit.{m}::all raise-capable points precede edge insertion", True, file=FILE, func=f"Circuit.{m}", line=fi.node.lineno, fact={})
    # registry entry written only once the pins exist
    fi = repo.func(FILE, "Circuit.add_blackbox")
    body = body_without_doc(fi.node)
    reg_idx = None
    pin_idx = []
    raise_after_reg = None
    for i, st in enumerate(body):
        for n in walk_no_nested(st):
            if isinstance(n, ast.Assign) and any(isinstance(t, ast.Subscript) and dotted(t.value) == "self.blackboxes" for t in n.targets):
                reg_idx = i if reg_idx is None else reg_idx
            if isinstance(n, ast.Call) and isinstance(n.func, ast.Attribute) and dotted(n.func.value) == "self" and n.func.attr == "add":
                tl = kwarg(n, "node_type", 1)
                if isinstance(tl, ast.Constant) and tl.value in ("bb_input", "bb_output"):
                    pin_idx.append(i)
    if reg_idx is None or not pin_idx:
        chk.note("C07.O.registry-after-pins: `self.blackboxes[name] = ...` / pin-creating adds not recognised in add_blackbox; the structural rule abstains (C07.R decides the behaviour)")
    else:
      chk.ob("C07.O.registry-after-pins", "Circuit.add_blackbox::registry entry written before its pins exist", reg_idx > max(pin_idx), file=FILE, func="Circuit.add_blackbox", line=body[reg_idx].lineno,
           fact={"registry_write_statement_index": reg_idx, "pin_creation_statement_indices": pin_idx},
           expect="self.blackboxes[name] = ... after the loops that create the pin nodes (pin creation can raise: bad instance name, existing node)")
    # C07.R (evaluation): a rejected add_blackbox leaves no recorded instance without its pins
    from ..pkgenv import Package
    from ..refmodel import RefBlackBox, build

    P = Package(repo)
    for label, inst, prep in (("instance name starts with a digit", "0bad", None), ("a pin node already exists", "u9", "u9.q"), ("pin listed as input and output", "u8", "dup")):
        c = build({"a": ("input", []), "o": ("buf", [])}, outputs=["o"])
        bb = RefBlackBox("ff", ["d", "q"] if prep == "dup" else ["d"], ["q"])
        if prep and prep != "dup":
            c.graph.add_node(prep, type="buf", output=False)
        r = P.call_method(FILE, "Circuit.add_blackbox", c, bb, inst, {"d": "a"})
        prob = None
        if r[0] != "raise" or r[1] != "ValueError":
            prob = {"problem": "not rejected with ValueError", "result": str(r)[:100]}
        elif inst in c.blackboxes:
            pins = [f"{inst}.{p}" for p in bb.io()]
            missing = [p for p in pins if p not in c or c.type(p) not in ("bb_input", "bb_output")]
            bad_type = [p for p in pins if p in c and ((p.split(".")[-1] in bb.inputs() and c.type(p) != "bb_input") and (p.split(".")[-1] in bb.outputs() and c.type(p) != "bb_output"))]
            if missing or prep == "dup":
                prob = {"problem": "instance recorded although its pins are missing / mistyped", "missing_or_mistyped": missing}
        chk.ob("C07.R.rejected-blackbox-not-recorded", f"add_blackbox::{label}", prob is None, file=FILE, func="Circuit.add_blackbox", line=fi.node.lineno, fact=prob or {},
               expect="ValueError and no recorded instance lacking its pin nodes")
    # pin types
    for n in walk_no_nested(fi.node):
        if isinstance(n, ast.For):
            it = dotted(n.iter)
            for c in walk_no_nested(n):
                if isinstance(c, ast.Call) and isinstance(c.func, ast.Attribute) and dotted(c.func.value) == "self" and c.func.attr == "add":
                    tl = kwarg(c, "node_type", 1)
                    if isinstance(tl, ast.Constant) and it and it.endswith((".inputs()", ".outputs()")):
                        want = "bb_input" if it.endswith(".inputs()") else "bb_output"
                        chk.ob("C07.B.pin-types", f"Circuit.add_blackbox::pins of {it.split('.')[-1]}", tl.value == want, file=FILE, func="Circuit.add_blackbox", line=c.lineno,
                               fact={"loop_over": it, "type_literal": tl.value}, expect=want)


def run(chk):
    repo = chk.repo
    voc = reference_partition(repo)
    sup = voc["supported_types"]
    chk.explanation = (
        "connect/add/uid/set_type guards and their mutation statements are extracted from circuit.py and tabulated over finite abstract domains against the "
        "wiring invariants of the property (reject => ValueError and no edge added; accept => legal post-state, correct edge direction); raw graph/registry writer sites "
        "in class Circuit are enumerated against an allow-table; a syntax-directed ordering walk checks that no explicit-raise-capable point follows an edge-adding point."
    )
    chk.assume("networkx add_edges_from / add_node / update behave as documented; implicit exceptions (KeyError from a missing node in set_output etc.) are outside the ordering rule")
    from ..structural import vocabulary_rule

    vocabulary_rule(chk, repo, "C07.S.vocabulary", [(FILE, "Circuit.connect"), (FILE, "Circuit.add"), (FILE, "Circuit.set_type"), (FILE, "Circuit.add_blackbox"), (FILE, "Circuit.fill_blackbox"), (FILE, "Circuit.add_subcircuit")])
    check_connect(chk, repo, sup)
    check_add(chk, repo, sup)
    check_uid(chk, repo)
    check_set_type(chk, repo, voc)
    check_who_may_mutate(chk, repo)
    check_ordering(chk, repo)
    from ..history import history_rule

    history_rule(chk, "C07.H")

    from ..explore import short_histories_rule


    short_histories_rule(chk, "C07.X.short-histories", 2 if chk.tier == "quick" else 3)
    from ..explore import uid_histories_rule

    uid_histories_rule(chk, "C07.U.uid-histories", 4 if chk.tier == "quick" else 5)
