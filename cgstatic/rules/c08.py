"""
C08 - model counting and signal probability (projection-set / bookkeeping clauses).

Decided (static; sat.py / props.py evaluated by cgstatic's evaluator over model objects with a
*scripted* solver - no solver, no approxmc, no execution of the package):
  B   model_count: one blocking clause per model found, equal to the negation of that model's
      literals on exactly the circuit's startpoints (inputs and blackbox outputs); returns the
      number of models the solver produced; assumptions reach construct_solver
  P   signal_probability(approx=False): counts the fan-in cone sub-circuit of n (reflexive cone)
      under {n: True} and normalises by 2 ** (number of startpoints of that same sub-circuit)
  D   approx_model_count (default plain-clause mode): the DIMACS text handed to the external
      counter declares the startpoints' variables as sampling set, its header matches the clause
      list, its clauses are cnf(c) plus the assumption units, and - by exhaustive enumeration on
      model circuits - it has exactly the expected number of models projected onto that set
Not decided: that the enumeration loop terminates with the exact count on a real solver;
the use_xor_clauses mode (outside the property's default mode); approxmc itself.
"""
import ast
import itertools
import re as _re

from ..astutil import func_params
from ..core import AnalysisError
from ..gates import simulate
from ..minieval import BlockInterp, Model, ModelRaise
from ..models import MCircuit, MCNF, MIDPool, MSolver
from .c01 import IMPORTS, make_circuit, run_func

FILE = "sat.py"


class NS(Model):
    def __init__(self, **kw):
        for k, v in kw.items():
            setattr(self, k, v)


from ..verilogmodel import MMatch, MRe  # noqa: E402  (the faithful `re` model shared with the parsers)


class MFile(Model):
    """A buffered text file: what another process reading the path sees is what had been flushed when it looked (`on_disk`), not
    everything that was handed to write() (`data`)."""

    def __init__(self, name):
        self.name = name
        self.data = ""
        self.on_disk = ""
        self._pos = 0

    def write(self, s):
        self.data += s
        return len(s)

    def flush(self):
        self.on_disk = self.data
        return None

    def close(self):
        self.on_disk = self.data

    def seek(self, pos):
        self._pos = pos

    def read(self):
        return self.data[self._pos:]

    def __enter__(self):
        return self

    def __exit__(self, *a):
        return False


class MCircuitSP(MCircuit):
    def startpoints(self, ns=None):
        sp = {n for n, a in self._attrs.items() if a.get("type") in ("input", "bb_output")}
        if ns:
            ns = [ns] if isinstance(ns, str) else list(ns)
            return (set(ns) | self.transitive_fanin(ns)) & sp
        return sp

    def transitive_fanin(self, ns):
        ns = [ns] if isinstance(ns, str) else list(ns)
        seen = set()
        stack = list(ns)
        while stack:
            x = stack.pop()
            for p in self._fanin.get(x, ()):
                if p not in seen:
                    seen.add(p)
                    stack.append(p)
        return seen


def circuit_sp(spec):
    attrs = {n: {"type": t, "output": False} for n, (t, fi) in spec.items()}
    edges = [(f, n) for n, (t, fi) in spec.items() for f in fi]
    return MCircuitSP(attrs, edges), {n: t for n, (t, fi) in spec.items()}, {n: list(fi) for n, (t, fi) in spec.items()}


SPEC = {"a": ("input", []), "b": ("input", []), "u.q": ("bb_output", []), "w": ("buf", ["u.q"]), "g": ("and", ["a", "w"]), "h": ("xor", ["g", "b"]), "k": ("1", [])}


def run(chk):
    repo = chk.repo
    chk.explanation = (
        "model_count / signal_probability / approx_model_count are evaluated by cgstatic's evaluator with a scripted solver and fake file/process objects: blocking clauses "
        "range over exactly the startpoints with negated model literals, the count is the number of models produced, the probability is normalised by the counted circuit's "
        "own startpoints, and the DIMACS text's sampling set / header / clauses are parsed and its projected model count enumerated on model circuits."
    )
    chk.assume("PySAT model convention get_model()[i-1] == +-i; DIMACS 'c ind ... 0' projection line as consumed by approxmc")
    from ..structural import blocking_clause_rule, closure_discipline_rule

    blocking_clause_rule(chk, repo, "C08.S.blocking-clause")
    closure_discipline_rule(chk, repo, "C08.S.reflexive-closure", [("props.py", "signal_probability")], {})
    # ---- B: model_count -----------------------------------------------
    fm = repo.func(FILE, "model_count")
    pm = func_params(fm.node)
    c, types, fanin = circuit_sp(SPEC)
    v = MIDPool()
    order = ["k", "h", "a", "w", "u.q", "b", "g"]
    ids = {n: v.id(n) for n in order}
    v.id(("aux", 0))
    models = [[1, -2, 3, -4, 5, -6, 7, 8], [1, 2, -3, 4, -5, 6, -7, -8], [1, -2, -3, -4, -5, -6, -7, 8]]
    sp = {"a", "b", "u.q"}
    for asm in (None, {"h": True}):
        solver = MSolver(models=[list(m) for m in models])
        calls = []

        def fake_construct(circ, assumptions=None, *a, **k):
            calls.append((circ, assumptions))
            return solver, v

        # (how the count is obtained today: one solver, blocking clauses over the startpoints.  A model_count that works another way
        # - per component, through a helper - is decided by C08.B.value; if the body needs more of the circuit than this fake offers,
        # or never reaches the scripted solver, these shape obligations abstain)
        try:
            r = run_func(repo, "model_count", {pm[0]: c, pm[1]: asm, "construct_solver": fake_construct})
        except AnalysisError as e_:
            chk.note(f"C08.B shape obligations abstain: model_count needs more than the scripted solver on the fake circuit ({str(e_)[:100]}); C08.B.value decides")
            continue
        if len(calls) != 1:
            chk.note(f"C08.B shape obligations abstain: model_count built {len(calls)} solvers on the fake circuit (one expected); C08.B.value decides")
            continue
        want_block = [sorted(-m[ids[n] - 1] for n in sp) for m in models]
        got_block = [sorted(cl) for cl in solver.added]
        tag = "with-assumptions" if asm else "plain"
        chk.ob("C08.B.count", f"model_count::{tag}::returns number of models", r == ("return", len(models)), file=FILE, func="model_count", line=fm.node.lineno,
               fact={"result": str(r), "models_scripted": len(models)}, expect=len(models))
        chk.ob("C08.B.blocking-clause", f"model_count::{tag}::negated startpoint literals", got_block == want_block, file=FILE, func="model_count", line=fm.node.lineno,
               fact={"blocking_clauses": got_block, "startpoint_ids": {n: ids[n] for n in sorted(sp)}}, expect=want_block)
        chk.ob("C08.B.assumptions-forwarded", f"model_count::{tag}", len(calls) == 1 and calls[0][0] is c and calls[0][1] == asm, file=FILE, func="model_count", line=fm.node.lineno,
               fact={"construct_solver_calls": len(calls), "assumptions_seen": str(calls[0][1]) if calls else None}, expect=str(asm))

    # ---- B (values): model_count end to end - cnf + add_assumptions + construct_solver + the counting loop from source,
    # DPLL solver model; compared with the definition (startpoint valuations that extend to a consistent valuation
    # satisfying the assumptions), incl. unloaded startpoints carrying an assumption, contradictory assumptions,
    # internal nodes, blackbox pins, constants, cyclic circuits
    import itertools as _it
    from ..refmodel import build as _build
    from ..satpipe import agrees, consistent_valuations, pipeline_package

    I_ = ("input", [])
    cmodels = {
        "unloaded-startpoints": _build({"a": I_, "b": I_, "spare": I_, "u.q": ("bb_output", []), "g": ("and", ["a", "b"]), "h": ("xor", ["g", "a"])}, outputs=["h"]),
        "blackbox-and-constant": _build({"a": I_, "b": I_, "u.q": ("bb_output", []), "w": ("buf", ["u.q"]), "g": ("and", ["a", "w"]), "h": ("xor", ["g", "b"]), "k": ("1", []), "u.d": ("bb_input", ["h"])}, outputs=["h"]),
        "only-inputs": _build({"a": I_, "b": I_}, outputs=["a"]),
        "constants-only-cone": _build({"a": I_, "z": ("0", []), "w": ("1", []), "g": ("or", ["z", "w"]), "o": ("nand", ["g", "a"])}, outputs=["o"]),
        "parity3": _build({"a": I_, "b": I_, "c": I_, "p": ("xnor", ["a", "b", "c"]), "q": ("nor", ["p", "a"])}, outputs=["q"]),
        "disconnected-parts-one-without-inputs": _build({"a": I_, "b": I_, "g": ("and", ["a", "b"]), "z": ("0", []), "y": ("buf", ["z"]), "w": ("1", []), "v": ("not", ["w"])}, outputs=["g", "y", "v"]),
        "disconnected-odd-inverter-ring": _build({"a": I_, "g": ("not", ["a"]), "n1": ("not", ["n3"]), "n2": ("not", ["n1"]), "n3": ("not", ["n2"])}, outputs=["g", "n1"]),
        "two-independent-cones": _build({"a": I_, "b": I_, "c": I_, "d": I_, "p": ("xor", ["a", "b"]), "q": ("nor", ["c", "d"])}, outputs=["p", "q"]),
        "nor-latch": _build({"s": I_, "r": I_, "q": ("nor", ["r", "qn"]), "qn": ("nor", ["s", "q"])}, outputs=["q"]),
        "oscillator-under-enable": _build({"en": I_, "g": ("nand", ["en", "g"]), "o": ("buf", ["g"])}, outputs=["o"]),
        # more startpoints than a counter may want to enumerate in one go (an implementation that splits the enumeration has to keep
        # the caller's assumptions on the startpoints it splits on)
        "wide::nine-startpoints": _build({**{f"a{i_}": I_ for i_ in range(9)}, "g": ("and", ["a0", "a1"]), "h": ("or", ["a2", "a3", "a4"]), "o": ("xor", ["g", "h", "a5", "a6"]), "p": ("nand", ["a7", "a8"])},
                                         outputs=["o", "p"]),
    }
    n_mc = 0
    for polarity in (False, True):
        PM = pipeline_package(repo, polarity)
        for mname, cm in cmodels.items():
            cons = consistent_valuations(cm)
            sps = sorted(cm.startpoints())
            nodes = sorted(cm.nodes())
            asms = [None, {}]
            for n_ in nodes:
                asms += [{n_: True}, {n_: False}]
            for n1, n2 in list(_it.combinations(nodes, 2))[:: (3 if chk.tier == "quick" else 1)]:
                asms += [{n1: True, n2: False}, {n1: False, n2: False}]
            if mname.startswith("wide::"):
                # (each count enumerates up to 512 models: a handful of assumption sets on the first and the last startpoints by name)
                asms = [None, {"a0": True}, {"a0": False, "a1": True}, {"a0": True, "g": False, "a1": True}, {"a8": True, "a1": False}, {"a0": True, "a1": True, "o": True}]
            prob = None
            n_mc += len(asms)  # (the first disagreement ends a model circuit's loop; the floor counts the planned evaluations)
            for asm in asms:
                want = len({tuple(v[s_] for s_ in sps) for v in cons if agrees(v, asm)})
                r = PM.call(FILE, "model_count", cm, dict(asm) if asm is not None else None)
                if r[0] != "return" or r[1] != want or isinstance(r[1], bool):
                    prob = {"assumptions": str(asm), "result": str(r)[:100], "expected": want, "startpoints": sps}
                    break
            chk.ob("C08.B.value", f"model_count::{mname}::{'positive' if polarity else 'negative'}-branching", prob is None, file=FILE, func="model_count", line=fm.node.lineno,
                   fact=prob or {"assumption_sets": len(asms)}, expect="number of startpoint valuations that extend to a consistent valuation satisfying the assumptions")
    chk.floor("model_count pipeline evaluations", n_mc, 200)
    # the answer to one call does not depend on the calls made before it (a memo of encodings that a caller goes on to extend with
    # its assumptions shows only when the FIRST encoding of a structure is made with assumptions): fresh environment, assumptions first
    for mname in ("parity3", "two-independent-cones", "unloaded-startpoints"):
        cm = cmodels[mname]
        cons = consistent_valuations(cm)
        sps = sorted(cm.startpoints())
        out_ = sorted(cm.outputs())[0]
        PH = pipeline_package(repo, False)
        prob = None
        seq = [{out_: True}, None, {out_: False}, {}, {sps[0]: True}, None]
        for i_, asm in enumerate(seq):
            want = len({tuple(v[s_] for s_ in sps) for v in cons if agrees(v, asm)})
            # an equally built circuit that is another object: a memo keyed by structure is shared between them
            r = PH.call(FILE, "model_count", cm.copy() if i_ % 2 else cm, dict(asm) if asm is not None else None)
            if r[0] != "return" or r[1] != want or isinstance(r[1], bool):
                prob = {"call": i_ + 1, "calls_before": [str(a_) for a_ in seq[:i_]], "assumptions": str(asm), "result": str(r)[:100], "expected": want}
                break
        chk.ob("C08.H.no-state-between-calls", f"model_count::{mname}::assumptions first, then none", prob is None, file=FILE, func="model_count", line=fm.node.lineno, fact=prob or {"calls": len(seq)},
               expect="each count is that of its own assumptions, whatever was asked before")

    # ---- H: query, edit the same object through its API, query again - on the repository's OWN Circuit class -----------------
    # (a memo inside circuit.py's queries - transitive_fanin, startpoints ... - that an edit does not invalidate shows here)
    from ..pkgenv import build_full

    PFS = pipeline_package(repo, False, full_stack=True)
    base_spec = {"a": I_, "b": I_, "d": I_, "e": I_, "m": ("or", ["a", "b"]), "n": ("and", ["m", "d"]), "k": ("xor", ["n", "a"]), "o": ("not", ["k"])}
    edits = {
        "connect a new driver into the queried node": (lambda c_: c_.connect("e", "n"), {**base_spec, "n": ("and", ["m", "d", "e"])}),
        "disconnect a driver of the queried node": (lambda c_: c_.disconnect("d", "n"), {**base_spec, "n": ("and", ["m"])}),
        "add a gate in front (add with fanout)": (lambda c_: c_.add("z", "nor", fanin=["e", "b"], fanout=["n"]), {**base_spec, "z": ("nor", ["e", "b"]), "n": ("and", ["m", "d", "z"])}),
        "remove an input of the cone": (lambda c_: c_.remove("b"), {k_: (t_, [f_ for f_ in fi_ if f_ != "b"]) for k_, (t_, fi_) in base_spec.items() if k_ != "b"}),
    }
    for ename, (edit, after_spec) in edits.items():
        prob = None
        try:
            c_long = build_full(PFS, base_spec, outputs=["o"])
            for node in ("n", "o", "m"):
                PFS.call("props.py", "signal_probability", c_long, node, False)
                PFS.call(FILE, "model_count", c_long, {node: True})
            edit(c_long)
            c_fresh = build_full(pipeline_package(repo, False, full_stack=True), after_spec, outputs=["o"])
            PF2 = pipeline_package(repo, False, full_stack=True)
            c_fresh = build_full(PF2, after_spec, outputs=["o"])
            for node in ("n", "o", "m"):
                got = (PFS.call("props.py", "signal_probability", c_long, node, False), PFS.call(FILE, "model_count", c_long, {node: True}))
                want = (PF2.call("props.py", "signal_probability", c_fresh, node, False), PF2.call(FILE, "model_count", c_fresh, {node: True}))
                if [x[:2] for x in got] != [x[:2] for x in want]:
                    prob = {"node": node, "after_the_edit": str(got)[:120], "fresh_circuit_with_the_same_structure": str(want)[:120]}
                    break
        except ModelRaise as e_:
            prob = {"problem": "the edit sequence cannot be carried out", "error": str(e_)[:120]}
        chk.ob("C08.H.query-edit-query", f"{ename}", prob is None, file="props.py", func="signal_probability / model_count", fact=prob or {"nodes": 3},
               expect="after an edit through the API, the counts and probabilities are those of a fresh circuit with the same structure")

    # ---- P: signal_probability ----------------------------------------
    fp = repo.func("props.py", "signal_probability")
    pp = func_params(fp.node)
    sub_spec = {"a": ("input", []), "u.q": ("bb_output", []), "w": ("buf", ["u.q"]), "g": ("and", ["a", "w"])}
    subc, _, _ = circuit_sp(sub_spec)
    seen = {}

    def fake_subcircuit(circ, nodes, modify_io=False):
        seen["sub_args"] = (circ, set(nodes), modify_io)
        return subc

    def fake_model_count(circ, assumptions=None):
        seen["mc_args"] = (circ, assumptions)
        return 3

    def fake_approx(circ, assumptions=None, **kw):
        seen["amc_args"] = (circ, assumptions, kw)
        return 3

    cg = NS(tx=NS(subcircuit=fake_subcircuit), sat=NS(model_count=fake_model_count, approx_model_count=fake_approx))
    # these three obligations describe HOW the exact probability is obtained today (cone sub-circuit, counted under {n: True},
    # normalised by the sub-circuit's startpoints).  An implementation that gets the value another way is decided by
    # C08.P.value alone: if the counting helpers are never reached (or the body needs more of the circuit than these fakes
    # offer) the shape obligations abstain with a note instead of raising an alarm.
    from ..core import AnalysisError as _AE

    try:
        r = run_func(repo, "signal_probability", {pp[0]: c, pp[1]: "g", "approx": False, "kwargs": {}, "cg": cg}, file="props.py")
    except _AE as e_:
        r = None
        chk.note(f"C08.P shape obligations abstain: signal_probability needs more than the counting helpers on the fake circuit ({str(e_)[:120]}); C08.P.value decides")
    if r is not None and "mc_args" not in seen:
        chk.note("C08.P shape obligations abstain: signal_probability did not reach sat.model_count on the fake circuit; C08.P.value decides")
        r = None
    want = 3 / (2 ** 2)
    if r is not None:
      chk.ob("C08.P.normalisation", "signal_probability::count / 2**len(startpoints of the counted circuit)", r == ("return", want), file="props.py", func="signal_probability", line=fp.node.lineno,
           fact={"result": str(r), "count": 3, "subcircuit_startpoints": 2, "parent_startpoints": 3}, expect=want)
      sa = seen.get("sub_args")
      chk.ob("C08.P.cone", "signal_probability::sub-circuit is the reflexive fan-in cone of n", bool(sa) and sa[0] is c and sa[1] == {"g", "a", "w", "u.q"}, file="props.py", func="signal_probability", line=fp.node.lineno,
           fact={"nodes": sorted(sa[1]) if sa else None}, expect=["a", "g", "u.q", "w"])
      ma = seen.get("mc_args")
      chk.ob("C08.P.assumption", "signal_probability::counts the sub-circuit under {n: True}", bool(ma) and ma[0] is subc and ma[1] == {"g": True} and ma[1]["g"] is True, file="props.py", func="signal_probability", line=fp.node.lineno,
           fact={"assumptions": str(ma[1]) if ma else None, "counted_is_subcircuit": bool(ma) and ma[0] is subc}, expect="{'g': True} on the sub-circuit")

    # ---- P (values): exact signal probability of every node of model circuits, incl. nodes fed only by constants -----
    from fractions import Fraction
    from ..pkgenv import Package
    from ..refmodel import build, free_nodes, simulate as rsim
    from ..refsat import overrides
    from ..semantic import assignments as _assignments

    PP = Package(repo, overrides=overrides())
    # ... and, where signal_probability talks to the counter in a way the reference counter does not know (an interface of the two
    # functions that changed together), the repository's own model_count from source over the DPLL solver model
    from ..satpipe import pipeline_package as _pp

    class _Both:
        def __init__(self):
            self.ref, self.src = PP, None

        def call(self, *a):
            try:
                return self.ref.call(*a)
            except AnalysisError as e:
                if "model of the callee does not take these arguments" not in str(e):
                    raise
                if self.src is None:
                    self.src = _pp(repo, True)
                return self.src.call(*a)

    PP = _Both()
    PPS = PP
    pmodels = {
        "ties": build({"a": ("input", []), "z": ("0", []), "w": ("1", []), "nz": ("not", ["z"]), "bw": ("buf", ["w"]), "g": ("and", ["a", "nz"]), "k": ("nor", ["z", "bw"]), "x2": ("xor", ["nz", "bw"])}, outputs=["g", "k"]),
        "plain": build({"a": ("input", []), "b": ("input", []), "c": ("input", []), "g": ("or", ["a", "b"]), "h": ("xnor", ["g", "c"]), "n": ("not", ["g"])}, outputs=["h", "n"]),
    }
    # tree-shaped cones (no reconvergent fan-out) whose gates see operands with probabilities other than 1/2: every gate type at
    # fan-in 1, 2 and 3 over and2 / or2 / nand3 leaves
    I_ = ("input", [])
    for t_ in ("and", "nand", "or", "nor", "xor", "xnor"):
        spec_ = {f"i{j}": I_ for j in range(7)}
        spec_.update({"l0": ("and", ["i0", "i1"]), "l1": ("or", ["i2", "i3"]), "l2": ("nand", ["i4", "i5", "i6"]),
                      "g1": (t_, ["l0"]), "g2": (t_, ["l1", "l2"]), "g3": (t_, ["g1", "g2", "i0x"]), "i0x": I_, "top": ("not", ["g3"])})
        pmodels[f"tree::{t_}"] = build(spec_, outputs=["top"])
    from ..corpus import corpus

    for k_, tags, cc in corpus("quick", exclude=("x", "names", "wide")):
        pmodels[f"corpus::{k_}"] = cc
    # a blackbox output is a startpoint like an input: cones that contain one (the quantifier names circuits with blackbox pins)
    from ..refmodel import RefBlackBox as _RBB

    _bb = _RBB("bb", ["i"], ["o"])
    pmodels["blackbox-output-in-the-cone"] = build({"x": ("input", []), "u0.i": ("bb_input", ["x"]), "u0.o": ("bb_output", []), "y": ("buf", ["u0.o"]), "z": ("and", ["x", "y"])}, outputs=["z"], blackboxes={"u0": _bb})
    # logic outside the cone that has no consistent valuation at all (a free-running inverter loop): the probability of a node is a
    # matter of its own cone (the reference values come from the twin circuit without the loop)
    twins = {}
    _cone_only = {"a": ("input", []), "b": ("input", []), "n": ("and", ["a", "b"]), "m": ("xor", ["n", "a"])}
    pmodels["oscillator-outside-the-cone"] = build({**_cone_only, "g": ("not", ["g"]), "h": ("buf", ["g"])}, outputs=["m", "h"])
    twins["oscillator-outside-the-cone"] = build(_cone_only, outputs=["m"])
    for mname, cm in pmodels.items():
        for node in sorted(cm.nodes()):
            if cm.type(node) == "bb_input":
                continue
            if mname in twins and node not in twins[mname].nodes():
                continue
            sp = sorted(cm.startpoints(node))
            rc_ = twins.get(mname, cm)
            ones = sum(1 for a in _assignments(sp) if rsim(rc_, {**{s: False for s in rc_.startpoints()}, **a})[node])
            want = Fraction(ones, 2 ** len(sp))
            r = PP.call("props.py", "signal_probability", cm, node, False)
            if r[0] == "unreadable-with-the-reference-counter":
                r = PPS.call("props.py", "signal_probability", cm, node, False)
            ok = r[0] == "return" and isinstance(r[1], (int, float)) and Fraction(r[1]).limit_denominator(1 << 20) == want
            chk.ob("C08.P.value", f"signal_probability::{mname}::{node}", ok, file="props.py", func="signal_probability", fact={"result": str(r)[:80], "expected": str(want)}, expect=str(want))
    # feedback inside the cone: a valuation of the startpoints that has *no* consistent extension is not one "under which n is 1"
    # (and each of the others has exactly one here, so "n is 1" is unambiguous) - `1 - P(n is 0)` is not P(n is 1) on these
    from ..satpipe import consistent_valuations as _cons

    fb_models = {
        "gated-odd-ring": build({"en": I_, "n0": ("nand", ["en", "n2"]), "n1": ("not", ["n0"]), "n2": ("not", ["n1"]), "o": ("buf", ["n0"])}, outputs=["o"]),
        "gated-odd-ring-through-an-or": build({"en": I_, "b": I_, "n0": ("or", ["en", "n2"]), "n1": ("not", ["n0"]), "n2": ("buf", ["n1"]), "o": ("and", ["n0", "b"])}, outputs=["o"]),
        # a gate that is its own operand (the cone must keep the self-loop edge): r = 1 forces q = 0, r = 0 leaves no consistent value
        "self-loop-nor": build({"r": I_, "b": I_, "q": ("nor", ["r", "q"]), "o": ("or", ["q", "b"])}, outputs=["o"]),
        "self-loop-xnor-behind-a-gate": build({"a": I_, "b": I_, "g": ("and", ["a", "b"]), "q": ("nor", ["g", "q"]), "o": ("buf", ["q"])}, outputs=["o"]),
        "two-gated-rings": build({"e0": I_, "e1": I_, "p0": ("nand", ["e0", "p1"]), "p1": ("buf", ["p0"]), "q0": ("nor", ["e1", "q1"]), "q1": ("buf", ["q0"]), "o": ("or", ["p0", "q0"])}, outputs=["o"]),
    }
    PSRC = _pp(repo, True)  # the repository's own counter from source over the DPLL solver model (the reference counter simulates)
    for mname, cm in fb_models.items():
        for node in sorted(cm.nodes()):
            sub = cm.transitive_fanin(node) | {node}
            cone = build({n_: (cm.type(n_), sorted(cm.fanin(n_))) for n_ in sorted(sub)}, outputs=[node])
            sp = sorted(cm.startpoints(node))
            per = {}
            for v in _cons(cone):
                per.setdefault(tuple(v[s_] for s_ in sp), []).append(v)
            if any(len(x) > 1 for x in per.values()):
                continue  # a valuation with two extensions in the cone: which of them counts is not laid down
            want = Fraction(sum(1 for x in per.values() if x[0][node]), 2 ** len(sp))
            r = PSRC.call("props.py", "signal_probability", cm, node, False)
            ok = r[0] == "return" and isinstance(r[1], (int, float)) and Fraction(r[1]).limit_denominator(1 << 20) == want
            chk.ob("C08.P.value", f"signal_probability::feedback::{mname}::{node}", ok, file="props.py", func="signal_probability", fact={"result": str(r)[:80], "expected": str(want)}, expect=str(want))
    # ---- D: approx_model_count DIMACS ---------------------------------
    fa = repo.func(FILE, "approx_model_count")
    pa = func_params(fa.node)
    from .c01 import _PKG
    from ..pkgenv import Package

    if id(repo) not in _PKG:
        _PKG[id(repo)] = Package(repo)
    cnf_closure = _PKG[id(repo)].func(FILE, "cnf")
    add_asm = _PKG[id(repo)].func(FILE, "add_assumptions")
    n_d = 0
    specs = {
        "mixed": (SPEC, [None, {"h": True}, {"g": False, "h": True}]),
        "parity": ({"a": ("input", []), "b": ("input", []), "c": ("input", []), "g": ("xnor", ["a", "b", "c"]), "o": ("or", ["g", "a"])}, [None, {"o": True}, {"g": True, "o": False}]),
    }
    # wide sampling sets (the `c ind` line may be wrapped or built in chunks): only the set / header / clause rules apply
    for w in (10, 11, 12, 23):
        wspec = {f"i{j}": ("input", []) for j in range(w)}
        wspec["g"] = ("nor", [f"i{j}" for j in range(w)])
        specs[f"wide{w}"] = (wspec, [None, {"g": True}])
    for sname, (spec, asms) in specs.items():
        for asm in asms:
            cc, types, fanin = circuit_sp(spec)
            files = []

            def ntf(**kw):
                f = MFile(f"/tmp/fake{len(files)}")
                files.append(f)
                return f

            def fake_run(cmd, stdout=None, stderr=None, **kw):
                fake_run.cmd = cmd
                fake_run.seen = [f.on_disk for f in files]  # the instance as the external counter finds it on disk
                if stdout is not None:
                    stdout.write("c ApproxMC\ns mc 7\n")
                return None

            env = {pa[0]: cc, "assumptions": asm, "startpoints": None, "e": None, "d": None, "seed": None, "detach_xor": True, "use_xor_clauses": False, "log_file": None,
                   "cnf": cnf_closure, "add_assumptions": add_asm, "shutil": NS(which=lambda x: "/usr/bin/" + x), "tempfile": NS(NamedTemporaryFile=ntf),
                   "subprocess": NS(run=fake_run), "re": MRe()}
            r = run_func(repo, "approx_model_count", env)
            n_d += 1
            tag = f"{sname}::{'+'.join(sorted(asm)) if asm else 'no-assumptions'}"
            ok_ret = r == ("return", 7)
            chk.ob("C08.D.result-parsed", f"approx_model_count::{tag}", ok_ret, file=FILE, func="approx_model_count", line=fa.node.lineno, fact={"result": str(r)}, expect=7)
            dimacs = (fake_run.seen[0] if getattr(fake_run, "seen", None) else "") if files else ""
            lines = [l for l in dimacs.split("\n") if l.strip()]
            ind = None
            ind_bad = False
            header = None
            clauses = []
            bad_line = None
            for l in lines:
                if l.startswith("c ind"):
                    toks = l.split()[2:]
                    part = [int(t) for t in toks[:-1]] if toks and toks[-1] == "0" else None
                    if part is None:
                        ind_bad = True
                    else:
                        ind = (ind or []) + part
                elif l.startswith("p cnf"):
                    header = tuple(int(x) for x in l.split()[2:4])
                elif l.startswith("c"):
                    continue
                else:
                    toks = l.split()
                    if toks[-1] != "0":
                        bad_line = l
                    else:
                        clauses.append([int(t) for t in toks[:-1]])
            # reference clause set
            rr = cnf_closure(cc)
            formula, variables = rr
            ref = [list(x) for x in formula.clauses]
            if asm:
                for k_, val in asm.items():
                    ref.append([variables._ids[k_]] if val else [-variables._ids[k_]])
            spn = sorted(cc.startpoints())
            want_ind = sorted(variables._ids[n] for n in spn)
            chk.ob("C08.D.sampling-set", f"approx_model_count::{tag}", ind is not None and not ind_bad and sorted(ind) == want_ind and len(ind) == len(set(ind)), file=FILE, func="approx_model_count", line=fa.node.lineno,
                   fact={"ind": ind, "startpoints": spn}, expect=want_ind)
            nv = max([abs(l) for cl in clauses for l in cl] or [0])
            chk.ob("C08.D.header", f"approx_model_count::{tag}", header is not None and header[1] == len(clauses) and header[0] >= nv and bad_line is None, file=FILE, func="approx_model_count", line=fa.node.lineno,
                   fact={"header": header, "clauses": len(clauses), "max_var": nv, "unterminated_line": bad_line}, expect="p cnf <nv >= max var> <number of clause lines>")
            chk.ob("C08.D.clauses", f"approx_model_count::{tag}", sorted(map(sorted, clauses)) == sorted(map(sorted, ref)), file=FILE, func="approx_model_count", line=fa.node.lineno,
                   fact={"n_written": len(clauses), "n_expected": len(ref)}, expect="cnf(c) clauses plus one unit clause per assumption")
            # semantic: projected model count
            nv = max([nv] + [abs(i) for i in (ind or [])])
            if ind and nv <= 16 and bad_line is None:
                proj = set()
                for bits in itertools.product([False, True], repeat=nv):
                    if all(any((bits[abs(l) - 1] if l > 0 else not bits[abs(l) - 1]) for l in cl) for cl in clauses):
                        proj.add(tuple(bits[i - 1] for i in sorted(ind)))
                free = spn
                expected = 0
                for fa_ in itertools.product([False, True], repeat=len(free)):
                    val = simulate(types, fanin, dict(zip(free, fa_)))
                    if all(bool(val[k_]) == bool(x) for k_, x in (asm or {}).items()):
                        expected += 1
                chk.ob("C08.D.projected-count", f"approx_model_count::{tag}", len(proj) == expected, file=FILE, func="approx_model_count", line=fa.node.lineno,
                       fact={"projected_models": len(proj), "expected": expected}, expect=expected)
    # assumption on a non-node is rejected
    cc, _, _ = circuit_sp(SPEC)
    env = {pa[0]: cc, "assumptions": {"ghost": True}, "startpoints": None, "e": None, "d": None, "seed": None, "detach_xor": True, "use_xor_clauses": False, "log_file": None,
           "cnf": cnf_closure, "add_assumptions": add_asm, "shutil": NS(which=lambda x: "/usr/bin/" + x), "tempfile": NS(NamedTemporaryFile=ntf),
           "subprocess": NS(run=fake_run), "re": MRe()}
    del files[:]
    r = run_func(repo, "approx_model_count", env)
    chk.ob("C08.D.assumption-guard", "approx_model_count::assumption on a non-node", r == ("raise", "ValueError") and not files, file=FILE, func="approx_model_count", line=fa.node.lineno,
           fact={"result": str(r), "files_opened_before_raise": len(files)}, expect="ValueError before anything is written")
    chk.floor("DIMACS instances examined", n_d, 6)
