"""
C15 - the bench reader and writer are faithful.

Decided:
  K   (static, regex literal parsed with re._parser / literal list from the AST) the reader's gate
      keyword alternation contains every keyword of the dialect in upper and lower case
  R   (evaluation: io.bench_to_circuit evaluated from source with a faithful `re` model) for texts of
      the dialect - INPUT/OUTPUT lines, every gate keyword in both cases with 1..3 operands, BUFF,
      definitions after use, spacing variants, DFF lines - the circuit has exactly the declared
      inputs and outputs, every net computes what the text denotes (exhaustive simulation), and each
      DFF becomes a flip-flop blackbox between its D net and its Q net
  W   (evaluation: io.circuit_to_bench then bench_to_circuit) for model circuits with at least one
      input (every gate type at fan-in 1..3, multi-level circuits, constants feeding logic and
      constants as outputs, outputs that are inputs) reading back the written text gives the same
      inputs and outputs and the same function at every output; blackboxes / x constants are rejected
      with ValueError
  M   no emitted gate repeats an operand (fan-in is an edge set, a repeated operand collapses)
Not decided: arbitrary bench text outside the families.
"""
import ast
import itertools

from ..astutil import walk_no_nested
from ..core import AnalysisError, ConstEnv
from ..gates import bool_gate
from ..minieval import ModelRaise
from ..pkgenv import Package
from ..refmodel import RefBlackBox, RefCircuit, build, free_nodes, simulate
from ..semantic import assignments, deep_circuits, guarded, one_gate_circuits

FILE = "io.py"
KEYWORDS = ["BUF", "BUFF", "NOT", "AND", "NAND", "OR", "NOR", "XOR", "XNOR"]
KW_TYPE = {"BUF": "buf", "BUFF": "buf", "NOT": "not", "AND": "and", "NAND": "nand", "OR": "or", "NOR": "nor", "XOR": "xor", "XNOR": "xnor"}


@guarded
def check_nets(c, inputs, outputs, fns):
    if c.inputs() != set(inputs):
        return {"problem": "inputs differ from the INPUT lines", "inputs": sorted(c.inputs()), "expected": sorted(inputs)}
    if c.outputs() != set(outputs):
        return {"problem": "outputs differ from the OUTPUT lines", "outputs": sorted(c.outputs()), "expected": sorted(outputs)}
    fr = set(free_nodes(c))
    want_free = set(inputs) | c.filter_type("bb_output")
    if fr != want_free:
        return {"problem": "free signals are not the declared inputs (an undriven net)", "free": sorted(fr), "expected": sorted(want_free)}
    for a in assignments(sorted(fr)):
        v = simulate(c, a)
        for net, fn in fns.items():
            if net not in v:
                return {"problem": "net missing", "net": net}
            if v[net] != fn(a):
                return {"problem": "net computes a different function than the text denotes", "net": net, "assignment": a, "value": v[net], "expected": fn(a)}
    return None


def reader_texts():
    for kw in KEYWORDS:
        for case in (kw, kw.lower()):
            t = KW_TYPE[kw]
            for k in ([1] if t in ("buf", "not") else [1, 2, 3]):
                ins = ["a", "b", "c"][:k]
                text = "# t\n" + "".join(f"INPUT({i})\n" for i in ins) + "OUTPUT(g)\n\n" + f"g = {case}({', '.join(ins)})\n"
                eff = t if k > 1 or t in ("buf", "not") else ("buf" if t in ("and", "or", "xor") else "not")
                yield f"gate::{case}{k}", text, ins, ["g"], {"g": (lambda a, eff=eff, ins=ins: bool_gate(eff, [a[i] for i in ins]))}
    yield "use-before-definition", "INPUT(a)\nINPUT(b)\nOUTPUT(o)\nOUTPUT(n1)\no = NAND(n1, n2)\nn1 = NOT(a)\nn2 = OR(a, b)\n", ["a", "b"], ["o", "n1"], \
        {"o": lambda v: not ((not v["a"]) and (v["a"] or v["b"])), "n1": lambda v: not v["a"], "n2": lambda v: v["a"] or v["b"]}
    yield "spacing-variants", "input(x1)\ninput( x_2 )\noutput( y )\ny=xor( x1 ,x_2 )\n", ["x1", "x_2"], ["y"], {"y": lambda v: v["x1"] != v["x_2"]}
    yield "operand-lists-wrapped-over-lines", "INPUT(a)\nINPUT(\n  b )\nINPUT(c)\nOUTPUT(\to\n)\nn1 = AND(a,\n         b)\nn2 = OR( n1\n\t, c\n)\no = XNOR(n1,\nn2)\n", ["a", "b", "c"], ["o"], \
        {"n1": lambda v: v["a"] and v["b"], "n2": lambda v: (v["a"] and v["b"]) or v["c"], "o": lambda v: (v["a"] and v["b"]) == ((v["a"] and v["b"]) or v["c"])}
    yield "several-statements-per-line-and-tabs", "INPUT(a) INPUT(b)\nOUTPUT(o)\tOUTPUT(p)\no\t=\tNAND(a,\tb)  p = NOT(o)\n", ["a", "b"], ["o", "p"], {"o": lambda v: not (v["a"] and v["b"]), "p": lambda v: v["a"] and v["b"]}
    yield "names-with-digits", "INPUT(N1)\nINPUT(N2)\nOUTPUT(N10)\nN7 = AND(N1, N2)\nN10 = NOR(N7, N1)\n", ["N1", "N2"], ["N10"], {"N10": lambda v: not ((v["N1"] and v["N2"]) or v["N1"]), "N7": lambda v: v["N1"] and v["N2"]}
    yield "blank-between-keyword-and-parenthesis", "INPUT (a)\nINPUT (b)\nOUTPUT (o)\no = AND (a, b)\np = NOT  (o)\nOUTPUT(p)\n", ["a", "b"], ["o", "p"], {"o": lambda v: v["a"] and v["b"], "p": lambda v: not (v["a"] and v["b"])}
    yield "names-with-a-leading-underscore", "INPUT(_a)\nINPUT(b)\nOUTPUT(_o)\n_n = OR(_a, b)\n_o = AND(_n, _a)\n", ["_a", "b"], ["_o"], {"_n": lambda v: v["_a"] or v["b"], "_o": lambda v: (v["_a"] or v["b"]) and v["_a"]}
    yield "the-same-net-twice-on-a-parity-gate", "INPUT(a)\nINPUT(b)\nOUTPUT(o)\nOUTPUT(p)\nOUTPUT(r)\no = XOR(a, a)\np = XNOR(a, a)\nr = XOR(a, b, a)\n", ["a", "b"], ["o", "p", "r"], \
        {"o": lambda v: False, "p": lambda v: True, "r": lambda v: v["b"]}
    yield "the-same-net-three-and-four-times-on-a-parity-gate", "INPUT(a)\nINPUT(b)\nOUTPUT(o)\nOUTPUT(p)\nOUTPUT(r)\nOUTPUT(s)\no = XOR(a, b, a, a)\np = XNOR(a, a, a)\nr = XOR(a, a, b, a, a)\ns = XNOR(b, a, b, a, b)\n", \
        ["a", "b"], ["o", "p", "r", "s"], {"o": lambda v: v["a"] != v["b"], "p": lambda v: not v["a"], "r": lambda v: v["b"], "s": lambda v: not v["b"]}
    # `#` starts a comment that runs to the end of the line (the bundled netlists open with one): a commented-out gate, declaration or
    # DFF is not part of the circuit, wherever it stands
    yield "comments-with-statements-in-them", "# o = OR(a, b)\n# INPUT(zz)\nINPUT(a)  # first\nINPUT(b)\nOUTPUT(o)\n#OUTPUT(n1)\nn1 = NAND(a, b)  # n1 = AND(a, b)\no = NOT(n1)\n# o = BUF(a)\n#q = DFF(o)\n", \
        ["a", "b"], ["o"], {"n1": lambda v: not (v["a"] and v["b"]), "o": lambda v: v["a"] and v["b"]}
    # nets whose whole name is a keyword in the other letter case than the statement uses (names are case sensitive, keywords are not)
    yield "nets-named-like-keywords", "INPUT(OR)\nINPUT(and)\nINPUT(Dff)\nOUTPUT(XOR)\nOUTPUT(input)\nXOR = nand(OR, and)\ninput = NOT(Dff)\n", ["OR", "and", "Dff"], ["XOR", "input"], \
        {"XOR": lambda v: not (v["OR"] and v["and"]), "input": lambda v: not v["Dff"]}
    yield "nets-named-like-keywords-next-to-their-lower-case-twins", "INPUT(OR)\nINPUT(or)\nOUTPUT(o)\no = AND(OR, or)\n", ["OR", "or"], ["o"], {"o": lambda v: v["OR"] and v["or"]}
    yield "the-same-net-twice-on-an-idempotent-gate", "INPUT(a)\nINPUT(b)\nOUTPUT(o)\nOUTPUT(p)\no = AND(a, a, b)\np = NOR(b, b)\n", ["a", "b"], ["o", "p"], {"o": lambda v: v["a"] and v["b"], "p": lambda v: not v["b"]}
    yield "carriage-returns-and-form-feeds-inside-wrapped-operand-lists", "INPUT(a)\r\nINPUT(b)\r\nINPUT(c)\r\nOUTPUT(x)\r\nOUTPUT(y)\r\nx = AND(a,\r\n      b)\r\ny = OR(x,\f c,\v a)\r\n", ["a", "b", "c"], ["x", "y"], \
        {"x": lambda v: v["a"] and v["b"], "y": lambda v: (v["a"] and v["b"]) or v["c"] or v["a"]}
    yield "output-is-input", "INPUT(a)\nINPUT(b)\nOUTPUT(a)\nOUTPUT(g)\ng = AND(a, b)\n", ["a", "b"], ["a", "g"], {"g": lambda v: v["a"] and v["b"], "a": lambda v: v["a"]}


def writer_circuits():
    for k, c in one_gate_circuits(max_arity=3):
        yield k, c
    for k, c in deep_circuits():
        yield k, c
    from ..corpus import corpus

    for k, tags, c in corpus("quick", exclude=("x",)):
        yield f"corpus::{k}", c
    yield "const-zero-feeds-logic", build({"a": ("input", []), "z": ("0", []), "g": ("or", ["a", "z"]), "h": ("xor", ["g", "z"])}, outputs=["h", "g"])
    yield "const-one-feeds-logic", build({"a": ("input", []), "b": ("input", []), "w": ("1", []), "g": ("and", ["a", "w"]), "h": ("nand", ["g", "w", "b"])}, outputs=["h"])
    yield "constants-are-outputs", build({"a": ("input", []), "z": ("0", []), "w": ("1", []), "g": ("not", ["a"])}, outputs=["z", "w", "g"])
    yield "nets-named-like-the-constant-helpers", build({"a": ("input", []), "b": ("input", []), "z": ("0", []), "w": ("1", []), "a_inv": ("and", ["a", "b"]), "b_inv": ("or", ["a", "b"]), "z_not_a": ("xor", ["a", "b"]),
                                                         "z_not_b": ("nand", ["a", "b"]), "g": ("xor", ["a_inv", "b_inv", "z", "w", "z_not_a", "z_not_b"])}, outputs=["g", "a_inv"])
    # names that are not plain identifiers (escaped identifiers a Verilog read leaves behind, bus bits, hyphens): whatever the writer emits
    # the reader has to take back
    yield "names-that-are-not-plain-identifiers", build({"a-1": ("input", []), "b[0]": ("input", []), "\\n[0]": ("or", ["a-1", "b[0]"]), "u.v": ("nand", ["\\n[0]", "b[0]"]), "o$": ("xor", ["u.v", "a-1"])}, outputs=["o$", "u.v"])
    yield "both-constants-one-input", build({"i": ("input", []), "z": ("0", []), "w": ("1", []), "g": ("xnor", ["i", "z", "w"])}, outputs=["g"])


@guarded
def same_io_function(c, d):
    if d.inputs() != c.inputs() or d.outputs() != c.outputs():
        return {"problem": "inputs/outputs differ after the round trip", "inputs": sorted(d.inputs()), "outputs": sorted(d.outputs()), "expected_inputs": sorted(c.inputs()), "expected_outputs": sorted(c.outputs())}
    if set(free_nodes(d)) != set(free_nodes(c)):
        return {"problem": "free signals differ after the round trip", "free": sorted(free_nodes(d))}
    for a in assignments(sorted(c.inputs())):
        vc, vd = simulate(c, a), simulate(d, a)
        for o in c.outputs():
            if vc[o] != vd[o]:
                return {"problem": "output function differs after the round trip", "output": o, "assignment": a, "value": vd[o], "expected": vc[o]}
    return None


def run(chk):
    repo = chk.repo
    chk.explanation = ("Static keyword-table rule on the reader's alternation; bench_to_circuit / circuit_to_bench evaluated from io.py's source by the checker's evaluator (faithful `re` model) on dialect texts and "
                       "model circuits, results simulated exhaustively against the denoted functions; operand-multiplicity rule on every emitted gate line.")
    chk.assume("regex semantics are Python's `re` on plain strings; DFF blackbox pins are named D and Q as in the reader")
    from ..core import type_vocabulary
    from ..structural import dispatch_rule, vocabulary_rule

    vocabulary_rule(chk, repo, "C15.S.vocabulary", [(FILE, "circuit_to_bench")])
    dispatch_rule(chk, repo, "C15.S.dispatch", FILE, "circuit_to_bench", set(type_vocabulary(repo)["supported_types"]) - {"x", "bb_input", "bb_output", "input"}, min_branches=2)
    P = Package(repo)
    fr_ = repo.func(FILE, "bench_to_circuit")
    fw = repo.func(FILE, "circuit_to_bench")
    # ---- K: keyword table (static) -----------------------------------------
    kw_list = None
    for n in walk_no_nested(fr_.node):
        if isinstance(n, ast.Assign) and isinstance(n.value, ast.List) and all(isinstance(e, ast.Constant) and isinstance(e.value, str) for e in n.value.elts):
            vals = [e.value for e in n.value.elts]
            if {"and", "or"} <= {v.lower() for v in vals}:
                kw_list = (vals, n.lineno)
    if kw_list is not None:
        low = {v.lower() for v in kw_list[0]}
        for kw in KEYWORDS:
            chk.ob("C15.K.keyword-table", f"bench_to_circuit::{kw}", kw.lower() in low, file=FILE, func="bench_to_circuit", line=kw_list[1], fact={"keywords": kw_list[0]}, expect=f"{kw.lower()} among the reader's gate keywords")
    else:
        chk.note("reader's keyword list is not a literal list; only the evaluation rule R decides the keyword table")
    # ---- R: reader -----------------------------------------------------------
    n = 0
    for name, text, ins, outs, fns in reader_texts():
        r = P.call(FILE, "bench_to_circuit", text, "t")
        n += 1
        if r[0] != "return" or not isinstance(r[1], RefCircuit):
            prob = {"problem": "reader raises", "result": str(r)[:160]}
        else:
            prob = check_nets(r[1], ins, outs, fns)
            if prob is None and r[1].name != "t":
                prob = {"problem": "name not set", "name": r[1].name}
        chk.ob("C15.R.reader", name, prob is None, file=FILE, func="bench_to_circuit", line=fr_.node.lineno, fact=prob or {"text": text[:80]}, expect="declared io; every net computes what the text denotes")
    # net names the library cannot hold (the numeric names of the original ISCAS files): refused, not dropped line by line
    for name, text in (("numeric-net-names", "INPUT(1)\nINPUT(2)\nOUTPUT(3)\n3 = NAND(1, 2)\n"), ("numeric-gate-name-only", "INPUT(a)\nINPUT(b)\nOUTPUT(o)\n10 = NAND(a, b)\no = NOT(a)\n")):
        r = P.call(FILE, "bench_to_circuit", text, "t")
        n += 1
        prob = None if (r[0] == "raise" and r[1] == "ValueError") else {"problem": "a text whose net names cannot be held is read as a (partial) circuit", "result": str(r)[:100],
                                                                         "nodes": sorted(r[1].nodes()) if r[0] == "return" and isinstance(r[1], RefCircuit) else None}
        chk.ob("C15.R.reader", name, prob is None, file=FILE, func="bench_to_circuit", line=fr_.node.lineno, fact=prob or {"text": text[:80]}, expect="ValueError (a name that starts with a digit cannot be a node)")
    # ---- F: through files: the format given wins over the extension (documented for from_file) ------------
    from .c03 import MemFS, MPath

    fs = MemFS()
    env_io = P.env(FILE)
    env_io["open"] = fs.open
    env_io["Path"] = MPath
    MPath._fs = fs
    btext = "INPUT(a)\nINPUT(b)\nOUTPUT(o)\nn1 = NOR(a, b)\no = NOT(n1)\n"
    for path, fmt in (("/mem/t.bench", None), ("/mem/t.v", "bench"), ("/mem/t.txt", "bench")):
        fs.files[path] = btext
        fs.touch(path)
        r = P.call(FILE, "from_file", path, "t", fmt)
        n += 1
        if r[0] != "return" or not isinstance(r[1], RefCircuit):
            prob = {"problem": "not read as a bench file", "result": str(r)[:160]}
        else:
            prob = check_nets(r[1], ["a", "b"], ["o"], {"o": lambda v: v["a"] or v["b"]})
        chk.ob("C15.F.files", f"from_file::{path.rsplit('/', 1)[1]}::fmt={fmt}", prob is None, file=FILE, func="from_file", fact=prob or {}, expect="read with the bench reader")
    # DFF lines
    for case in ("DFF", "dff"):
        text = f"INPUT(x)\nOUTPUT(y)\nq = {case}(d)\nd = XOR(x, q)\ny = AND(x, q)\n"
        r = P.call(FILE, "bench_to_circuit", text, "s")
        n += 1
        prob = None
        if r[0] != "return":
            prob = {"problem": "reader raises", "result": str(r)[:160]}
        else:
            c = r[1]
            insts = list(c.blackboxes)
            if len(insts) != 1:
                prob = {"problem": "DFF did not become one blackbox instance", "instances": insts}
            else:
                i = insts[0]
                bb = c.blackboxes[i]
                dp = [p for p in bb.inputs()]
                qp = [p for p in bb.outputs()]
                if len(dp) != 1 or len(qp) != 1:
                    prob = {"problem": "flip-flop blackbox does not have one data input and one output", "inputs": sorted(dp), "outputs": sorted(qp)}
                elif c.fanin(f"{i}.{dp[0]}") != {"d"} or c.fanout(f"{i}.{qp[0]}") != {"q"} or c.type("q") != "buf":
                    prob = {"problem": "flip-flop not between its D net and its Q net", "D_driver": sorted(c.fanin(f"{i}.{dp[0]}")), "Q_load": sorted(c.fanout(f"{i}.{qp[0]}"))}
                elif c.inputs() != {"x"} or c.outputs() != {"y"}:
                    prob = {"problem": "io differ", "inputs": sorted(c.inputs()), "outputs": sorted(c.outputs())}
                else:
                    prob = check_nets(c, ["x"], ["y"], {"y": lambda v, i=i, qp=qp: v["x"] and v[f"{i}.{qp[0]}"], "d": lambda v, i=i, qp=qp: v["x"] != v[f"{i}.{qp[0]}"]})
        chk.ob("C15.R.dff", f"dff::{case}", prob is None, file=FILE, func="bench_to_circuit", line=fr_.node.lineno, fact=prob or {}, expect="a flip-flop blackbox between the D net and the Q net")
    # a chain of flops, the downstream one listed first (any order of lines), and a blank before the parenthesis
    for order_name, lines in (("upstream-first", ["q1 = DFF(a)", "q2 = DFF (q1)"]), ("downstream-first", ["q2 = DFF (q1)", "q1 = DFF(a)"])):
        text = "INPUT(a)\nOUTPUT(q2)\n" + "\n".join(lines) + "\n"
        r = P.call(FILE, "bench_to_circuit", text, "s")
        n += 1
        prob = None
        if r[0] != "return":
            prob = {"problem": "reader raises", "result": str(r)[:160]}
        else:
            c = r[1]
            dq = sorted((sorted(c.fanin(f"{i}.{list(bb.inputs())[0]}")), sorted(c.fanout(f"{i}.{list(bb.outputs())[0]}"))) for i, bb in c.blackboxes.items())
            if dq != [(["a"], ["q1"]), (["q1"], ["q2"])] or c.inputs() != {"a"} or c.outputs() != {"q2"}:
                prob = {"problem": "flops not chained a -> q1 -> q2", "flops": dq, "inputs": sorted(c.inputs()), "outputs": sorted(c.outputs())}
        chk.ob("C15.R.dff", f"dff::chain::{order_name}", prob is None, file=FILE, func="bench_to_circuit", line=fr_.node.lineno, fact=prob or {}, expect="two flip-flops, a -> q1 -> q2, whichever line comes first")
    # several registers sampling one net (a shadow register, a pipeline fork): each line is a flip-flop of its own
    text = "INPUT(a)\nINPUT(b)\nOUTPUT(o)\nd = AND(a, b)\nq1 = DFF(d)\nq2 = dff( d )\nq3 = DFF(d)\no = XOR(q1, q2, q3)\n"
    r = P.call(FILE, "bench_to_circuit", text, "s")
    n += 1
    prob = None
    if r[0] != "return":
        prob = {"problem": "reader raises", "result": str(r)[:160]}
    else:
        c = r[1]
        dq = sorted((sorted(c.fanin(f"{i}.{list(bb.inputs())[0]}")), sorted(c.fanout(f"{i}.{list(bb.outputs())[0]}"))) for i, bb in c.blackboxes.items())
        if dq != [(["d"], ["q1"]), (["d"], ["q2"]), (["d"], ["q3"])] or c.inputs() != {"a", "b"} or c.outputs() != {"o"}:
            prob = {"problem": "not three flops d -> q1, d -> q2, d -> q3", "flops": dq, "inputs": sorted(c.inputs())}
    chk.ob("C15.R.dff", "dff::three flops sampling one net", prob is None, file=FILE, func="bench_to_circuit", line=fr_.node.lineno, fact=prob or {}, expect="one flip-flop per DFF line")
    text = "INPUT(x)\nOUTPUT(q)\nOUTPUT(y)\nq = DFF(d)\nd = XOR(x, q)\ny = AND(x, q)\n"
    r = P.call(FILE, "bench_to_circuit", text, "s")
    n += 1
    ok = r[0] == "return" and r[1].outputs() == {"q", "y"} and r[1].inputs() == {"x"}
    chk.ob("C15.R.dff", "dff::Q net declared OUTPUT", ok, file=FILE, func="bench_to_circuit", line=fr_.node.lineno,
           fact={"outputs": sorted(r[1].outputs()) if r[0] == "return" else str(r)[:100]}, expect="outputs == declared OUTPUT lines, including a flip-flop's Q net")
    text = "OUTPUT(o)\nINPUT(a)\nOUTPUT(n)\no = NOT(n)\nn = BUFF(a)\n"
    r = P.call(FILE, "bench_to_circuit", text, "s")
    n += 1
    ok = r[0] == "return" and r[1].outputs() == {"o", "n"} and r[1].inputs() == {"a"}
    chk.ob("C15.R.reader", "outputs declared before their definition", ok, file=FILE, func="bench_to_circuit", line=fr_.node.lineno,
           fact={"outputs": sorted(r[1].outputs()) if r[0] == "return" else str(r)[:100]}, expect="outputs == declared OUTPUT lines")
    # ---- W / M: writer round trip --------------------------------------------
    for name, c in writer_circuits():
        snap = c._snapshot()
        r = P.call(FILE, "circuit_to_bench", c)
        n += 1
        if r[0] != "return" or not isinstance(r[1], str):
            chk.ob("C15.W.roundtrip", f"write::{name}", False, file=FILE, func="circuit_to_bench", line=fw.node.lineno, fact={"result": str(r)[:160]})
            continue
        text = r[1]
        rep = []
        for line in text.splitlines():
            if "=" in line and "(" in line:
                ops = [x.strip() for x in line.split("(", 1)[1].rsplit(")", 1)[0].split(",")]
                if len(ops) != len(set(ops)):
                    rep.append(line.strip())
        chk.ob("C15.M.operand-multiplicity", f"write::{name}", not rep, file=FILE, func="circuit_to_bench", line=fw.node.lineno, fact={"lines_with_repeated_operand": rep[:3]},
               expect="no gate line repeats an operand (fan-in is a set: the reader collapses it)")
        r2 = P.call(FILE, "bench_to_circuit", text, c.name)
        if r2[0] != "return":
            prob = {"problem": "reader rejects the written text", "result": str(r2)[:160]}
        else:
            prob = same_io_function(c, r2[1])
            if prob is None and c._snapshot() != snap:
                prob = {"problem": "argument modified"}
        chk.ob("C15.W.roundtrip", f"write::{name}", prob is None, file=FILE, func="circuit_to_bench", line=fw.node.lineno, fact=prob or {"lines": len(text.splitlines())}, expect="same inputs, outputs and output functions after reading back")
    from ..stale import circuit_snapshot, stale_state_rule
    from ..minieval import ModelRaise as _MR

    def _mk_call(file_, fname_, *extra):
        def _call(c):
            r = P.call(file_, fname_, c, *extra)
            if r[0] != "return":
                raise _MR(r[1], r[2] if len(r) > 2 else "")
            return r[1]
        return _call

    stale_state_rule(chk, "C15.H.no-stale-state", _mk_call(FILE, "circuit_to_bench"), str, FILE, "circuit_to_bench")
    # a rejected text must not influence the next read
    rb = P.call(FILE, "bench_to_circuit", "INPUT(a)\nOUTPUT(o)\no = AND(a, a2)\na2 = DFF(o)\nx = NOT(", "bad")
    rg = P.call(FILE, "bench_to_circuit", "INPUT(a)\nINPUT(b)\nOUTPUT(o)\no = NOR(a, b)\n", "good")
    ok = rg[0] == "return" and rg[1].inputs() == {"a", "b"} and rg[1].outputs() == {"o"} and set(rg[1].nodes()) == {"a", "b", "o"} and not rg[1].blackboxes
    # the same text read twice gives two independent circuits: editing the first does not show in the second
    txt = "INPUT(a)\nINPUT(b)\nOUTPUT(o)\nn1 = NAND(a, b)\no = NOT(n1)\n"
    r1 = P.call(FILE, "bench_to_circuit", txt, "twice")
    prob2 = None
    if r1[0] != "return":
        prob2 = {"problem": "reader rejects the text", "result": str(r1)[:100]}
    else:
        want = r1[1]._snapshot()
        r1[1].set_output("n1", True)
        r1[1].set_type("o", "buf")
        r1[1].remove("a")
        r2 = P.call(FILE, "bench_to_circuit", txt, "twice")
        if r2[0] != "return" or r2[1] is r1[1] or r2[1]._snapshot() != want:
            prob2 = {"problem": "the second read of the same text is not a fresh, unedited circuit", "same_object": r2[0] == "return" and r2[1] is r1[1], "nodes": sorted(r2[1].nodes()) if r2[0] == "return" else str(r2)[:80]}
    chk.ob("C15.H.no-state-between-reads", "bench_to_circuit::same text read twice, first result edited", prob2 is None, file=FILE, func="bench_to_circuit", fact=prob2 or {}, expect="a fresh circuit denoting the text")
    chk.ob("C15.H.no-state-between-reads", "bench_to_circuit::second read after another text", ok, file=FILE, func="bench_to_circuit", fact={"nodes": sorted(rg[1].nodes()) if rg[0] == "return" else str(rg)[:100]}, expect="only the nets of the second text")
    bb = RefBlackBox("ff", ["d"], ["q"])
    cbb = build({"a": ("input", []), "u.d": ("bb_input", ["a"]), "u.q": ("bb_output", []), "w": ("buf", ["u.q"])}, outputs=["w"], blackboxes={"u": bb})
    r = P.call(FILE, "circuit_to_bench", cbb)
    chk.ob("C15.W.rejects", "write::blackboxes rejected", r[0] == "raise" and r[1] == "ValueError", file=FILE, func="circuit_to_bench", fact={"result": str(r)[:100]}, expect="ValueError")
    cx = build({"a": ("input", []), "u": ("x", []), "g": ("or", ["a", "u"])}, outputs=["g"])
    r = P.call(FILE, "circuit_to_bench", cx)
    chk.ob("C15.W.rejects", "write::x constant rejected", r[0] == "raise" and r[1] == "ValueError", file=FILE, func="circuit_to_bench", fact={"result": str(r)[:100]}, expect="ValueError")
    chk.floor("bench evaluations", n, 70)
