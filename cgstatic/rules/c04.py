"""
C04 - miter output is 1 exactly when the compared circuits differ.

Decided (tx.miter evaluated by cgstatic's evaluator over the reference Circuit model, on pairs of
model circuits: identical pairs, one-gate-retyped pairs, pairs with different input sets, the
self-miter (c1=None), explicit startpoint / endpoint subsets):
  I   the miter's inputs are exactly the tied startpoints; its only output is `sat`
  F   for every valuation of tied startpoints and (independent) untied startpoints of each copy,
      sat == OR over compared endpoints of (value in copy 0 != value in copy 1) - values taken from
      the *original* circuits, so wrong wiring of the copies is caught too
  D   defaults: tied = startpoints of both, compared = endpoints of both (intersection)
  G   a blackbox in either argument is rejected with ValueError; arguments are left unchanged
Not decided: circuits outside the model families; name clashes with `sat`/`dif_*`/`c0_*` (fail loud).
"""
import itertools

from ..core import AnalysisError
from ..minieval import ModelRaise
from ..pkgenv import Package
from ..refmodel import RefBlackBox, RefCircuit, build, free_nodes, simulate
from ..semantic import guarded, GATES2, assignments, deep_circuits, two_level_circuits

FILE = "tx.py"


def retyped(c, node, t):
    d = c.copy()
    d.graph._node[node]["type"] = t
    return d


@guarded
def check_miter(m, c0, c1, tied, compared):
    """-> None or counterexample dict"""
    if m.inputs() != set(tied):
        return {"problem": "miter inputs differ from the tied startpoints", "inputs": sorted(m.inputs()), "tied": sorted(tied)}
    if m.outputs() != {"sat"}:
        return {"problem": "miter outputs differ from {'sat'}", "outputs": sorted(m.outputs())}
    sp0 = sorted(free_nodes(c0))
    sp1 = sorted(free_nodes(c1))
    u0 = [n for n in sp0 if n not in tied]
    u1 = [n for n in sp1 if n not in tied]
    mfree = set(free_nodes(m))
    want_free = set(tied) | {f"c0_{n}" for n in u0} | {f"c1_{n}" for n in u1}
    if mfree != want_free:
        return {"problem": "free signals of the miter differ from tied + untied startpoints of each copy", "free": sorted(mfree), "expected": sorted(want_free)}
    for a in assignments(sorted(tied)):
        for b0 in assignments(u0):
            for b1 in assignments(u1):
                v0 = simulate(c0, {**{n: a[n] for n in tied if n in c0}, **b0})
                v1 = simulate(c1, {**{n: a[n] for n in tied if n in c1}, **b1})
                want = any(v0[e] != v1[e] for e in compared)
                ma = dict(a)
                ma.update({f"c0_{n}": x for n, x in b0.items()})
                ma.update({f"c1_{n}": x for n, x in b1.items()})
                vm = simulate(m, ma)
                if vm["sat"] != want:
                    return {"problem": "sat differs from 'some compared endpoint differs'", "tied": a, "untied0": b0, "untied1": b1, "sat": vm["sat"], "expected": want,
                            "endpoint_values": {e: (v0[e], v1[e]) for e in compared}}
    return None


def run(chk):
    repo = chk.repo
    chk.explanation = ("tx.miter evaluated by the checker's evaluator over the reference Circuit model on pairs of model circuits; the resulting model netlist is simulated exhaustively "
                       "against the definition 'sat = some compared endpoint differs', with values taken from the original circuits.")
    chk.assume("reference Circuit model implements add/add_subcircuit/startpoints/endpoints as documented (add_subcircuit itself is checked under C06)")
    from ..structural import miter_template_rule

    miter_template_rule(chk, repo, "C04.S.template")
    P = Package(repo)
    fi = repo.func(FILE, "miter")
    from ..corpus import corpus

    bases = list(two_level_circuits(limit=40 if chk.tier == "quick" else None)) + list(deep_circuits()) + [(f"corpus::{k}", c) for k, tags, c in corpus(chk.tier, exclude=("x",))]
    n = 0
    for kname, c in bases:
        variants = [("same", c.copy())]
        gates = [g for g in sorted(c.nodes()) if c.type(g) in GATES2]
        if gates:
            g = gates[-1]
            t = c.type(g)
            other = {"and": "nand", "nand": "or", "or": "xor", "nor": "and", "xor": "xnor", "xnor": "nor"}[t]
            variants.append((f"{g}:{t}->{other}", retyped(c, g, other)))
        variants.append(("self", None))
        for vname, c1 in variants:
            snap0 = c._snapshot()
            snap1 = c1._snapshot() if c1 is not None else None
            r = P.call(FILE, "miter", c, c1)
            n += 1
            key = f"miter::{kname}::{vname}"
            if r[0] == "raise" and r[1] == "ValueError" and "::name::" in kname:
                continue  # clash with sat / dif_* / c0_* style names: rejected loudly
            if r[0] != "return" or not isinstance(r[1], RefCircuit):
                chk.ob("C04.F.sat-iff-differ", key, False, file=FILE, func="miter", line=fi.node.lineno, fact={"result": str(r)[:200]})
                continue
            cc1 = c1 if c1 is not None else c
            tied = c.startpoints() & cc1.startpoints()
            comp = c.endpoints() & cc1.endpoints()
            prob = check_miter(r[1], c, cc1, tied, comp)
            if prob is None and (c._snapshot() != snap0 or (c1 is not None and c1._snapshot() != snap1)):
                prob = {"problem": "argument modified"}
            chk.ob("C04.F.sat-iff-differ", key, prob is None, file=FILE, func="miter", line=fi.node.lineno, fact=prob or {"tied": sorted(tied), "compared": sorted(comp)},
                   expect="sat == (some compared endpoint differs) for every valuation; inputs == tied startpoints; single output sat")
    # different input sets / explicit subsets
    cA = build({"a": ("input", []), "b": ("input", []), "c": ("input", []), "g": ("and", ["a", "b"]), "h": ("xor", ["g", "c"]), "k": ("or", ["a", "c"])}, outputs=["h", "k"])
    cB = build({"a": ("input", []), "b": ("input", []), "d": ("input", []), "g": ("nand", ["a", "b"]), "h": ("xnor", ["g", "d"]), "k": ("or", ["a", "d"]), "z": ("not", ["a"])}, outputs=["h", "k", "z"])
    cases = [
        ("different-io::defaults", cA, cB, None, None),
        ("different-io::swapped", cB, cA, None, None),
        ("explicit-startpoints::a-only", cA, cB, {"a"}, None),
        ("explicit-endpoints::k-only", cA, cB, None, {"k"}),
        ("explicit-both", cA, cA.copy(), {"a", "c"}, {"h"}),
        ("single-endpoint", cA, retyped(cA, "g", "or"), None, {"h"}),
    ]
    # a single compared endpoint that is itself a tied startpoint (feed-through), and circuits whose only output is an input
    cF = build({"a": ("input", []), "b": ("input", []), "g": ("and", ["a", "b"])}, outputs=["a", "g"])
    cases.append(("feed-through::single endpoint is a tied input", cF, cF.copy(), None, {"a"}))
    cG = build({"a": ("input", []), "b": ("input", [])}, outputs=["a"])
    cases.append(("feed-through::only output is an input", cG, cG.copy(), None, None))
    cases.append(("feed-through::explicit endpoints a,g", cF, retyped(cF, "g", "nand"), None, {"a", "g"}))
    # a feed-through endpoint (an input marked as output) whose two copies can differ: nothing tied, default endpoints; and one
    # that is an input in one circuit and a gate of that name in the other
    cases.append(("feed-through::default endpoints, nothing tied", cF, cF.copy(), set(), None))
    cases.append(("feed-through::default endpoints, nothing tied, self-miter", cF, None, set(), None))
    cF2 = build({"b": ("input", []), "c": ("input", []), "a": ("or", ["b", "c"]), "g": ("and", ["a", "b"])}, outputs=["a", "g"])
    cases.append(("feed-through::an input of one circuit is a gate of the other", cF, cF2, None, None))
    cases.append(("feed-through::an input of one circuit is a gate of the other::swapped", cF2, cF, None, None))
    # untied startpoints with default endpoints: the differing endpoint depends only on tied inputs
    cH = build({"a": ("input", []), "b": ("input", []), "o1": ("not", ["a"]), "o2": ("and", ["a", "b"])}, outputs=["o1", "o2"])
    cI = build({"a": ("input", []), "b": ("input", []), "o1": ("buf", ["a"]), "o2": ("and", ["a", "b"])}, outputs=["o1", "o2"])
    cases.append(("partial-tie::differing endpoint sees only tied inputs", cH, cI, {"a"}, None))
    cJ = build({"a": ("input", []), "c": ("input", []), "o1": ("buf", ["a"]), "o2": ("or", ["a", "c"])}, outputs=["o1", "o2"])
    cases.append(("different-inputs::differing endpoint sees only common inputs", cH, cJ, None, None))
    # many compared endpoints (the comparator results are collected by one gate - or a tree of them): 5 and 9 outputs, the
    # two circuits identical or differing at exactly one output, each output in turn
    gate_cycle = ["and", "or", "xor", "nand", "nor", "xnor"]
    for n_out in (5, 9):
        spec = {"a": ("input", []), "b": ("input", []), "c": ("input", [])}
        for i in range(n_out):
            spec[f"o{i}"] = (gate_cycle[i % 6], [["a", "b"], ["b", "c"], ["a", "b", "c"]][i % 3])
        cM = build(spec, outputs=[f"o{i}" for i in range(n_out)])
        cases.append((f"{n_out}-endpoints::identical", cM, cM.copy(), None, None))
        for j in range(n_out):
            t = cM.type(f"o{j}")
            other = {"and": "nand", "nand": "and", "or": "nor", "nor": "or", "xor": "xnor", "xnor": "xor"}[t]
            cases.append((f"{n_out}-endpoints::only o{j} differs", cM, retyped(cM, f"o{j}", other), None, None))
    # same-named constant cells of different value (not themselves endpoints): the difference they cause must be seen
    cK0 = build({"a": ("input", []), "b": ("input", []), "k": ("0", []), "g": ("or", ["a", "k"]), "o": ("xor", ["g", "b"])}, outputs=["o"])
    cases.append(("same-named tie cell of different value", cK0, retyped(cK0, "k", "1"), None, None))
    cases.append(("same-named tie cell of equal value", cK0, cK0.copy(), None, None))
    # an output of one circuit whose name survives in the other only as an internal net (with another function): not a common endpoint
    cW0 = build({"a": ("input", []), "b": ("input", []), "w": ("and", ["a", "b"]), "o": ("not", ["w"])}, outputs=["o", "w"])
    cW1 = build({"a": ("input", []), "b": ("input", []), "w": ("or", ["a", "b"]), "v": ("and", ["a", "b"]), "o": ("not", ["v"])}, outputs=["o"])
    cases.append(("output of one is an internal net of the other::restructured second", cW0, cW1, None, None))
    cases.append(("output of one is an internal net of the other::restructured first", cW1, cW0, None, None))
    # structurally identical operands with different multiplicities: xor(buf a, buf a, buf b) against xor(buf a, buf b, buf b) -
    # the operand *sets* (up to structure) agree, the functions do not (a structural-hash shortcut keyed on a set of children
    # takes them for equal); the idempotent and / or twins are equivalent and must be found so
    def _mult(gate, left):
        second = "a" if left else "b"
        return build({"a": ("input", []), "b": ("input", []), "p": ("buf", ["a"]), "q": ("buf", [second]), "r": ("buf", ["b"]), "o": (gate, ["p", "q", "r"])}, outputs=["o"])
    for gate in ("xor", "xnor", "and", "or"):
        cases.append((f"identical operands with different multiplicities::{gate}", _mult(gate, True), _mult(gate, False), None, None))
    # the empty choice is a choice: nothing tied (both copies free), nothing compared (sat is constant 0); two circuits without a
    # common endpoint compare nothing by default; an empty second circuit is a circuit, not "no second circuit"
    cases.append(("explicit-empty-startpoints", cA, retyped(cA, "g", "or"), set(), None))
    cases.append(("explicit-empty-startpoints::self-miter", cH, None, set(), None))
    cases.append(("explicit-empty-endpoints", cA, retyped(cA, "g", "or"), None, set()))
    cY = build({"a": ("input", []), "b": ("input", []), "y": ("and", ["a", "b"])}, outputs=["y"])
    cZ = build({"a": ("input", []), "b": ("input", []), "z": ("or", ["a", "b"])}, outputs=["z"])
    cases.append(("no-common-endpoint", cY, cZ, None, None))
    cases.append(("empty-second-circuit", cY, RefCircuit("empty"), None, None))
    # self-miters (c1 omitted) of circuits whose own node names contain the copy prefixes
    cS = build({"c0_n": ("input", []), "c1_n": ("input", []), "xc0_y": ("and", ["c0_n", "c1_n"]), "c1_c0_z": ("xor", ["xc0_y", "c0_n"])}, outputs=["c1_c0_z", "xc0_y"])
    cases.append(("self-miter::names containing c0_ / c1_", cS, None, None, None))
    cases.append(("self-miter::names containing c0_ / c1_::one tied startpoint", cS, None, {"c0_n"}, None))
    cases.append(("self-miter::plain", cH, None, None, None))
    # endpoints that are buffers of one net in the first circuit; the second circuit differs at exactly one of them (each in turn)
    alias_ = {"a": ("input", []), "b": ("input", []), "g": ("and", ["a", "b"]), "w": ("buf", ["g"]), "o0": ("buf", ["g"]), "o1": ("buf", ["g"]), "o2": ("buf", ["w"]), "o3": ("buf", ["w"])}
    cAl = build(alias_, outputs=["o0", "o1", "o2", "o3"])
    for o_ in ("o0", "o1", "o2", "o3"):
        cases.append((f"aliased-endpoints::the second circuit inverts {o_}", cAl, retyped(cAl, o_, "not"), None, None))
    cases.append(("aliased-endpoints::equal", cAl, build(alias_, outputs=["o0", "o1", "o2", "o3"]), None, None))
    # self-miters with only some startpoints tied: a difference fed by an untied startpoint has to reach endpoints many levels away
    # (chains numbered upwards, downwards and by name: whatever order a set of the nodes is walked in, it is not topological for all)
    for style_, namer_ in (("upwards", lambda j_, i_: f"n{j_}_{i_}"), ("downwards", lambda j_, i_: f"n{j_}_{9 - i_}"), ("words", lambda j_, i_: ("alpha", "kilo", "bravo", "zulu", "echo", "mike")[i_] + str(j_))):
        spec_ = {"a": ("input", []), "b": ("input", []), "t": ("input", [])}
        outs_ = []
        for j_ in range(4):
            prev_ = "b"
            for i_ in range(6):
                nm_ = namer_(j_, i_)
                spec_[nm_] = (("xor", "nand", "or", "xnor")[(i_ + j_) % 4], [prev_, "a" if i_ % 2 else "t"])
                prev_ = nm_
            outs_.append(prev_)
        cases.append((f"self-miter::deep chains off an untied startpoint::{style_}", build(spec_, outputs=outs_), None, {"a", "t"}, None))
    from ..pkgenv import FullStackCaller

    FS = FullStackCaller(repo)
    for name, c0, c1, sps, eps, caller in [(*cs, P) for cs in cases] + [(cs[0] + "@full-stack", *cs[1:], FS) for cs in cases]:
        sps0, eps0 = (set(sps) if sps is not None else None), (set(eps) if eps is not None else None)
        r = caller.call(FILE, "miter", c0, c1, sps, eps)
        n += 1
        key = f"miter::{name}"
        if (sps is not None and set(sps) != sps0) or (eps is not None and set(eps) != eps0):
            chk.ob("C04.D.subsets-and-defaults", key, False, file=FILE, func="miter", line=fi.node.lineno, fact={"problem": "the caller's startpoints / endpoints set was modified", "startpoints": [sorted(sps0 or ()), sorted(sps or ())],
                                                                                                                     "endpoints": [sorted(eps0 or ()), sorted(eps or ())]}, expect="the argument sets are left as they were (a second call with the same set compares the same endpoints)")
            sps, eps = sps0, eps0
        if r[0] != "return" or not isinstance(r[1], RefCircuit):
            chk.ob("C04.D.subsets-and-defaults", key, False, file=FILE, func="miter", line=fi.node.lineno, fact={"result": str(r)[:200]})
            continue
        if c1 is None:
            c1 = c0
        tied = set(sps) if sps is not None else c0.startpoints() & c1.startpoints()
        comp = set(eps) if eps is not None else c0.endpoints() & c1.endpoints()
        prob = check_miter(r[1], c0, c1, tied, comp)
        chk.ob("C04.D.subsets-and-defaults", key, prob is None, file=FILE, func="miter", line=fi.node.lineno, fact=prob or {"tied": sorted(tied), "compared": sorted(comp)},
               expect="tied = given or common startpoints; compared = given or common endpoints")
    # circuits that were queried, then edited in place through the public API, then compared: the defaults are those of the circuit
    # as it is now (a remembered startpoint / endpoint set that an in-place edit does not invalidate shows here)
    from ..pkgenv import to_full, to_ref

    used_edits = (("an output renamed in place", lambda c_: c_.relabel({"k": "kk"})), ("an input renamed in place", lambda c_: c_.relabel({"c": "cc"})),
                  ("the output mark moved", lambda c_: (c_.set_output("k", False), c_.set_output("g"))), ("an input re-typed to a gate", lambda c_: (c_.set_type("c", "not"), c_.connect("a", "c"))))
    for label, edit in used_edits:
        ref1 = cA.copy()
        key = f"miter::queried, then edited in place::{label}@full-stack"
        n += 1
        try:
            full0, full1 = to_full(FS.P, cA), to_full(FS.P, cA)
            for q_ in ("startpoints", "endpoints", "inputs", "outputs", "io"):
                getattr(full1, q_)()
            edit(ref1)
            edit(full1)
        except ModelRaise as e_:
            chk.ob("C04.D.subsets-and-defaults", key, False, file=FILE, func="miter", line=fi.node.lineno, fact={"problem": f"the scenario cannot be built through the public API: {e_}"})
            continue
        r = FS.P.call(FILE, "miter", full0, full1)
        if r[0] != "return":
            chk.ob("C04.D.subsets-and-defaults", key, False, file=FILE, func="miter", line=fi.node.lineno, fact={"result": str(r)[:200]})
            continue
        tied = cA.startpoints() & ref1.startpoints()
        comp = cA.endpoints() & ref1.endpoints()
        prob = check_miter(to_ref(r[1]), cA, ref1, tied, comp)
        chk.ob("C04.D.subsets-and-defaults", key, prob is None, file=FILE, func="miter", line=fi.node.lineno, fact=prob or {"tied": sorted(tied), "compared": sorted(comp)},
               expect="tied = the common startpoints, compared = the common endpoints of the circuits as they are when miter is called")
    # ---- N: node names that collide with the miter's own naming (sat, dif_<endpoint>, c0_<node> / c1_<node>) ----------------
    # the miter of a lint-clean circuit must exist whatever its nodes are called; the function fails loudly (ValueError) on these
    def _nm(names, out="y"):
        return build({**{x: ("input", []) for x in names}, out: ("and", list(names))}, outputs=[out])
    for what, cN in (("tied startpoint named sat", _nm(("sat", "b"))), ("tied startpoint named dif_<endpoint>", _nm(("dif_y", "b"))), ("startpoint named c0_<other startpoint>", _nm(("a", "c0_a")))):
        r = P.call(FILE, "miter", cN)
        n += 1
        prob = None
        if r[0] != "return" or not isinstance(r[1], RefCircuit):
            prob = {"result": str(r)[:160]}
        chk.ob("C04.N.names", f"miter::self-miter::{what}", prob is None, file=FILE, func="miter", line=fi.node.lineno, fact=prob or {}, expect="a miter (the copies and helper nodes are named apart whatever the node names are)")
    # blackbox guards
    bb = RefBlackBox("ff", ["d"], ["q"])
    cbb = build({"a": ("input", []), "u.d": ("bb_input", ["a"]), "u.q": ("bb_output", []), "w": ("buf", ["u.q"])}, outputs=["w"], blackboxes={"u": bb})
    for name, args in (("first", (cbb, cA)), ("second", (cA, cbb)), ("self", (cbb, None))):
        r = P.call(FILE, "miter", *args)
        n += 1
        chk.ob("C04.G.blackbox-guard", f"miter::blackbox in {name} argument", r[0] == "raise" and r[1] == "ValueError", file=FILE, func="miter", line=fi.node.lineno, fact={"result": str(r)[:120]}, expect="ValueError")
    from ..stale import circuit_snapshot, stale_state_rule

    def _call(c):
        r = P.call(FILE, "miter", c)
        if r[0] != "return":
            raise ModelRaise(r[1], r[2] if len(r) > 2 else "")
        return r[1]

    stale_state_rule(chk, "C04.H.no-stale-state", _call, circuit_snapshot, FILE, "miter")
    chk.floor("miter evaluations", n, 100)
