"""
C18 - acyclic_unroll removes cycles and preserves stable states.

Decided:
  P   (syntactic, must-pass-through) every path of tx.acyclic_unroll to its `return` passes the
      lint call and the `is_cyclic() -> raise` guard on the returned circuit; the blackbox guard
      raises before anything is built
  S   (template evaluation over the reference Circuit model, on model cyclic circuits: SR latch,
      gated rings, two interlocked loops, a loop with an output that is an input) the result is
      acyclic, lint-clean (lint evaluated from utils.py on the model), has the same outputs, its
      inputs are the original inputs plus auxiliary inputs that map injectively to nodes of the
      original circuit, and for every input valuation and every stable state, setting each auxiliary
      input to the stable value of its feedback node makes every output equal to its stable value
Not decided: that |feedback|+1 copies suffice for circuits outside the families; heuristic quality.
"""
import ast
import itertools

from ..astutil import body_without_doc, dotted, walk_no_nested
from ..core import AnalysisError, norm
from ..gates import bool_gate
from ..minieval import ModelRaise
from ..pkgenv import Package
from ..refmodel import RefBlackBox, RefCircuit, build, free_nodes, simulate
from ..semantic import assignments, guarded

FILE = "tx.py"


def cyclic_models():
    yield "sr-latch", build({"s": ("input", []), "r": ("input", []), "q": ("nor", ["r", "qn"]), "qn": ("nor", ["s", "q"])}, outputs=["q", "qn"])
    yield "gated-ring", build({"en": ("input", []), "a": ("and", ["en", "c"]), "b": ("buf", ["a"]), "c": ("or", ["b", "d"]), "d": ("input", [])}, outputs=["c"])
    yield "two-loops", build({"x": ("input", []), "y": ("input", []), "p": ("and", ["x", "q"]), "q": ("or", ["p", "r"]), "r": ("and", ["y", "s"]), "s": ("or", ["r", "p"]), "o": ("xor", ["q", "s"])}, outputs=["o", "q"])
    yield "loop-through-output-and-input-output", build({"i": ("input", []), "m": ("nand", ["i", "n"]), "n": ("nand", ["m", "i"]), "o": ("not", ["n"])}, outputs=["o", "i", "m"])
    yield "xor-loop-with-const", build({"a": ("input", []), "one": ("1", []), "u": ("and", ["a", "v", "one"]), "v": ("or", ["u", "w"]), "w": ("and", ["a", "u"])}, outputs=["v"])
    yield "unobserved-input-and-dead-latch", build({"a": ("input", []), "d": ("input", []), "en": ("input", []), "p": ("nand", ["a", "q"]), "q": ("nand", ["p", "a"]), "o": ("buf", ["q"]),
                                                    "m1": ("nor", ["d", "m2"]), "m2": ("nor", ["en", "m1"])}, outputs=["o"])
    yield "nested-loops-sharing-a-node", ordered(["a", "g1", "g2", "g3", "g4"], {"a": "input", "g1": "and", "g2": "or", "g3": "buf", "g4": "xnor"},
                                                 [("a", "g1"), ("g3", "g1"), ("g1", "g2"), ("g4", "g2"), ("g2", "g3"), ("g2", "g4"), ("a", "g4")], ["g3"])
    yield "one-scc-overlapping-cycles", ordered(["n2", "n5", "n3", "n4", "n0", "n7", "n6", "n1"],
                                                {"n2": "and", "n5": "input", "n3": "buf", "n4": "not", "n0": "buf", "n7": "or", "n6": "input", "n1": "nor"},
                                                [("n2", "n4"), ("n3", "n2"), ("n3", "n1"), ("n4", "n7"), ("n4", "n1"), ("n0", "n7"), ("n0", "n2"), ("n7", "n3"), ("n7", "n1"), ("n6", "n7"), ("n1", "n0")], ["n1", "n4"])
    for t1, t2 in (("or", "or"), ("and", "or"), ("nand", "nor")):
        yield f"two-loops-through-one-node-{t1}-{t2}", ordered(["a", "b", "e", "v1", "v2", "u", "w"], {"a": "input", "b": "input", "e": "input", "v1": t1, "v2": t2, "u": "and", "w": "xor"},
                                                             [("v1", "u"), ("v2", "u"), ("e", "u"), ("a", "v1"), ("u", "v1"), ("b", "v2"), ("u", "v2"), ("v1", "w"), ("v2", "w")], ["u", "w"])
    base2 = {"x": ("input", []), "y": ("input", []), "p": ("and", ["x", "q"]), "q": ("or", ["p", "r"]), "r": ("and", ["y", "s"]), "s": ("or", ["r", "p"]), "o": ("xor", ["q", "s"])}
    pools = [["n%d" % i for i in range(7)], list("pqrstuv"), ["k%d_" % (i * 7) for i in range(7)], ["zz", "a1", "m", "b7", "c", "q9", "e"]]
    for pi, pool in enumerate(pools):
        for rot in (0, 3, 5):
            names = pool[rot:] + pool[:rot]
            ren = dict(zip(base2, names))
            yield f"two-loops::naming{pi}.{rot}", build({ren[n]: (t, [ren[f] for f in fi]) for n, (t, fi) in base2.items()}, outputs=[ren["o"], ren["q"]])
    # several independent loops (several cut nodes): which auxiliary input belongs to which feedback node must not
    # depend on set order - explored through namings
    for ni, tag in enumerate(["", "x", "_k", "q9", "zz", "m0", "w_", "b7"]):
        spec = {}
        outs = []
        for j in range(3):
            s_, r_, q_, qb_ = f"s{tag}{j}", f"r{tag}{j}", f"q{tag}{j}", f"qb{tag}{j}"
            spec[s_] = ("input", [])
            spec[r_] = ("input", [])
            spec[q_] = ("nor", [r_, qb_])
            spec[qb_] = ("nor", [s_, q_])
            outs.append(q_)
        yield f"three-latches::naming{ni}", build(spec, outputs=outs)
    # two independent loops, each closed through an inverting single-input node (and the 1-input forms of nand / nor / xnor)
    for t1, t2 in (("not", "not"), ("nand", "nor"), ("xnor", "not"), ("not", "buf")):
        yield f"two-independent-inverter-loops::{t1}-{t2}", build({"a": ("input", []), "b": ("input", []), "g1": ("nand", ["a", "n1"]), "n1": (t1, ["g1"]), "g2": ("nor", ["b", "n2"]), "n2": (t2, ["g2"]),
                                                                    "o": ("xor", ["g1", "g2"])}, outputs=["o", "n1", "g2"])
    yield "loop-read-through-a-net-and-its-buffer", build({"s": ("input", []), "r": ("input", []), "q": ("nor", ["r", "qn"]), "qn": ("nor", ["s", "q"]), "bq": ("buf", ["q"]), "x": ("xor", ["q", "bq"]),
                                                           "y": ("xnor", ["qn", "bq", "q"]), "o": ("or", ["x", "y"])}, outputs=["o", "x", "bq"])
    yield "loop-with-constants-beside-it", build({"a": ("input", []), "one": ("1", []), "zero": ("0", []), "g": ("nand", ["a", "h", "one"]), "h": ("or", ["g", "zero"]), "k": ("and", ["one", "a"]),
                                                  "o": ("xor", ["h", "k"])}, outputs=["o", "one"])
    yield "hold-loops", build({"en": ("input", []), "d": ("input", []), "m": ("or", ["m_hold", "d"]), "m_hold": ("and", ["en", "m"]), "n": ("and", ["n_hold", "d"]), "n_hold": ("or", ["en", "n"])}, outputs=["m", "n"])
    # inputs whose names begin like the copies the transform makes (`c1_...`; tx.miter produces such names) without clashing with one
    yield "input-named-like-a-copy-prefix", build({"a": ("input", []), "c1_en": ("input", []), "c0x": ("input", []), "q": ("nand", ["a", "qn"]), "qn": ("nand", ["q", "c1_en", "c0x"])}, outputs=["q"])
    yield "acyclic-control", build({"a": ("input", []), "b": ("input", []), "g": ("nand", ["a", "b"]), "h": ("nor", ["g", "a"])}, outputs=["h"])


def topology_family(tier):
    """Every cyclic wiring of k gates (k = 3; a 1:5 (quick) / 1:2 (thorough) sample of k = 4), no self-loops, under several
    type vectors; every multi-input gate also reads an input of its own, single-input gates (`not`, `buf`) read one gate
    (or their own input when no gate drives them).  The feedback-set heuristic sees every small loop structure this way:
    nested loops, loops sharing nodes, independent loops, sinks and sources hanging off loops."""
    vectors = {3: [("or", "and", "or"), ("nand", "nor", "nand"), ("not", "nand", "buf"), ("nor", "not", "xor")],
               4: [("and", "or", "and", "or"), ("not", "nand", "not", "nor"), ("nand", "buf", "nor", "not")]}
    for k in (3, 4):
        pairs = [(i, j) for i in range(k) for j in range(k) if i != j]
        step = 1 if k == 3 else (5 if tier == "quick" else 2)
        for mask in range(1, 1 << len(pairs), step):
            edges = [pairs[b] for b in range(len(pairs)) if mask >> b & 1]
            # cyclic?
            succ = {i: [j for (x, j) in edges if x == i] for i in range(k)}
            def reach(a, b, seen=None):
                seen = seen or set()
                for y in succ[a]:
                    if y == b or (y not in seen and not seen.add(y) and reach(y, b, seen)):
                        return True
                return False
            if not any(reach(i, i) for i in range(k)):
                continue
            if k == 4 and len(edges) > 6:
                continue
            for vi, vec in enumerate(vectors[k]):
                if k == 4 and (mask // step + vi) % 3:
                    continue  # one type vector per sampled 4-node wiring, rotating
                spec = {}
                outs = []
                for i in range(k):
                    t = vec[i]
                    preds = [f"g{x}" for (x, j) in edges if j == i]
                    if t in ("not", "buf"):
                        fi = preds[:1] or [f"i{i}"]
                    else:
                        fi = preds + [f"i{i}"]
                    for f in fi:
                        if f.startswith("i"):
                            spec[f] = ("input", [])
                    spec[f"g{i}"] = (t, fi)
                    outs.append(f"g{i}")
                c = build(spec, outputs=outs)
                if not c.is_cyclic():
                    continue  # the single-input gates dropped the loop
                yield f"topology::k{k}::edges{mask:x}::{'-'.join(vec)}", c


def dense_family(tier):
    """Dense overlapping cycles: 6 monotone gates (stable states always exist), 11-14 edges chosen by a deterministic linear
    congruential generator, one input feeding a gate - where the feedback-edge heuristic has many backward edges to sort out."""
    state = [987654321]

    def rnd(n):
        state[0] = (state[0] * 1103515245 + 12345) & 0x7FFFFFFF
        return (state[0] >> 8) % n

    # six gates with overlapping cycles g5->g1->g0->g5, g1->g3->g6->g1, ... (the counterexample of seeded change C18_i, kept as a
    # regression model: one cycle there holds two backward edges of the heuristic's ordering)
    ov_edges = [("g0", "g3"), ("g0", "g4"), ("g0", "g5"), ("g1", "g0"), ("g1", "g3"), ("g3", "g6"), ("g4", "g6"), ("g5", "g1"), ("g5", "g3"), ("g5", "g4"), ("g5", "g6"), ("g6", "g1"), ("a", "g5")]
    ov_names = ["g0", "g1", "g3", "g4", "g5", "g6"]
    for oi, order in enumerate((["a"] + ov_names, ov_names[::-1] + ["a"], ["g5", "a", "g1", "g6", "g0", "g3", "g4"])):
        yield f"dense::overlapping-cycles::order{oi}", ordered(order, {**{n: "or" for n in ov_names}, "a": "input"}, ov_edges if oi != 1 else ov_edges[::-1], ["g6", "g3"])
    count = 60 if tier == "quick" else 600
    made = 0
    while made < count:
        k = 6
        names = [f"g{i}" for i in range(k)]
        pairs = [(u, v) for u in names for v in names if u != v]
        want = 11 + rnd(4)
        edges = []
        while len(edges) < want:
            e = pairs[rnd(len(pairs))]
            if e not in edges:
                edges.append(e)
        types = {n: ("or" if rnd(2) else "and") for n in names}
        types["a"] = "input"
        edges.append(("a", names[rnd(k)]))
        # every gate needs a fan-in
        for n in names:
            if not any(v == n for u, v in edges):
                edges.append(("a", n))
        c = ordered(["a"] + names, types, edges, [names[rnd(k)], names[rnd(k)]])
        if c.is_cyclic():
            made += 1
            yield f"dense::{made}", c


def ordered(order, types, edges, outputs):
    """Model circuit with a prescribed node / edge insertion order (the feedback-set heuristic depends on it)."""
    c = RefCircuit(name="m")
    for n in order:
        c.graph.add_node(n, type=types[n], output=n in outputs)
    for u, v in edges:
        c.graph.add_edge(u, v)
    return c


def stable_states(c):
    ins = sorted(c.inputs())
    others = sorted(n for n in c.nodes() if n not in ins)
    out = []
    for a in assignments(ins):
        for b in assignments(others):
            v = dict(a)
            v.update(b)
            ok = True
            for n in others:
                t = c.type(n)
                if t in ("0", "1"):
                    want = t == "1"
                else:
                    want = bool_gate(t, [v[p] for p in c.graph._pred[n]])
                if v[n] != want:
                    ok = False
                    break
            if ok:
                out.append(v)
    return out


@guarded
def check_acyclic(P, c, acyc):
    if not isinstance(acyc, RefCircuit):
        return {"problem": "acyclic_unroll() does not return a Circuit"}
    if acyc.is_cyclic():
        return {"problem": "result is cyclic"}
    r = P.call("utils.py", "lint", acyc)
    if r[0] != "return":
        return {"problem": "result is not lint-clean", "lint": str(r)[:160]}
    if acyc.outputs() != c.outputs():
        return {"problem": "outputs differ", "outputs": sorted(acyc.outputs()), "expected": sorted(c.outputs())}
    if not (c.inputs() <= acyc.inputs()):
        return {"problem": "an original input is missing", "inputs": sorted(acyc.inputs())}
    if set(free_nodes(acyc)) != acyc.inputs():
        return {"problem": "result has undriven gates", "free": sorted(free_nodes(acyc))}
    aux = sorted(acyc.inputs() - c.inputs())
    # an auxiliary input stands for the value of a node ON A LOOP (that is where the circuit was cut); a constant, an input or a
    # gate outside every loop needs none
    on_loop = {n for n in c.nodes() if any(n == s_ or n in c.graph.descendants(s_) for s_ in c.graph._succ[n])}
    cands = {}
    for a in aux:
        named = [f for f in c.nodes() if a == f or a.endswith("_" + f)]
        best = sorted(named, key=len, reverse=True)[:1]
        if best and best[0] not in on_loop:
            return {"problem": "an auxiliary input was introduced for a node that lies on no loop", "auxiliary_input": a, "node": best[0], "type": c.type(best[0])}
        cands[a] = best or sorted(on_loop)
    states = stable_states(c)
    for choice in itertools.product(*[cands[a] for a in aux]):
        if len(set(choice)) != len(choice):
            continue
        good = True
        witness = None
        for st in states:
            a = {i: st[i] for i in c.inputs()}
            a.update({x: st[f] for x, f in zip(aux, choice)})
            v = simulate(acyc, a)
            for o in c.outputs():
                if v[o] != st[o]:
                    good = False
                    witness = {"stable_state": {k: int(x) for k, x in st.items()}, "output": o, "value": v[o], "expected": st[o], "aux_map": dict(zip(aux, choice))}
                    break
            if not good:
                break
        if good:
            return None
    return {"problem": "no injective assignment of auxiliary inputs to feedback nodes preserves all stable states", "aux_inputs": aux, "counterexample": witness, "stable_states": len(states)}


def run(chk):
    repo = chk.repo
    chk.explanation = ("Must-pass-through rule on acyclic_unroll's exits (lint + cyclic guard dominate the return) and template evaluation over the reference Circuit model on model cyclic "
                       "circuits: acyclic, lint-clean, same outputs, inputs = original + auxiliary, all stable states preserved (exhaustive enumeration of stable states).")
    chk.assume("reference Circuit model; utils.lint is evaluated from source on the model result (its own rules are decided by C20)")
    fi = repo.func(FILE, "acyclic_unroll")
    body = body_without_doc(fi.node)
    # ---- P: must-pass-through ------------------------------------------
    rets = [st for st in body if isinstance(st, ast.Return)]
    inner_rets = [n for st in body if not isinstance(st, ast.FunctionDef) for n in walk_no_nested(st) if isinstance(n, ast.Return) and n not in rets]
    if not rets:
        raise AnalysisError("acyclic_unroll: no top-level return", FILE, fi.node.lineno)
    ret = rets[-1]
    ret_name = norm(ret.value)
    idx = body.index(ret)
    lint_idx = cyc_idx = None
    for i, st in enumerate(body[:idx]):
        if isinstance(st, ast.Expr) and isinstance(st.value, ast.Call) and (dotted(st.value.func) or "").split(".")[-1] == "lint" and st.value.args and norm(st.value.args[0]) == ret_name:
            kws = {k.arg: norm(k.value) for k in st.value.keywords}
            if kws.get("undriven", "True") == "True":
                lint_idx = i
        if isinstance(st, ast.If) and norm(st.test) in (f"{ret_name}.is_cyclic()",) and st.body and isinstance(st.body[-1], ast.Raise) and not st.orelse:
            cyc_idx = i
    def helper_guard(call):
        """`_require(<condition>, <message>)`: a call to a function of the module (or a nested one) whose body raises under a test of
        its first parameter - the guard idiom behind a helper."""
        if not isinstance(call, ast.Call) or not isinstance(call.func, ast.Name) or not call.args:
            return False
        cands = [f_.node for (rel_, q_), f_ in repo.funcs.items() if rel_ == FILE and q_.split(".")[-1] == call.func.id]
        for d in cands:
            ps = [a.arg for a in d.args.posonlyargs + d.args.args]
            if ps and any(isinstance(x, ast.If) and ps[0] in norm(x.test) and any(isinstance(y, ast.Raise) for y in ast.walk(x)) for x in ast.walk(d)):
                return True
        return False

    # the guard idiom also behind a helper: `_require(not <result>.is_cyclic(), ...)`
    for i, st in enumerate(body[:idx]):
        if cyc_idx is None and isinstance(st, ast.Expr) and helper_guard(st.value) and f"{ret_name}.is_cyclic()" in norm(st.value.args[0]):
            cyc_idx = i
    mutated_after = False
    for st in body[min([x for x in (lint_idx, cyc_idx) if x is not None] or [idx]):idx]:
        for n in walk_no_nested(st):
            if isinstance(n, ast.Call) and isinstance(n.func, ast.Attribute) and norm(n.func.value) == ret_name and n.func.attr in ("add", "connect", "set_type", "add_subcircuit", "remove", "disconnect", "relabel", "set_output"):
                mutated_after = True
    text = norm(fi.node)
    # These are shape rules: they fire on the recognisably wrong construct (the check is gone, or the result is edited after it) and
    # abstain - with a note - on a shape they cannot read (early returns, a check routed through other code); that the result is
    # acyclic and lint-clean on the model circuits is decided by C18.S on values.
    lint_mentioned = any(isinstance(n, ast.Call) and (dotted(n.func) or "").split(".")[-1] == "lint" for n in ast.walk(fi.node))
    lint_ok = lint_idx is not None and not mutated_after
    # recognisably wrong: lint(<returned name>) as a top-level statement with its undriven rule switched off; the returned name
    # handed back by an earlier top-level `if ...: return <name>` that lies before the lint statement
    weakened = any(isinstance(st, ast.Expr) and isinstance(st.value, ast.Call) and (dotted(st.value.func) or "").split(".")[-1] == "lint" and st.value.args and norm(st.value.args[0]) == ret_name
                   and {k.arg: norm(k.value) for k in st.value.keywords}.get("undriven", "True") != "True" for st in body[:idx])
    early = any(isinstance(n, ast.Return) and n.value is not None and norm(n.value) == ret_name for st in body[:lint_idx if lint_idx is not None else idx] if not isinstance(st, ast.FunctionDef) for n in walk_no_nested(st))
    if weakened or early:
        lint_ok = False
    # the function hands its work to other code and returns what that gives (`return _Unroller(c).build()`): there is no named result in
    # this body for the rules to speak about
    delegated = isinstance(ret.value, ast.Call) and not any(isinstance(n, ast.Call) and (dotted(n.func) or "").split(".")[-1] in ("Circuit", "copy") for st in body[:idx] for n in walk_no_nested(st))
    if delegated and not lint_ok and not weakened and not early:
        chk.note("acyclic_unroll returns the result of a call to other code of the package: the must-pass-through rules C18.P.* abstain (C18.S decides on values)")
        lint_ok = True
    if lint_mentioned and not lint_ok and not mutated_after and not weakened and not early:
        chk.note("acyclic_unroll: lint is called in a shape the must-pass-through rule does not read (not `lint(<returned name>)` as a top-level statement): C18.P.lint-dominates-return abstains")
        lint_ok = True
    if lint_ok and inner_rets:
        chk.note("acyclic_unroll: early returns - the must-pass-through rules abstain on them")
    chk.ob("C18.P.lint-dominates-return", "acyclic_unroll::lint(result) before return", lint_ok, file=FILE, func="acyclic_unroll", line=ret.lineno,
           fact={"lint_statement_index": lint_idx, "lint_called_somewhere": lint_mentioned, "result_mutated_after_check": mutated_after}, expect="cg.lint(<returned circuit>) before the return, nothing mutating it afterwards")
    cyc_mentioned = "is_cyclic()" in text
    cyc_ok = cyc_idx is not None and not mutated_after
    if delegated and not cyc_ok:
        cyc_ok = True
    if cyc_mentioned and not cyc_ok and not mutated_after:
        chk.note("acyclic_unroll: is_cyclic() is consulted in a shape the must-pass-through rule does not read: C18.P.cyclic-guard-dominates-return abstains")
        cyc_ok = True
    chk.ob("C18.P.cyclic-guard-dominates-return", "acyclic_unroll::is_cyclic guard before return", cyc_ok, file=FILE, func="acyclic_unroll", line=ret.lineno,
           fact={"guard_statement_index": cyc_idx, "is_cyclic_consulted_somewhere": cyc_mentioned}, expect="`if <result>.is_cyclic(): raise` (or the same through a guard helper) before the return")
    first = body[0]
    bb_guard = isinstance(first, ast.If) and "blackboxes" in norm(first.test) and first.body and isinstance(first.body[-1], ast.Raise)
    bb_guard = bb_guard or (isinstance(first, ast.Expr) and helper_guard(first.value) and "blackboxes" in norm(first.value.args[0]))
    if not bb_guard and delegated:
        bb_guard = True
    if not bb_guard and "blackboxes" in text:
        # the registry is consulted, though not as the first statement in a form read here: whether circuits with blackboxes are
        # rejected is decided on a model below (C18.S.blackbox-guard)
        chk.note("acyclic_unroll: the blackbox guard is not the first statement in a recognised form: C18.P.blackbox-guard-first abstains")
        bb_guard = True
    chk.ob("C18.P.blackbox-guard-first", "acyclic_unroll::blackbox guard", bb_guard, file=FILE, func="acyclic_unroll", line=first.lineno, fact={"first_statement": norm(first)[:80]}, expect="circuits with blackboxes are rejected before anything else (`if c.blackboxes: raise ValueError`)")

    from ..structural import chain_index_rule

    chain_index_rule(chk, repo, "C18.S.copy-index", FILE, "acyclic_unroll", "i")
    # ---- S: template evaluation ----------------------------------------
    P = Package(repo)
    n = 0
    from ..pkgenv import FullStackCaller

    FS = FullStackCaller(repo)
    runs = [(nm, cc, P) for nm, cc in itertools.chain(cyclic_models(), topology_family(chk.tier), dense_family(chk.tier))]
    runs += [(f"{nm}@full-stack", cc, FS) for nm, cc in list(cyclic_models()) + list(topology_family(chk.tier))[::25]]
    for name, c, caller in runs:
        snap = c._snapshot()
        r = caller.call(FILE, "acyclic_unroll", c)
        n += 1
        key = f"acyclic_unroll::{name}"
        if r[0] != "return":
            chk.ob("C18.S.stable-states", key, False, file=FILE, func="acyclic_unroll", line=fi.node.lineno, fact={"result": str(r)[:200]})
            continue
        prob = check_acyclic(P, c, r[1])
        if prob is None and c._snapshot() != snap:
            prob = {"problem": "argument modified"}
        chk.ob("C18.S.stable-states", key, prob is None, file=FILE, func="acyclic_unroll", line=fi.node.lineno, fact=prob or {"stable_states": len(stable_states(c)), "aux_inputs": sorted(r[1].inputs() - c.inputs())},
               expect="acyclic, lint-clean, same outputs, original inputs + auxiliary inputs, every stable state preserved")
    # ---- N: node names that collide with the function's own naming (aux_in_<node>, c<i>_<node>, re-created outputs): a latch with
    # such a node next to it must still be unrolled; the function fails loudly (ValueError) on these
    def _sr(extra, outs):
        return build({"s": ("input", []), "r": ("input", []), "q": ("nor", ["r", "qn"]), "qn": ("nor", ["s", "q"]), **extra}, outputs=["q", "qn"] + outs)
    for what, cN in (("nodes named aux_in_<feedback node>", _sr({"aux_in_q": ("buf", ["s"]), "aux_in_qn": ("buf", ["r"])}, ["aux_in_q", "aux_in_qn"])),
                     ("input named c0_<other input>", build({"s": ("input", []), "r": ("input", []), "c0_s": ("input", []), "q": ("nor", ["r", "qn", "c0_s"]), "qn": ("nor", ["s", "q"])}, outputs=["q", "qn"])),
                     ("output named c1_<node>", _sr({"c1_q": ("buf", ["q"])}, ["c1_q"]))):
        r = P.call(FILE, "acyclic_unroll", cN)
        chk.ob("C18.N.names", f"acyclic_unroll::{what}", r[0] == "return" and isinstance(r[1], RefCircuit), file=FILE, func="acyclic_unroll", line=fi.node.lineno, fact={"result": str(r)[:160]},
               expect="an unrolled circuit (copies and auxiliary inputs are named apart whatever the node names are)")
    bb = RefBlackBox("ff", ["d"], ["q"])
    cbb = build({"a": ("input", []), "u.d": ("bb_input", ["a"]), "u.q": ("bb_output", []), "w": ("buf", ["u.q"])}, outputs=["w"], blackboxes={"u": bb})
    r = P.call(FILE, "acyclic_unroll", cbb)
    chk.ob("C18.S.blackbox-guard", "acyclic_unroll::circuit with a blackbox", r[0] == "raise" and r[1] == "ValueError", file=FILE, func="acyclic_unroll", fact={"result": str(r)[:100]}, expect="ValueError")
    from ..stale import circuit_snapshot, stale_state_rule
    from ..minieval import ModelRaise as _MR

    def _mk_call(file_, fname_, *extra):
        def _call(c):
            r = P.call(file_, fname_, c, *extra)
            if r[0] != "return":
                raise _MR(r[1], r[2] if len(r) > 2 else "")
            return r[1]
        return _call

    from ..refmodel import build as _build

    def _cyc():
        return _build({"s": ("input", []), "r": ("input", []), "e": ("input", []), "q": ("nor", ["r", "qn"]), "qn": ("nor", ["s", "q"]), "o": ("and", ["q", "e"])}, outputs=["o", "qn"])

    stale_state_rule(chk, "C18.H.no-stale-state", _mk_call(FILE, "acyclic_unroll"), circuit_snapshot, FILE, "acyclic_unroll", models=[("latch", _cyc)])
    chk.floor("model cyclic circuits", n, 5)
