"""
C01 - Tseitin CNF / solve() exact for circuit semantics (the encoder's construction).

Decided (static: sat.py's syntax tree is evaluated by cgstatic's own evaluator over *model*
objects - a recording CNF, an injective IDPool, scripted solver, model circuits; sat.py is never
imported, no SAT solver is involved):
  G   per gate type x fan-in arity (1..K): the clauses emitted for a one-gate model circuit have,
      as models, exactly the valuations with gate = G(fan-in), and every auxiliary variable is
      functionally determined (exactly one extension per startpoint assignment)
  M   the same on multi-gate model circuits (shared fan-in between parity gates, constants,
      blackbox pins as buffers / free variables, inverted chains)
  D   dispatch: every supported type is encoded or explicitly rejected with ValueError
  N   auxiliary IDPool keys can never equal a node name (non-str keys)
  V   every node's variable occurs in the formula (so the solver's model covers it)
  A   add_assumptions emits +id for truthy and -id for falsy values; construct_solver rejects an
      assumption on a non-node with ValueError before building the solver and hands formula +
      assumptions to the solver
  R   solve() reads model[id(n)-1] > 0 for exactly the circuit's nodes, returns False when unsat
Not decided: soundness/completeness of the external solver; arities above K.
"""
import ast
import itertools

from ..astutil import body_without_doc, func_params
from ..core import AnalysisError, norm, type_vocabulary
from ..gates import bool_gate, simulate
from ..minieval import bind_unbound_defaults, BlockInterp, ModelRaise, Unsupported
from ..models import MCircuit, MCNF, MIDPool, MSolver
from ..typetables import MULTI_FANIN, reference_partition

FILE = "sat.py"
IMPORTS = {
    "pysat.formula.CNF": MCNF,
    "pysat.formula.IDPool": MIDPool,
    "pysat.solvers.Cadical153": MSolver,
    "pysat.solvers.Cadical": MSolver,
}


_PKG = {}


def run_func(repo, qual, env, file=FILE, extra_imports=None):
    """Evaluate one repository function; names it does not get from `env` resolve in the module's own
    environment (other module-level functions and constants, evaluated from source)."""
    from ..pkgenv import Package

    fi = repo.func(file, qual)
    if id(repo) not in _PKG:
        _PKG[id(repo)] = Package(repo)
    modenv = _PKG[id(repo)].env(file)
    # names given in `env` that are not parameters of the function (fake modules, fake sibling functions) must also be
    # seen by module-local helper functions the body may delegate to: shadow them in the module environment for the call
    params = set(func_params(fi.node))
    shadow = {k: v for k, v in env.items() if k not in params}
    saved = {k: modenv[k] for k in shadow if k in modenv}
    missing = [k for k in shadow if k not in modenv]
    modenv.update(shadow)
    # ... and by the helpers in private modules of the package the body may delegate to: a fake that stands for a standard-library
    # module (`shutil`, `tempfile`, `subprocess`) stands for it in every module that imports it under the same name
    others = []
    for rel_ in getattr(repo, "extra_files", ()):
        if rel_ == file:
            continue
        names_ = {al.asname or al.name for st_ in repo.tree[rel_].body if isinstance(st_, ast.Import) for al in st_.names} & set(shadow)
        if names_:
            oenv = _PKG[id(repo)].env(rel_)
            others.append((oenv, {k: oenv[k] for k in names_ if k in oenv}, [k for k in names_ if k not in oenv]))
            oenv.update({k: shadow[k] for k in names_})
    e = dict(modenv)
    e.update(env)
    imp = dict(IMPORTS)
    if extra_imports:
        imp.update(extra_imports)
    e["__imports__"] = imp
    bi = BlockInterp(e, max_steps=200000)
    try:
        bind_unbound_defaults(fi.node, bi.me.env)
        r = bi.run(body_without_doc(fi.node))
    except ModelRaise as ex:
        return ("raise", ex.kind)
    except Unsupported as ex:
        raise AnalysisError(f"{qual}: unrecognised idiom: {ex}", file, fi.node.lineno)
    finally:
        for k in missing:
            modenv.pop(k, None)
        modenv.update(saved)
        for oenv, osaved, omissing in others:
            for k in omissing:
                oenv.pop(k, None)
            oenv.update(osaved)
    if isinstance(r, tuple):
        return r
    return ("return", None)


def make_circuit(spec):
    """spec: {name: (type, [fanin...])} -> MCircuit + plain dicts"""
    from ..refmodel import build

    types = {n: t for n, (t, fi) in spec.items()}
    fanin = {n: list(fi) for n, (t, fi) in spec.items()}
    return build(spec), types, fanin


def check_encoding(formula, variables, types, fanin):
    """Compare the clause set with circuit semantics by exhaustive enumeration.

    Returns (ok, detail)."""
    ids = dict(variables._ids)
    nodes = list(types)
    for n in nodes:
        if n not in ids:
            return False, {"problem": "node has no variable", "node": n}
    top = max([variables.top] + [abs(l) for c in formula.clauses for l in c])
    if top > 18:
        raise AnalysisError(f"model circuit needs {top} variables; too many to enumerate")
    free = [n for n in nodes if types[n] in ("input", "bb_output") or (types[n] not in ("0", "1") and not fanin.get(n) and types[n] in ("buf", "not", "bb_input"))]
    clauses = [list(c) for c in formula.clauses]
    sat = []
    for bits in itertools.product([False, True], repeat=top):
        ok = True
        for c in clauses:
            if not any((bits[abs(l) - 1] if l > 0 else not bits[abs(l) - 1]) for l in c):
                ok = False
                break
        if ok:
            sat.append(bits)
    # expected: one model per assignment of the free nodes, consistent with simulation
    seen = {}
    for bits in sat:
        fa = tuple(bits[ids[n] - 1] for n in free)
        seen.setdefault(fa, []).append(bits)
    for fa in itertools.product([False, True], repeat=len(free)):
        want = simulate(types, fanin, dict(zip(free, fa)))
        got = seen.get(fa, [])
        if len(got) == 0:
            return False, {"problem": "consistent valuation excluded (no model)", "startpoints": dict(zip(free, fa)), "expected_nodes": want}
        for bits in got:
            for n in nodes:
                if bits[ids[n] - 1] != want[n]:
                    return False, {"problem": "inconsistent valuation admitted", "startpoints": dict(zip(free, fa)), "node": n, "model_value": bits[ids[n] - 1], "gate_value": want[n]}
        if len(got) > 1:
            return False, {"problem": "auxiliary variable not functionally determined (more than one extension)", "startpoints": dict(zip(free, fa)), "models": len(got)}
    return True, {"models": len(sat), "variables": top, "clauses": len(clauses)}


def check_consistent_valuations(formula, variables, types, fanin):
    """The general form (cyclic circuits included): the models of the clause set, restricted to the node variables, are
    exactly the valuations of all nodes in which every gate equals its function of its fan-in values; every such
    valuation has exactly one extension to the auxiliary variables."""
    from ..gates import bool_gate as gate_value

    ids = dict(variables._ids)
    nodes = list(types)
    for n in nodes:
        if n not in ids:
            return False, {"problem": "node has no variable", "node": n}
    top = max([variables.top] + [abs(l) for c in formula.clauses for l in c])
    if top > 16:
        raise AnalysisError(f"model circuit needs {top} variables; too many to enumerate")
    clauses = [list(c) for c in formula.clauses]
    got = {}
    for bits in itertools.product([False, True], repeat=top):
        if all(any((bits[abs(l) - 1] if l > 0 else not bits[abs(l) - 1]) for l in c) for c in clauses):
            key = tuple(bits[ids[n] - 1] for n in nodes)
            got[key] = got.get(key, 0) + 1
    n_cons = 0
    for vals in itertools.product([False, True], repeat=len(nodes)):
        v = dict(zip(nodes, vals))
        cons = True
        for n in nodes:
            t = types[n]
            if t in ("input", "bb_output") or (t in ("buf", "not", "bb_input") and not fanin.get(n)):
                continue
            if v[n] != gate_value("buf" if t == "bb_input" else t, [v[f] for f in fanin[n]]):
                cons = False
                break
        if cons:
            n_cons += 1
            if vals not in got:
                return False, {"problem": "consistent valuation excluded (no model)", "valuation": v}
            if got[vals] > 1:
                return False, {"problem": "auxiliary variable not functionally determined", "valuation": v, "models": got[vals]}
        elif vals in got:
            return False, {"problem": "inconsistent valuation admitted", "valuation": v}
    return True, {"consistent_valuations": n_cons, "variables": top, "clauses": len(clauses)}


def run(chk):
    repo = chk.repo
    voc = reference_partition(repo)
    sup = voc["supported_types"]
    K = 4 if chk.tier == "quick" else 6
    chk.explanation = (
        "sat.cnf's per-node encoder is evaluated by cgstatic's evaluator (no CPython execution of sat.py, no solver) on model circuits: one gate of every type at fan-in "
        f"arity 1..{K} plus multi-gate models; the emitted clause set is compared exhaustively (all assignments) with the gate relation incl. unique extension of auxiliaries; "
        "auxiliary key namespace; assumption polarity/guard; model read-back in solve()."
    )
    chk.assume("PySAT: IDPool.id(obj) is injective on distinct hashable objects and numbers from 1; Solver.get_model()[i-1] == +-i (documented contract, python-sat is not installed)")
    chk.assume(f"arity bound K={K}: clause emission is arity-generic (per-fan-in clauses, one long clause, pairwise parity chain); arities above K are not enumerated")
    fi = repo.func(FILE, "cnf")
    cname = func_params(fi.node)[0]
    n_eval = 0
    # ---- structural rules (no evaluation) ---------------------------------
    from ..structural import dispatch_rule, idpool_string_key_rule, vocabulary_rule

    vocabulary_rule(chk, repo, "C01.S.vocabulary", [(FILE, "cnf"), (FILE, "approx_model_count")])
    dispatch_rule(chk, repo, "C01.S.dispatch", FILE, "cnf", set(sup) - {"x"})
    nsinks = idpool_string_key_rule(chk, repo, "C01.S.aux-key-not-a-string", FILE, "cnf")
    if nsinks == 0:
        chk.note("C01.S.aux-key-not-a-string: no IDPool.id call site recognised in cnf itself (delegated to helpers); the evaluation rule C01.N decides")

    def encode(spec):
        c, types, fanin = make_circuit(spec)
        r = run_func(repo, "cnf", {cname: c})
        return r, types, fanin

    names = ["a", "b", "c", "d", "e", "f"]
    # ---- G / D / N / V: one gate per type and arity -------------------
    for t in sup:
        if t in MULTI_FANIN:
            arities = range(1, K + 1)
        elif t in ("buf", "not", "bb_input"):
            arities = [1]
        else:
            arities = [0]
        for k in arities:
            spec = {names[i]: ("input", []) for i in range(k)}
            gname = "u.p" if t in ("bb_input", "bb_output") else "g"
            spec[gname] = (t, names[:k])
            r, types, fanin = encode(spec)
            n_eval += 1
            key = f"cnf::{t}::arity{k}"
            if r[0] == "raise":
                if t == "x":
                    chk.ob("C01.D.dispatch", "cnf::x explicitly rejected", r[1] == "ValueError", file=FILE, func="cnf", line=fi.node.lineno,
                           fact={"type": t, "raises": r[1]}, expect="ValueError (x has no Boolean encoding) - never a silent fall-through")
                else:
                    chk.ob("C01.D.dispatch", f"cnf::{t} has an encoding", False, file=FILE, func="cnf", line=fi.node.lineno, fact={"type": t, "arity": k, "raises": r[1]},
                           expect="clauses for every supported Boolean type")
                continue
            if t == "x":
                chk.ob("C01.D.dispatch", "cnf::x explicitly rejected", False, file=FILE, func="cnf", line=fi.node.lineno, fact={"type": t, "result": "no exception"},
                       expect="ValueError (x has no Boolean encoding) or a sound encoding")
                continue
            if r[0] != "return" or not isinstance(r[1], tuple) or len(r[1]) != 2:
                raise AnalysisError("cnf() no longer returns (formula, variables)", FILE, fi.node.lineno)
            formula, variables = r[1]
            if isinstance(formula, MIDPool):
                formula, variables = variables, formula
            if not isinstance(formula, MCNF) or not isinstance(variables, MIDPool):
                raise AnalysisError("cnf(): returned objects are not the CNF/IDPool it constructed", FILE, fi.node.lineno)
            chk.ob("C01.D.dispatch", f"cnf::{t} has an encoding", True, file=FILE, func="cnf", line=fi.node.lineno, fact={"type": t, "arity": k}, nontrivial=(k == arities[0]) if False else True) if k == list(arities)[0] else None
            # N: aux keys
            aux = [k_ for k_ in variables._ids if k_ not in types]
            str_aux = [k_ for k_ in aux if isinstance(k_, str)]
            if aux or k == list(arities)[-1]:
                chk.ob("C01.N.aux-namespace", f"cnf::aux-key-is-str::{t}", not str_aux, file=FILE, func="cnf", line=fi.node.lineno,
                       fact={"type": t, "arity": k, "string_aux_keys": str_aux[:4], "aux_keys": [repr(a) for a in aux[:4]]},
                       expect="auxiliary IDPool keys that cannot equal a node name (non-str); IDPool.id merges equal keys silently")
            # V
            used = {abs(l) for c in formula.clauses for l in c}
            missing = [n for n in types if variables._ids.get(n) not in used]
            chk.ob("C01.V.variable-occurs", key, not missing, file=FILE, func="cnf", line=fi.node.lineno, fact={"nodes_without_occurrence": missing},
                   expect="every node variable occurs in a clause (formula.nv covers it)")
            # G
            ok, detail = check_encoding(formula, variables, types, fanin)
            chk.ob("C01.G.gate-relation", key, ok, file=FILE, func="cnf", line=fi.node.lineno, fact=detail, expect=f"models == {{g = {t}(fan-in)}} with unique auxiliary extension")

    # ---- G (wide): arities beyond exhaustive enumeration --------------------
    # every multi-input type at fan-in 7..16: with the inputs fixed, unit propagation over the emitted clauses must determine
    # every variable without conflict and give the gate its value - on all input vectors of weight 0, 1, 2, n-2, n-1, n and an
    # alternating one (a dropped or doubled operand, a mis-paired parity level shows on a weight-1 vector)
    def propagate(clauses, assign):
        assign = dict(assign)
        changed = True
        while changed:
            changed = False
            for cl in clauses:
                unassigned = None
                n_un = 0
                sat_ = False
                for l in cl:
                    v = assign.get(abs(l))
                    if v is None:
                        n_un += 1
                        unassigned = l
                    elif v == (l > 0):
                        sat_ = True
                        break
                if sat_:
                    continue
                if n_un == 0:
                    return None
                if n_un == 1:
                    assign[abs(unassigned)] = unassigned > 0
                    changed = True
        return assign

    wide_arities = (7, 8, 11, 13, 16) if chk.tier == "quick" else tuple(range(7, 18))
    for t in sorted(MULTI_FANIN):
        for k in wide_arities:
            ins = [f"i{j}" for j in range(k)]
            spec = {i_: ("input", []) for i_ in ins}
            spec["g"] = (t, ins)
            r, types, fanin = encode(spec)
            n_eval += 1
            key = f"cnf::{t}{k}"
            if r[0] != "return":
                chk.ob("C01.G.wide-gate", key, False, file=FILE, func="cnf", line=fi.node.lineno, fact={"raises": str(r)[:100]})
                continue
            formula, variables = r[1]
            ids = dict(variables._ids)
            top = max([variables.top] + [abs(l) for c_ in formula.clauses for l in c_])
            vecs = [[False] * k, [True] * k, [bool(j % 2) for j in range(k)]]
            for j in range(k):
                for base in (False, True):
                    v_ = [base] * k
                    v_[j] = not base
                    vecs.append(list(v_))
                    v_[(j + 3) % k] = not base
                    vecs.append(list(v_))
            prob = None
            for vec in vecs:
                res = propagate(formula.clauses, {ids[i_]: b_ for i_, b_ in zip(ins, vec)})
                want = bool_gate(t, vec)
                if res is None:
                    prob = {"problem": "the clauses are contradictory under an input vector", "ones": [i_ for i_, b_ in zip(ins, vec) if b_]}
                elif len(res) < top:
                    prob = {"problem": "unit propagation leaves variables undetermined (an operand or a level of the encoding is not tied in)", "ones": [i_ for i_, b_ in zip(ins, vec) if b_], "undetermined": top - len(res)}
                elif res[ids["g"]] != want:
                    prob = {"problem": "the gate variable takes the wrong value", "ones": [i_ for i_, b_ in zip(ins, vec) if b_], "value": res[ids["g"]], "expected": want}
                if prob:
                    break
            chk.ob("C01.G.wide-gate", key, prob is None, file=FILE, func="cnf", line=fi.node.lineno, fact=prob or {"vectors": len(vecs), "variables": top, "clauses": len(formula.clauses)},
                   expect=f"g = {t}(fan-in) on every probed input vector, all variables determined by propagation")

    # ---- M: multi-gate models -----------------------------------------
    multi = {
        "shared-parity-fanin": {"a": ("input", []), "b": ("input", []), "c": ("input", []), "d": ("input", []),
                                "g1": ("xor", ["a", "b", "c"]), "g2": ("xnor", ["a", "b", "d"]), "o": ("and", ["g1", "g2"])},
        "parity-of-parity": {"a": ("input", []), "b": ("input", []), "c": ("input", []), "g1": ("xnor", ["a", "b", "c"]), "g2": ("xor", ["g1", "a", "c"]), "g3": ("xnor", ["g1", "g2"])},
        "constants": {"a": ("input", []), "z": ("0", []), "w": ("1", []), "g1": ("or", ["z", "a"]), "g2": ("nand", ["w", "a"]), "g3": ("nor", ["g1", "g2", "z"])},
        "blackbox-pins": {"a": ("input", []), "u.q": ("bb_output", []), "w": ("buf", ["u.q"]), "g": ("and", ["w", "a"]), "u.d": ("bb_input", ["g"]), "n": ("not", ["u.d"])},
        "single-input-demotion": {"a": ("input", []), "g1": ("nand", ["a"]), "g2": ("xnor", ["g1"]), "g3": ("or", ["g2"]), "g4": ("xor", ["g3"]), "g5": ("nor", ["g4"]), "g6": ("and", ["g5"])},
        "same-nets-under-several-parity-gates": {"a": ("input", []), "b": ("input", []), "g1": ("xor", ["a", "b"]), "g2": ("xnor", ["a", "b"]), "g3": ("xor", ["a", "b"]), "o": ("and", ["g1", "g2", "g3"])},
        "parity-gates-on-one-bus": {"a": ("input", []), "b": ("input", []), "c": ("input", []), "p": ("xor", ["a", "b", "c"]), "q": ("xnor", ["a", "b", "c"]), "r": ("xnor", ["a", "b", "c"]),
                                    "o": ("or", ["p", "q", "r"])},
        # distinct fan-in sets whose names join to the same string with '_' ({a_b, c}, {a, b_c}, {a, b, c}), under gates of one type
        "fanin-names-joining-to-one-string": {"a": ("input", []), "b": ("input", []), "c": ("input", []), "a_b": ("input", []), "b_c": ("input", []),
                                              "g1": ("and", ["a_b", "c"]), "g2": ("and", ["a", "b_c"]), "g3": ("and", ["a", "b", "c"]),
                                              "x1": ("xor", ["a_b", "c"]), "x2": ("xor", ["a", "b_c"]), "n1": ("nor", ["a", "b_c"]), "n2": ("nor", ["a_b", "c"])},
        "structurally-identical-gates": {"a": ("input", []), "b": ("input", []), "g1": ("nand", ["a", "b"]), "g2": ("nand", ["b", "a"]), "x1": ("xnor", ["a", "b"]), "x2": ("xnor", ["a", "b"]),
                                         "o": ("or", ["g1", "g2", "x1", "x2"])},
        # a gate that reads some nets together with a gate over exactly those nets (complement pairs, parity of its own operands)
        "gate-over-nets-and-a-function-of-them": {"a": ("input", []), "b": ("input", []), "c": ("input", []), "xn": ("xnor", ["a", "b"]), "xo": ("xor", ["a", "b"]), "na": ("not", ["a"]), "nn": ("nand", ["a", "b"]),
                                                   "g1": ("and", ["a", "b", "xn"]), "g2": ("nand", ["a", "b", "xn"]), "g3": ("or", ["a", "b", "xo"]), "g4": ("nor", ["a", "na", "c"]), "g5": ("and", ["a", "b", "nn"]),
                                                   "g6": ("or", ["a", "b", "xn"]), "g7": ("and", ["a", "b", "c", "xo"])},
        "adversarial-names": {"a": ("input", []), "b_c": ("input", []), "a_b": ("input", []), "c": ("input", []), "xor_inv_g": ("input", []),
                              "g": ("xnor", ["a", "b_c", "xor_inv_g"]), "h": ("xor", ["a_b", "c", "a"])},
    }
    # parity gates whose fan-in (by name) begins another parity gate's fan-in, in every type pairing and under gate names on both
    # sides of each other (a sharing of partial parities between gates has to mind which gates invert)
    for tn_ in ("xor", "xnor"):
        for tw_ in ("xor", "xnor"):
            for gn_, gw_ in (("g1", "g2"), ("zz", "aa"), ("n_7", "m"), ("k", "k_w")):
                multi[f"nested-parity-fanins::{tn_}2-{tw_}3-{tw_}4::{gn_}/{gw_}"] = {
                    "i0": ("input", []), "i1": ("input", []), "i2": ("input", []), "i3": ("input", []),
                    gn_: (tn_, ["i0", "i1"]), gw_: (tw_, ["i0", "i1", "i2"]), gw_ + "_4": (tw_, ["i0", "i1", "i2", "i3"]), "o": ("and", [gn_, gw_, gw_ + "_4"])}
    for mname, spec in multi.items():
        r, types, fanin = encode(spec)
        n_eval += 1
        if r[0] != "return":
            chk.ob("C01.M.multi-gate", f"cnf::model::{mname}", False, file=FILE, func="cnf", line=fi.node.lineno, fact={"raises": r[1]})
            continue
        formula, variables = r[1]
        ok, detail = check_encoding(formula, variables, types, fanin)
        chk.ob("C01.M.multi-gate", f"cnf::model::{mname}", ok, file=FILE, func="cnf", line=fi.node.lineno, fact=detail, expect="models == consistent valuations, one per startpoint assignment")
    # cyclic circuits: a gate in its own fan-in (every type), latches, rings - possibly with no consistent valuation at all
    I_ = ("input", [])
    cyclic = {}
    for t in ("and", "nand", "or", "nor", "xor", "xnor"):
        cyclic[f"self-loop-{t}2"] = {"a": I_, "g": (t, ["g", "a"]), "o": ("buf", ["g"])}
        cyclic[f"self-loop-{t}3"] = {"a": I_, "b": I_, "g": (t, ["a", "g", "b"])}
        cyclic[f"self-loop-{t}1"] = {"g": (t, ["g"]), "a": I_, "o": ("and", ["g", "a"])}
    cyclic["ring-of-two-buffers"] = {"a": I_, "g0": ("buf", ["g1"]), "g1": ("buf", ["g0"]), "o": ("and", ["g0", "a"])}
    cyclic["ring-of-three-buffers"] = {"g0": ("buf", ["g2"]), "g1": ("buf", ["g0"]), "g2": ("buf", ["g1"])}
    cyclic["buffer-ring-through-a-blackbox-input-pin"] = {"a": I_, "u.d": ("bb_input", ["w"]), "w": ("buf", ["u.d"]), "o": ("xor", ["w", "a"])}
    cyclic["self-loop-not"] = {"g": ("not", ["g"])}
    cyclic["self-loop-buf"] = {"g": ("buf", ["g"]), "a": I_, "o": ("xor", ["g", "a"])}
    cyclic["nor-latch"] = {"s": I_, "r": I_, "q": ("nor", ["r", "qn"]), "qn": ("nor", ["s", "q"])}
    cyclic["nand-latch-with-constant"] = {"s": I_, "w": ("1", []), "q": ("nand", ["s", "qn"]), "qn": ("nand", ["w", "q"])}
    cyclic["ring-of-three-inverters"] = {"n1": ("not", ["n3"]), "n2": ("not", ["n1"]), "n3": ("not", ["n2"])}
    cyclic["xor-ring"] = {"a": I_, "p": ("xor", ["a", "q"]), "q": ("xnor", ["p", "a"])}
    cyclic["loop-through-blackbox-input-pin"] = {"a": I_, "u.d": ("bb_input", ["g"]), "g": ("nand", ["a", "g"]), "u.q": ("bb_output", []), "o": ("or", ["u.q", "g"])}
    for mname, spec in cyclic.items():
        r, types, fanin = encode(spec)
        n_eval += 1
        if r[0] != "return":
            chk.ob("C01.M.cyclic", f"cnf::cyclic::{mname}", False, file=FILE, func="cnf", line=fi.node.lineno, fact={"raises": str(r)[:120]})
            continue
        formula, variables = r[1]
        ok, detail = check_consistent_valuations(formula, variables, types, fanin)
        chk.ob("C01.M.cyclic", f"cnf::cyclic::{mname}", ok, file=FILE, func="cnf", line=fi.node.lineno, fact=detail, expect="models restricted to the nodes == the consistent valuations of the (cyclic) circuit")
    # the shared corner-case corpus (feed-through ports, constants, shared operand sets, adversarial names)
    from ..corpus import corpus

    for k_, tags, cc in corpus(chk.tier):
        types = {n_: cc.type(n_) for n_ in cc.nodes()}
        fanin = {n_: sorted(cc.fanin(n_)) for n_ in cc.nodes()}
        r = run_func(repo, "cnf", {cname: cc})
        n_eval += 1
        if "x" in tags:
            chk.ob("C01.D.dispatch", f"cnf::corpus::{k_}", r == ("raise", "ValueError"), file=FILE, func="cnf", fact={"result": str(r)[:80]}, expect="ValueError for the x constant")
            continue
        if r[0] != "return":
            chk.ob("C01.M.multi-gate", f"cnf::corpus::{k_}", False, file=FILE, func="cnf", line=fi.node.lineno, fact={"raises": str(r)[:120]})
            continue
        formula, variables = r[1]
        if max([variables.top] + [abs(l) for c_ in formula.clauses for l in c_]) > 17:
            continue  # too many variables to enumerate exhaustively; the smaller models cover the same shapes
        ok, detail = check_encoding(formula, variables, types, fanin)
        chk.ob("C01.M.multi-gate", f"cnf::corpus::{k_}", ok, file=FILE, func="cnf", line=fi.node.lineno, fact=detail, expect="models == consistent valuations, one per startpoint assignment")
    # no stale memoised encoding after an in-place edit that keeps node / edge counts
    from ..stale import stale_state_rule

    def _enc(cc):
        r = run_func(repo, "cnf", {cname: cc})
        if r[0] != "return":
            raise ModelRaise(r[1], "")
        f, v = r[1]
        return f, v

    def _snap(fv):
        f, v = fv
        inv = {i: repr(k) for k, i in v._ids.items()}
        return sorted(sorted((("-" if l < 0 else "+") + inv.get(abs(l), "?")) for l in cl) for cl in f.clauses)

    stale_state_rule(chk, "C01.H.no-stale-encoding", _enc, _snap, FILE, "cnf")
    # unknown type falls to an explicit raise
    c = MCircuit({"g": {"type": "mystery", "output": False}}, [])
    r = run_func(repo, "cnf", {cname: c})
    chk.ob("C01.D.dispatch", "cnf::unknown type rejected", r == ("raise", "ValueError"), file=FILE, func="cnf", line=fi.node.lineno, fact={"result": list(r)}, expect="ValueError")

    # ---- A: assumptions -----------------------------------------------
    fa = repo.func(FILE, "add_assumptions")
    pa = func_params(fa.node)
    formula, variables = MCNF(), MIDPool()
    for n in ("p", "q", "r", "s"):
        variables.id(n)
    asm = {"p": True, "q": False, "r": 1, "s": 0}
    r = run_func(repo, "add_assumptions", {pa[0]: formula, pa[1]: variables, pa[2]: asm})
    got = sorted(tuple(c) for c in formula.clauses)
    want = sorted([(variables._ids["p"],), (-variables._ids["q"],), (variables._ids["r"],), (-variables._ids["s"],)])
    chk.ob("C01.A.assumption-polarity", "add_assumptions::unit clauses", r[0] != "raise" and got == want, file=FILE, func="add_assumptions", line=fa.node.lineno,
           fact={"assumptions": asm, "clauses": got, "ids": dict(variables._ids)}, expect=want)
    n_eval += 1

    fcs = repo.func(FILE, "construct_solver")
    pcs = func_params(fcs.node)
    run_func(repo, "add_assumptions", {pa[0]: MCNF(), pa[1]: MIDPool(), pa[2]: {}})  # makes sure the module environment exists
    add_asm_closure = _PKG[id(repo)].func(FILE, "add_assumptions")
    for case, asm, want_raise in (("valid", {"a": True, "g": False}, False), ("non-node key", {"a": True, "ghost": True}, True), ("none", None, False)):
        spec = {"a": ("input", []), "b": ("input", []), "g": ("and", ["a", "b"])}
        c, types, fanin = make_circuit(spec)
        built = []

        def fake_cnf(circ, *more, **options):
            # (optional arguments a refactoring gives cnf are accepted: this rule is about what construct_solver does with the
            # formula it gets; what cnf makes of its arguments is decided by the encoding rules and the end-to-end pipeline)
            f, v = MCNF([[9, -9]]), MIDPool()
            for n in sorted(types):
                v.id(n)
            fake_cnf.out = (f, v)
            return f, v

        def solver_cls(bootstrap_with=None, **kw):
            s = MSolver(bootstrap_with=bootstrap_with, **kw)
            built.append(s)
            return s

        env = {pcs[0]: c, "assumptions": asm, "solver_cls": solver_cls, "solver_args": None, "cnf": fake_cnf, "add_assumptions": add_asm_closure}
        r = run_func(repo, "construct_solver", env)
        n_eval += 1
        if want_raise:
            ok = r == ("raise", "ValueError") and not built
            chk.ob("C01.A.assumption-guard", "construct_solver::assumption on a non-node", ok, file=FILE, func="construct_solver", line=fcs.node.lineno,
                   fact={"result": list(r), "solver_built": bool(built)}, expect="ValueError before the solver is constructed")
        else:
            ok = r[0] == "return" and isinstance(r[1], tuple) and len(built) == 1 and r[1][0] is built[0] and isinstance(r[1][1], MIDPool)
            clauses = sorted(tuple(x) for x in (built[0].bootstrap.clauses if ok and isinstance(built[0].bootstrap, MCNF) else []))
            f, v = getattr(fake_cnf, "out", (None, None))
            if v is None:
                # construct_solver does not get its formula from `cnf` (it encodes through other code of the package): the stand-in was
                # never asked, this rule has nothing to compare - C01.P (the pipeline evaluated end to end) decides
                chk.note(f"C01.A.solver-gets-formula abstains ({case}): construct_solver does not call cnf(); decided end to end by C01.P")
                continue
            want = [(9, -9)] + ([(v._ids["a"],), (-v._ids["g"],)] if asm else [])
            ok = ok and clauses == sorted(want)
            chk.ob("C01.A.solver-gets-formula", f"construct_solver::{case}", ok, file=FILE, func="construct_solver", line=fcs.node.lineno,
                   fact={"bootstrap_clauses": clauses, "result": str(r)[:120]}, expect={"bootstrap_clauses": sorted(want), "returns": "(solver, variables)"})

    # ---- R: solve() read-back -----------------------------------------
    fs = repo.func(FILE, "solve")
    ps = func_params(fs.node)
    spec = {"a": ("input", []), "b": ("input", []), "g": ("xnor", ["a", "b"])}
    c, types, fanin = make_circuit(spec)
    for case, model in (("sat", [-1, 2, -3, 4, -5]), ("sat2", [1, -2, 3, -4, 5]), ("unsat", None)):
        v = MIDPool()
        ids = {n: v.id(n) for n in ("b", "g", "a")}
        v.id(("aux", 1))
        v.id("zz_aux")
        seen_asm = []

        def fake_construct(circ, assumptions=None, *a, **k):
            seen_asm.append(assumptions)
            return MSolver(models=[model] if model else []), v

        asm = {"a": True}
        r = run_func(repo, "solve", {ps[0]: c, ps[1]: asm, "construct_solver": fake_construct})
        n_eval += 1
        if model is None:
            chk.ob("C01.R.model-readback", "solve::unsat returns False", r == ("return", False), file=FILE, func="solve", line=fs.node.lineno, fact={"result": str(r)}, expect="False")
        else:
            want = {n: model[ids[n] - 1] > 0 for n in types}
            ok = r[0] == "return" and isinstance(r[1], dict) and r[1] == want and all(isinstance(x, bool) for x in r[1].values())
            chk.ob("C01.R.model-readback", f"solve::{case}", ok and seen_asm == [asm], file=FILE, func="solve", line=fs.node.lineno,
                   fact={"model": model, "ids": ids, "result": str(r[1])[:200], "assumptions_forwarded": seen_asm == [asm]}, expect=want)
    # ---- F: the same encoder over the repository's OWN Circuit class ("full stack") ----------------------------
    # everything above queried the reference circuit model; here cnf() asks circuit.py's fanin / type / nodes, so a defect in a
    # primitive that only the encoder exposes (a self-loop dropped from its own fan-in ...) shows
    from ..pkgenv import Package as _Pkg, build_full

    PF = _Pkg(repo, full_stack=True)
    full_models = {f"cyclic::{k_}": sp_ for k_, sp_ in cyclic.items()}
    full_models.update({f"model::{k_}": sp_ for k_, sp_ in multi.items() if k_ in ("constants", "single-input-demotion", "same-nets-under-several-parity-gates", "adversarial-names")})
    n_full = 0
    for mname, spec in full_models.items():
        if any("." in n_ for n_ in spec):
            continue
        try:
            cf = build_full(PF, spec)
        except ModelRaise as e_:
            chk.ob("C01.F.full-stack", f"cnf::{mname}", False, file="circuit.py", func="Circuit.add/connect", fact={"problem": "the model circuit cannot be built through the public API", "error": str(e_)[:120]})
            continue
        r = PF.call(FILE, "cnf", cf)
        n_full += 1
        if r[0] != "return":
            chk.ob("C01.F.full-stack", f"cnf::{mname}", False, file=FILE, func="cnf", line=fi.node.lineno, fact={"raises": str(r)[:120]})
            continue
        formula, variables = r[1]
        types = {n_: t_ for n_, (t_, f_) in spec.items()}
        fanin = {n_: list(f_) for n_, (t_, f_) in spec.items()}
        ok, detail = check_consistent_valuations(formula, variables, types, fanin)
        chk.ob("C01.F.full-stack", f"cnf::{mname}", ok, file=FILE, func="cnf", line=fi.node.lineno, fact=detail, expect="models restricted to the nodes == the consistent valuations (circuit.py's own queries underneath)")
    chk.floor("full-stack encoder evaluations", n_full, 20)

    # ---- P: solve() end to end (cnf + add_assumptions + construct_solver + solve from source, DPLL solver model) ----
    from ..corpus import corpus as _corpus
    from ..refmodel import build as _build
    from ..satpipe import agrees, consistent_valuations, pipeline_package

    pipe_models = {f"cyclic::{k_}": _build(sp_) for k_, sp_ in cyclic.items() if len(sp_) <= 5}
    pipe_models.update({f"model::{k_}": _build(sp_) for k_, sp_ in multi.items() if k_ in ("constants", "blackbox-pins", "single-input-demotion", "same-nets-under-several-parity-gates")})
    for k_, tags, cc in _corpus(chk.tier, want=("feedthrough", "const", "dead", "reconv")):
        if len(cc.nodes()) <= 9:
            pipe_models[f"corpus::{k_}"] = cc
    n_pipe = 0
    for polarity in (False, True):
        PP = pipeline_package(repo, polarity)
        for mname, cc in pipe_models.items():
            cons = consistent_valuations(cc)
            nodes = sorted(cc.nodes())
            asms = [None, {}]
            for n_ in nodes:
                asms += [{n_: True}, {n_: False}]
            for n1, n2 in list(itertools.combinations(nodes, 2))[: (6 if chk.tier == "quick" else 40)]:
                asms += [{n1: True, n2: False}, {n1: False, n2: True}, {n1: 1, n2: 1}]
            prob = None
            n_pipe += len(asms)  # (the first disagreement ends a model circuit's loop; the floor counts the planned evaluations)
            for asm in asms:
                r = PP.call(FILE, "solve", cc, dict(asm) if asm is not None else None)
                want_any = [v for v in cons if agrees(v, asm)]
                if r[0] != "return":
                    prob = {"assumptions": str(asm), "problem": f"solve raises {r[1]}", "consistent_valuations": len(want_any)}
                elif r[1] is False:
                    if want_any:
                        prob = {"assumptions": str(asm), "problem": "solve returns False although a consistent valuation agrees with the assumptions", "valuation": want_any[0]}
                elif not isinstance(r[1], dict) or set(r[1]) != set(nodes):
                    prob = {"assumptions": str(asm), "problem": "result is not a valuation of all nodes", "result": str(r[1])[:120]}
                elif not want_any:
                    prob = {"assumptions": str(asm), "problem": "solve returns a valuation although none is consistent with the assumptions", "result": str(r[1])[:160]}
                elif {k2: bool(v2) for k2, v2 in r[1].items()} not in want_any:
                    prob = {"assumptions": str(asm), "problem": "returned valuation is not a consistent valuation agreeing with the assumptions", "result": str(r[1])[:200]}
                if prob:
                    break
            chk.ob("C01.P.solve-end-to-end", f"solve::{mname}::{'positive' if polarity else 'negative'}-branching", prob is None, file=FILE, func="solve", line=fs.node.lineno,
                   fact=prob or {"assumption_sets": len(asms), "consistent_valuations": len(cons)}, expect="False iff no consistent valuation agrees with the assumptions, else one of them")
        r = PP.call(FILE, "solve", next(iter(pipe_models.values())), {"ghost": True})
        chk.ob("C01.P.solve-end-to-end", f"solve::non-node assumption::{'positive' if polarity else 'negative'}-branching", r[:2] == ("raise", "ValueError"), file=FILE, func="solve", fact={"result": str(r)[:80]}, expect="ValueError")
    chk.floor("solve() pipeline evaluations", n_pipe, 300)
    chk.floor("encoder evaluations", n_eval, 30)
    chk.extra["arity_bound"] = K
