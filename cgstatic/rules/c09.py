"""
C09 - unrolling equals iterated execution.

Decided (tx.unroll / tx.sequential_unroll evaluated by cgstatic's evaluator over the reference
Circuit model on model state machines, n = 1..3 steps):
  U   unroll: the free signals of the unrolled circuit are the step-0 state inputs plus the per-step
      copies of the other inputs; for every initial state and input sequence the node io_map[o][t]
      carries the value of o after running c for t+1 steps with state outputs fed back
  Q   sequential_unroll: same against cycle-accurate simulation of circuits whose state is held in
      flip-flop blackboxes - free or given initial values, flop data outputs exposed as outputs only
      when requested, ignored pins (clock) removed
  G   n < 1, state_io keys/values outside the io, and blackboxes in unroll's argument raise ValueError
Not decided: circuits / step counts outside the model families.
"""
import itertools

from ..minieval import ModelRaise
from ..pkgenv import Package
from ..refmodel import RefBlackBox, RefCircuit, build, free_nodes, simulate
from ..semantic import assignments, guarded

FILE = "tx.py"


def machines():
    """(name, circuit, state_io)"""
    yield "toggle", build({"x": ("input", []), "s": ("input", []), "ns": ("xor", ["x", "s"]), "y": ("and", ["x", "s"])}, outputs=["ns", "y"]), {"ns": "s"}
    yield "two-bits", build({"x": ("input", []), "s0": ("input", []), "s1": ("input", []), "n0": ("xnor", ["x", "s0"]), "c0": ("nor", ["x", "s0"]), "n1": ("xor", ["s1", "c0"]),
                              "y": ("or", ["s1", "n0"])}, outputs=["n0", "n1", "y"]), {"n0": "s0", "n1": "s1"}
    yield "swap", build({"a": ("input", []), "b": ("input", []), "p": ("input", []), "q": ("input", []), "np": ("and", ["q", "a"]), "nq": ("nand", ["p", "b"]), "o": ("xor", ["p", "q"])},
                         outputs=["np", "nq", "o"]), {"np": "p", "nq": "q"}
    yield "no-free-input", build({"s": ("input", []), "ns": ("not", ["s"]), "y": ("buf", ["s"])}, outputs=["ns", "y"]), {"ns": "s"}
    # a shift chain: `a` is an input that is also an output - the state *input* of one pair and the state *output* of the next
    yield "chained-pairs-through-a-feed-through", build({"x": ("input", []), "a": ("input", []), "b": ("input", []), "o": ("xor", ["a", "b", "x"]), "y": ("and", ["a", "b"])}, outputs=["o", "a", "y"]), {"o": "a", "a": "b"}
    # a plain (non-state) input that is also marked as an output: its per-step copies stay free inputs
    yield "free-input-that-is-an-output", build({"x": ("input", []), "s": ("input", []), "ns": ("xnor", ["x", "s"]), "y": ("or", ["x", "s"])}, outputs=["ns", "y", "x"]), {"ns": "s"}
    # nets that already carry the names unroll gives to the per-step io copies (`<io>_cg_unroll_<step>`)
    yield "nets-named-like-the-step-copies", build({"a": ("input", []), "a_cg_unroll_0": ("input", []), "s": ("input", []), "s_cg_unroll_1": ("input", []), "o": ("and", ["a", "a_cg_unroll_0", "s"]),
                                                    "y": ("xor", ["s", "s_cg_unroll_1"])}, outputs=["o", "y"]), {"o": "s"}
    # a state *output* that is a free primary input marked as output (the next state is what was applied last step): its per-step
    # copies are free inputs, not buffers waiting for a driver
    yield "state-output-that-is-a-free-input", build({"s": ("input", []), "p": ("input", []), "x": ("input", []), "y": ("and", ["s", "p"]), "z": ("xor", ["s", "x"])}, outputs=["p", "y", "z"]), {"p": "s"}
    # no state at all: n independent copies, each reading its own step's inputs
    yield "no-state-pairs", build({"a": ("input", []), "b": ("input", []), "y": ("xor", ["a", "b"]), "z": ("nor", ["a", "y"])}, outputs=["y", "z"]), {}
    # constants that are observed: a tie cell marked as an output, and one that is a state output (the next state is constant)
    yield "observed-constant-output", build({"x": ("input", []), "s": ("input", []), "k1": ("1", []), "ns": ("xor", ["x", "s"]), "y": ("and", ["s", "k1"])}, outputs=["ns", "y", "k1"]), {"ns": "s"}
    yield "constant-state-output", build({"x": ("input", []), "s": ("input", []), "k0": ("0", []), "y": ("or", ["x", "s"])}, outputs=["k0", "y"]), {"k0": "s"}
    yield "state-out-used-as-output", build({"x": ("input", []), "s": ("input", []), "ns": ("or", ["x", "s"])}, outputs=["ns"]), {"ns": "s"}


def run_steps(c, state_io, init, seq):
    """Reference: iterate c. init: {state_in: bool}; seq: list of {input: bool}. -> list of value dicts per step."""
    state = dict(init)
    out = []
    for step in seq:
        a = dict(step)
        a.update(state)
        v = simulate(c, a)
        out.append(v)
        state = {sin: v[sout] for sout, sin in state_io.items()}
    return out


@guarded
def check_unroll(c, state_io, n, uc, io_map):
    if not isinstance(uc, RefCircuit) or not isinstance(io_map, dict):
        return {"problem": "unroll() does not return (Circuit, dict)"}
    io = c.io()
    if set(io_map) != io or any(not isinstance(v, list) or len(v) != n for v in io_map.values()):
        return {"problem": "io_map does not map every io of c to a list of n nodes", "keys": sorted(io_map), "lengths": {k: len(v) for k, v in io_map.items() if isinstance(v, list)}}
    sin = set(state_io.values())
    free_in = sorted(c.inputs() - sin)
    want_free = {io_map[i][t] for i in free_in for t in range(n)} | {io_map[v][0] for v in sin}
    got_free = set(free_nodes(uc))
    if got_free != want_free or uc.inputs() != want_free:
        return {"problem": "free inputs of the unrolled circuit differ from step-0 state inputs + per-step copies of the other inputs", "free": sorted(got_free), "expected": sorted(want_free)}
    for init in assignments(sorted(sin)):
        for seqbits in itertools.product(list(assignments(free_in)), repeat=n):
            ref = run_steps(c, state_io, init, list(seqbits))
            a = {io_map[v][0]: init[v] for v in sin}
            for t, step in enumerate(seqbits):
                for i in free_in:
                    a[io_map[i][t]] = step[i]
            v = simulate(uc, a)
            for t in range(n):
                for o in sorted(io):
                    if v[io_map[o][t]] != ref[t][o]:
                        return {"problem": "io_map node differs from iterated execution", "io": o, "step": t, "initial_state": init, "inputs": list(seqbits), "value": v[io_map[o][t]], "expected": ref[t][o]}
    want_out = {io_map[o][t] for o in c.outputs() for t in range(n)}
    if uc.outputs() != want_out:
        return {"problem": "outputs of the unrolled circuit are not the per-step copies of c's outputs", "outputs": sorted(uc.outputs()), "expected": sorted(want_out)}
    return None


def seq_machines():
    ff = RefBlackBox("ff", ["clk", "d"], ["q"])
    c1 = build({"x": ("input", []), "clk": ("input", []), "u.clk": ("bb_input", ["clk"]), "u.d": ("bb_input", ["g"]), "u.q": ("bb_output", []), "w": ("buf", ["u.q"]),
                "g": ("xor", ["x", "w"]), "y": ("and", ["x", "w"])}, outputs=["y"], blackboxes={"u": ff})
    yield "one-flop", c1, ff
    c2 = build({"x": ("input", []), "clk": ("input", []),
                "u.clk": ("bb_input", ["clk"]), "u.d": ("bb_input", ["g0"]), "u.q": ("bb_output", []), "w0": ("buf", ["u.q"]),
                "v.clk": ("bb_input", ["clk"]), "v.d": ("bb_input", ["g1"]), "v.q": ("bb_output", []), "w1": ("buf", ["v.q"]),
                "g0": ("nor", ["x", "w1"]), "g1": ("xnor", ["w0", "x"]), "y": ("or", ["w0", "w1"])}, outputs=["y", "g1"], blackboxes={"u": ff, "v": ff})
    yield "two-flops", c2, ff
    c3 = build({"x": ("input", []), "clk": ("input", []),
                "cnt.clk": ("bb_input", ["clk"]), "cnt.d": ("bb_input", ["g0"]), "cnt.q": ("bb_output", []), "w0": ("buf", ["cnt.q"]),
                "cnt_hi.clk": ("bb_input", ["clk"]), "cnt_hi.d": ("bb_input", ["g1"]), "cnt_hi.q": ("bb_output", []), "w1": ("buf", ["cnt_hi.q"]),
                "g0": ("xor", ["x", "w0"]), "c0": ("and", ["x", "w0"]), "g1": ("xor", ["c0", "w1"]), "y": ("and", ["w0", "w1"])}, outputs=["y"], blackboxes={"cnt": ff, "cnt_hi": ff})
    yield "flop-name-is-a-prefix-of-another", c3, ff
    # primary inputs / nets whose names look like the flattened flop pins (`<inst>_q`, `<inst>_d`) the unrolling works with
    c4 = build({"ld_q": ("input", []), "en_d": ("input", []), "clk": ("input", []), "u.clk": ("bb_input", ["clk"]), "u.d": ("bb_input", ["g"]), "u.q": ("bb_output", []), "w": ("buf", ["u.q"]),
                "m_q": ("and", ["ld_q", "w"]), "g": ("xor", ["m_q", "en_d"]), "y": ("or", ["w", "ld_q"])}, outputs=["y", "m_q"], blackboxes={"u": ff})
    yield "nets-named-like-flop-pins", c4, ff
    # an input register: a primary input whose only load is the data pin of a flop (its per-step copies stay free inputs);
    # a second input feeds nothing but the clock pins
    c5 = build({"din": ("input", []), "x": ("input", []), "clk": ("input", []), "u.clk": ("bb_input", ["clk"]), "u.d": ("bb_input", ["din"]), "u.q": ("bb_output", []), "w": ("buf", ["u.q"]),
                "v.clk": ("bb_input", ["clk"]), "v.d": ("bb_input", ["g"]), "v.q": ("bb_output", []), "w1": ("buf", ["v.q"]),
                "g": ("xor", ["w", "x"]), "y": ("and", ["w1", "x"])}, outputs=["y"], blackboxes={"u": ff, "v": ff})
    yield "input-register", c5, ff
    # a flop whose clock-like pin has a name made of the letters of the data pins: the single-name form of ignore_pins
    # ("cd") must ignore that pin and not the pins "c" / "d"
    fd = RefBlackBox("fd", ["cd", "d"], ["q"])
    c6 = build({"x": ("input", []), "clk": ("input", []), "u.cd": ("bb_input", ["clk"]), "u.d": ("bb_input", ["g"]), "u.q": ("bb_output", []), "w": ("buf", ["u.q"]),
                "g": ("xnor", ["x", "w"]), "y": ("or", ["x", "w"])}, outputs=["y"], blackboxes={"u": fd})
    yield "ignored-pin-named-with-the-letters-of-the-data-pins", c6, fd
    # two pins to ignore, given as a list
    fr = RefBlackBox("ffr", ["clk", "rst", "d"], ["q"])
    c7 = build({"din": ("input", []), "x": ("input", []), "clk": ("input", []), "u.clk": ("bb_input", ["clk"]), "u.rst": ("bb_input", ["clk"]), "u.d": ("bb_input", ["din"]), "u.q": ("bb_output", []),
                "w": ("buf", ["u.q"]), "y": ("nand", ["w", "x"])}, outputs=["y"], blackboxes={"u": fr})
    yield "two-ignored-pins-and-an-input-register", c7, fr
    # a primary input that is also a primary output and drives nothing else (its per-step copies are free inputs *and* outputs)
    c8 = build({"x": ("input", []), "p": ("input", []), "clk": ("input", []), "u.clk": ("bb_input", ["clk"]), "u.d": ("bb_input", ["g"]), "u.q": ("bb_output", []), "w": ("buf", ["u.q"]),
                "g": ("xor", ["x", "w"]), "y": ("buf", ["g"])}, outputs=["y", "p"], blackboxes={"u": ff})
    yield "feed-through-input-output-without-other-loads", c8, ff
    # a flop whose q pin is not connected to anything (lint-clean: the unloaded rule is off by default) next to a connected one
    c9 = build({"x": ("input", []), "clk": ("input", []), "u.clk": ("bb_input", ["clk"]), "u.d": ("bb_input", ["g"]), "u.q": ("bb_output", []), "w": ("buf", ["u.q"]),
                "v.clk": ("bb_input", ["clk"]), "v.d": ("bb_input", ["x"]), "v.q": ("bb_output", []),
                "g": ("xnor", ["x", "w"]), "y": ("buf", ["g"])}, outputs=["y"], blackboxes={"u": ff, "v": ff})
    yield "flop-with-an-unconnected-q-pin", c9, ff
    # ordinary nets named after a flop instance (`<inst>_next` drives its data pin, `<inst>_qb` reads its output): only the flattened
    # pins other than d / q go, not everything whose name starts with the instance name
    c10 = build({"x": ("input", []), "clk": ("input", []), "r0.clk": ("bb_input", ["clk"]), "r0.d": ("bb_input", ["r0_next"]), "r0.q": ("bb_output", []), "r0_cur": ("buf", ["r0.q"]),
                 "r0_qb": ("not", ["r0_cur"]), "r0_next": ("xor", ["x", "r0_qb"]), "y": ("and", ["x", "r0_cur"])}, outputs=["y", "r0_qb"], blackboxes={"r0": ff})
    yield "nets-named-after-the-flop-instance", c10, ff
    # ... and an ordinary net that carries the very name an *ignored* pin would have been exposed under (`r0_clk` beside the
    # ignored pin r0.clk): the ignored pin is gone after stripping, the net is not a pin
    c10b = build({"x": ("input", []), "clk": ("input", []), "r0.clk": ("bb_input", ["clk"]), "r0.d": ("bb_input", ["g"]), "r0.q": ("bb_output", []), "w": ("buf", ["r0.q"]),
                  "r0_clk": ("not", ["x"]), "g": ("xor", ["r0_clk", "w"]), "y": ("and", ["r0_clk", "w"])}, outputs=["y"], blackboxes={"r0": ff})
    yield "net-named-like-an-ignored-pin", c10b, ff
    # instance names that end in the letters of the q pin / in an underscore (IRQ, Q_, qq): the per-flop dictionary of initial values
    # is keyed by the instance name, which is the state input's name minus the *suffix* `_q`
    c11 = build({"x": ("input", []), "clk": ("input", []),
                 "IRQ.clk": ("bb_input", ["clk"]), "IRQ.d": ("bb_input", ["g0"]), "IRQ.q": ("bb_output", []), "w0": ("buf", ["IRQ.q"]),
                 "Q_.clk": ("bb_input", ["clk"]), "Q_.d": ("bb_input", ["g1"]), "Q_.q": ("bb_output", []), "w1": ("buf", ["Q_.q"]),
                 "qq.clk": ("bb_input", ["clk"]), "qq.d": ("bb_input", ["w1"]), "qq.q": ("bb_output", []), "w2": ("buf", ["qq.q"]),
                 "g0": ("xor", ["x", "w0"]), "g1": ("nand", ["w0", "w2"]), "y": ("or", ["w1", "w2"])}, outputs=["y"], blackboxes={"IRQ": ff, "Q_": ff, "qq": ff})
    yield "instance-names-ending-in-the-letters-of-the-q-pin", c11, ff
    # instance names that differ only in the case of their letters
    c12 = build({"x": ("input", []), "clk": ("input", []),
                 "r0.clk": ("bb_input", ["clk"]), "r0.d": ("bb_input", ["g0"]), "r0.q": ("bb_output", []), "w0": ("buf", ["r0.q"]),
                 "R0.clk": ("bb_input", ["clk"]), "R0.d": ("bb_input", ["g1"]), "R0.q": ("bb_output", []), "w1": ("buf", ["R0.q"]),
                 "g0": ("xor", ["x", "w1"]), "g1": ("nor", ["w0", "x"]), "y": ("and", ["w0", "w1"])}, outputs=["y"], blackboxes={"r0": ff, "R0": ff})
    yield "instance-names-differing-in-case", c12, ff


# the documented forms of ignore_pins: one name, or a list of names
IGNORE = {"ignored-pin-named-with-the-letters-of-the-data-pins": "cd", "two-ignored-pins-and-an-input-register": ["clk", "rst"], "two-flops": ["clk"]}


def seq_reference(c, init, seq):
    """Cycle-accurate: init {inst: bool}; seq list of {input: bool} (clk excluded)."""
    q = dict(init)
    out = []
    for step in seq:
        a = dict(step)
        a["clk"] = False
        for inst in c.blackboxes:
            a[f"{inst}.q"] = q[inst]
        v = simulate(c, a)
        out.append(v)
        q = {inst: v[f"{inst}.d"] for inst in c.blackboxes}
    return out


@guarded
def check_seq(c, n, uc, io_map, add_flop_outputs, initial):
    if not isinstance(uc, RefCircuit) or not isinstance(io_map, dict):
        return {"problem": "sequential_unroll() does not return (Circuit, dict)"}
    insts = sorted(c.blackboxes)
    ins = sorted(c.inputs() - {"clk"})
    for k in [f"{i}_d" for i in insts] + [f"{i}_q" for i in insts] + ins + sorted(c.outputs()):
        if k not in io_map or len(io_map[k]) != n:
            return {"problem": "io_map lacks an entry (of length n) for an io of the stripped circuit", "key": k, "keys": sorted(io_map)}
    # (a name that an ordinary node of the circuit carries is that node's, not a pin's)
    gone = ({"clk"} | {f"{i}_{p}" for i in insts for p in c.blackboxes[i].io() - {"d", "q"}}) - {g_ for g_ in c.nodes() if g_ != "clk"}
    import re as _re_

    def _base(x):
        return _re_.sub(r"_cg_unroll_\d+(_\d+)?$", "", _re_.sub(r"^unrolled_\d+_", "", x))

    if any(_base(x) in gone for x in uc.nodes()):
        return {"problem": "ignored clock pins / unloaded clock input were not removed", "nodes": sorted(x for x in uc.nodes() if _base(x) in gone)}
    free_init = [i for i in insts if not initial or (isinstance(initial, dict) and i not in initial)]
    want_free = {io_map[i][t] for i in ins for t in range(n)} | {io_map[f"{i}_q"][0] for i in free_init}
    got_free = set(free_nodes(uc))
    if got_free != want_free:
        return {"problem": "free inputs differ from per-step inputs + free initial flop states", "free": sorted(got_free), "expected": sorted(want_free)}
    for init_bits in assignments(free_init):
        init = dict(init_bits)
        for i in insts:
            if i not in init:
                val = initial if isinstance(initial, str) else initial[i]
                init[i] = val == "1"
        for seqbits in itertools.product(list(assignments(ins)), repeat=n):
            ref = seq_reference(c, init, list(seqbits))
            a = {io_map[f"{i}_q"][0]: init[i] for i in free_init}
            for t, step in enumerate(seqbits):
                for i in ins:
                    a[io_map[i][t]] = step[i]
            v = simulate(uc, a)
            for t in range(n):
                for o in sorted(c.outputs()):
                    if v[io_map[o][t]] != ref[t][o]:
                        return {"problem": "output differs from cycle-accurate simulation", "output": o, "step": t, "initial": init, "inputs": list(seqbits), "value": v[io_map[o][t]], "expected": ref[t][o]}
                for i in insts:
                    if v[io_map[f"{i}_d"][t]] != ref[t][f"{i}.d"]:
                        return {"problem": "flop data node differs from cycle-accurate simulation", "flop": i, "step": t, "value": v[io_map[f"{i}_d"][t]], "expected": ref[t][f"{i}.d"]}
    want_out = {io_map[o][t] for o in c.outputs() for t in range(n)}
    if add_flop_outputs:
        want_out |= {io_map[f"{i}_d"][t] for i in insts for t in range(n)}
    if uc.outputs() != want_out:
        return {"problem": "outputs differ (flop data outputs must be exposed only when requested)", "outputs": sorted(uc.outputs()), "expected": sorted(want_out)}
    return None


def run(chk):
    repo = chk.repo
    chk.explanation = ("tx.unroll / tx.sequential_unroll evaluated by the checker's evaluator over the reference Circuit model on model state machines; io_map nodes compared with iterated / "
                       "cycle-accurate reference simulation for every initial state and input sequence (n = 1..3).")
    chk.assume("reference Circuit model semantics (add_subcircuit, strip via strip_blackboxes evaluated from source, set_type, connect)")
    from ..structural import chain_index_rule

    chain_index_rule(chk, repo, "C09.S.iteration-index", FILE, "unroll", "itr")
    P = Package(repo)
    fu = repo.func(FILE, "unroll")
    fs = repo.func(FILE, "sequential_unroll")
    n_eval = 0
    steps = (1, 2, 3)
    from ..pkgenv import FullStackCaller

    FS = FullStackCaller(repo)
    for name, c, sio, caller in [(nm, cc, ss, P) for nm, cc, ss in machines()] + [(f"{nm}@full-stack", cc, ss, FS) for nm, cc, ss in machines()]:
        for n in steps if caller is P else (2,):
            snap = c._snapshot()
            r = caller.call(FILE, "unroll", c, n, dict(sio))
            n_eval += 1
            key = f"unroll::{name}::n={n}"
            if r[0] != "return" or not isinstance(r[1], tuple) or len(r[1]) != 2:
                chk.ob("C09.U.unroll", key, False, file=FILE, func="unroll", line=fu.node.lineno, fact={"result": str(r)[:200]})
                continue
            prob = check_unroll(c, sio, n, r[1][0], r[1][1])
            if prob is None and c._snapshot() != snap:
                prob = {"problem": "argument modified"}
            chk.ob("C09.U.unroll", key, prob is None, file=FILE, func="unroll", line=fu.node.lineno, fact=prob or {"steps": n, "state_io": sio}, expect="io_map[o][t] == value of o after t+1 steps of iterated execution")
    name, c, sio = next(machines())
    for label, args, want in (("n=0", (c, 0, dict(sio)), "ValueError"), ("state key not io", (c, 2, {"x_bogus": "s"}), "ValueError"), ("state value not io", (c, 2, {"ns": "nowhere"}), "ValueError")):
        r = P.call(FILE, "unroll", *args)
        n_eval += 1
        chk.ob("C09.G.guards", f"unroll::{label}", r[0] == "raise" and r[1] == want, file=FILE, func="unroll", line=fu.node.lineno, fact={"result": str(r)[:100]}, expect=want)
    # names built from unroll's own patterns (`unrolled_<i>_<node>`, `<io>_<prefix>_<i>`): the per-step io names are made unique against
    # the argument, not against the names the copies get in the unrolled circuit - refused loudly
    cn_ = build({"unrolled_0_a": ("input", []), "a_cg_unroll_0": ("not", ["unrolled_0_a"]), "o": ("buf", ["a_cg_unroll_0"])}, outputs=["o"])
    r = P.call(FILE, "unroll", cn_, 2, {})
    n_eval += 1
    chk.ob("C09.N.names", "unroll::nodes named unrolled_0_<io> and <io>_cg_unroll_0", r[0] == "return", file=FILE, func="unroll", line=fu.node.lineno, fact={"result": str(r)[:160]},
           expect="the unrolled circuit (the copies and the per-step io are named apart whatever the node names are)")
    for name, c, ff in seq_machines():
        r = P.call(FILE, "unroll", c, 2, {})
        chk.ob("C09.G.guards", f"unroll::blackboxes::{name}", r[0] == "raise" and r[1] == "ValueError", file=FILE, func="unroll", line=fu.node.lineno, fact={"result": str(r)[:100]}, expect="ValueError")
        insts = sorted(c.blackboxes)
        configs = [(False, None), (True, None), (False, "0"), (False, "1"), (True, {insts[0]: "1"})]
        if len(insts) > 1:
            # a per-flop dictionary that names every flop, written in the opposite order of the instances, with different values
            configs.append((False, {insts[-1]: "0", insts[0]: "1"}))
            configs.append((False, {insts[-1]: "1", insts[0]: "0"}))
        if len(insts) > 2:
            configs.append((False, {i_: "1" for i_ in insts}))
            configs.append((False, {i_: "0" for i_ in insts}))
        for n, caller, tag in [(n_, P, "") for n_ in steps] + [(2, FS, "@full-stack")]:
            for afo, init in configs if caller is P else configs[1::2]:
                snap = c._snapshot()
                ign = IGNORE.get(name, "clk")
                r = caller.call(FILE, "sequential_unroll", c, n, "d", "q", ignore_pins=list(ign) if isinstance(ign, list) else ign, add_flop_outputs=afo, initial_values=init)
                n_eval += 1
                key = f"sequential_unroll::{name}{tag}::n={n}::flop_outputs={afo}::init={init}"
                if r[0] != "return" or not isinstance(r[1], tuple) or len(r[1]) != 2:
                    chk.ob("C09.Q.sequential_unroll", key, False, file=FILE, func="sequential_unroll", line=fs.node.lineno, fact={"result": str(r)[:200]})
                    continue
                prob = check_seq(c, n, r[1][0], r[1][1], afo, init)
                if prob is None and c._snapshot() != snap:
                    prob = {"problem": "argument modified"}
                chk.ob("C09.Q.sequential_unroll", key, prob is None, file=FILE, func="sequential_unroll", line=fs.node.lineno, fact=prob or {"steps": n},
                       expect="matches cycle-accurate simulation from the given / free initial state; flop outputs exposed only when requested; clock pins removed")
        # without ignore_pins the unloaded clock input is removed by remove_unloaded
        r = P.call(FILE, "sequential_unroll", c, 2, "d", "q")
        n_eval += 1
        ok = r[0] == "return" or (name == "net-named-like-an-ignored-pin" and r[:2] == ("raise", "ValueError"))  # (there the exposed pin's name is taken: the documented overlap error)
        chk.ob("C09.Q.sequential_unroll-default-pins", f"sequential_unroll::{name}::no ignore_pins", ok, file=FILE, func="sequential_unroll", line=fs.node.lineno, fact={"result": str(r)[:120]}, expect="returns")
        for label, args in (("bad d port", (c, 2, "nope", "q")), ("bad q port", (c, 2, "d", "nope"))):
            r = P.call(FILE, "sequential_unroll", *args)
            chk.ob("C09.G.guards", f"sequential_unroll::{name}::{label}", r[0] == "raise" and r[1] == "ValueError", file=FILE, func="sequential_unroll", line=fs.node.lineno, fact={"result": str(r)[:100]}, expect="ValueError")
    from ..stale import circuit_snapshot, stale_state_rule

    def _call(c):
        r = P.call(FILE, "unroll", c, 2, {"g": "c"})
        if r[0] != "return":
            raise ModelRaise(r[1], r[2] if len(r) > 2 else "")
        return r[1]

    stale_state_rule(chk, "C09.H.no-stale-state", _call, circuit_snapshot, FILE, "unroll")
    # what one call was told to ignore does not carry over to the next one: a call that names the clock pin (as a str, as a list), then
    # calls that do not, in ONE environment - each against the same call as the first one of a fresh environment
    from ..stale import earlier_calls_rule
    from ..pkgenv import Package as _Pkg

    name0, c0, _ff0 = next(iter(seq_machines()))
    seq_calls = [("ignore_pins='clk'", {"ignore_pins": "clk"}), ("no ignore_pins", {}), ("ignore_pins=['clk']", {"ignore_pins": ["clk"]}), ("no ignore_pins, flop outputs added", {"add_flop_outputs": True})]

    def _mk_seq():
        PH = _Pkg(repo)

        def _do(kw):
            r = PH.call(FILE, "sequential_unroll", c0.copy(), 2, "d", "q", **kw)
            if r[0] != "return":
                raise ModelRaise(r[1], r[2] if len(r) > 2 else "")
            return r[1]
        return _do

    n_eval += earlier_calls_rule(chk, "C09.H.no-state-between-calls", _mk_seq, lambda res: (circuit_snapshot(res[0]), sorted((k, tuple(v)) for k, v in res[1].items())), FILE,
                                 f"sequential_unroll::{name0}", [(lbl, (lambda kw=kw: kw)) for lbl, kw in seq_calls])
    chk.floor("unroll evaluations", n_eval, 40)
