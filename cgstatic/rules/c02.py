"""
C02 - the Verilog parser yields the circuit the netlist denotes.

Decided:
  G   (grammar as data) verilog.lark loads as a LALR grammar; every transformer callback names an
      existing rule and every rule whose alternatives contain an operator has a callback
  E   (evaluation: parse trees from the grammar, callbacks evaluated from parsing/verilog.py's
      source over the reference Circuit model) for a systematic family of continuous assignments over
      ~ ! & | ^ ~^ ^~ ?: parentheses and constants - all operator pairs/triples without parentheses
      (precedence, associativity), unary forms, nested conditionals - the driven net computes what a
      reference Verilog-2001 expression parser/evaluator (in the checker) gives, for every valuation
  P   primitive gate instances (every type, 1..3 inputs, several instances per statement) compute
      their gate function with the first port as the driven net
  D   inputs/outputs of the result are exactly the declared ports
  B   blackbox instances are recorded with their type and every connected pin attached to the net
      named in the instantiation (unconnected pins stay unattached)
  R   port lists that disagree with the declarations are rejected with an error
  N   nets whose names coincide with the parser's synthetic names (tie_0, not_a, and_a_b, ...)
      still denote what the netlist says
Not decided: lark's LALR engine; lexing corner cases (comments inside expressions, escaped
identifiers with unusual characters); netlists outside the families.
"""
import ast
import itertools

from ..core import AnalysisError
from ..gates import bool_gate
from ..minieval import ModelRaise
from ..pkgenv import Package
from ..refmodel import RefBlackBox, RefCircuit, free_nodes, simulate
from ..semantic import assignments
from ..verilogmodel import ParseError, eval_expr, full_parse, load_lark, parse_expr

FILE = "parsing/verilog.py"
GR = "parsing/verilog.lark"


def module_text(inputs, outputs, wires, body, name="m", ports=None):
    ports = ports if ports is not None else list(inputs) + list(outputs)
    s = f"module {name} ({', '.join(ports)});\n"
    if inputs:
        s += f"  input {', '.join(inputs)};\n"
    if outputs:
        s += f"  output {', '.join(outputs)};\n"
    if wires:
        s += f"  wire {', '.join(wires)};\n"
    for b in body:
        s += f"  {b}\n"
    s += "endmodule\n"
    return s


def expr_family(tier):
    bin_ops = ["&", "|", "^", "~^", "^~"]
    out = []
    v = ["a", "b", "c", "d"]
    for o1 in bin_ops:
        out.append(f"a {o1} b")
        for o2 in bin_ops:
            out.append(f"a {o1} b {o2} c")
            out.append(f"~a {o1} b {o2} !c")
            out.append(f"a {o1} (b {o2} c)")
            out.append(f"(a {o1} b) {o2} c")
            out.append(f"~(a {o1} b) {o2} c")
            if tier == "thorough":
                for o3 in bin_ops:
                    out.append(f"a {o1} b {o2} c {o3} d")
    out += ["a", "~a", "!a", "~(~a)", "(a)", "((a | b))", "a & b & c & d", "a | b | c | d", "a ^ b ^ c ^ d", "a ~^ b ~^ c",
            "a ? b : c", "a & b ? c : d", "a ? b | c : c & d", "a | b ? c ^ d : ~a", "(a ? b : c) & d", "a ? (b ? c : d) : d", "~a ? b : ~c",
            # conditionals with a constant arm (all four forms), alone and nested inside other operators
            "a ? b : 1'b1", "a ? b : 1'b0", "a ? 1'b1 : b", "a ? 1'b0 : b", "a ? b : 1'h1", "(a ? b : 1'b1) & c", "~(a ? 1'b0 : b) | c", "a ? (b ? c : 1'b1) : 1'b0", "a & b ? 1'b1 : c ^ d",
            "a ? b : a", "a ? a : b", "a ? ~a : b",
            # conditionals chained without parentheses (right-associative), stacked negations, 1-bit constants in every base / case
            "a ? b : c ? d : a", "a ? b ? c : d : a", "a ? b : c ? d : b ? a : c", "a | b ? c : d ? a : b", "~~a", "!~a & ~!b", "~!~a | b", "~~(a & b) ^ c",
            "a & 1'd1", "a | 1'B0", "a ^ 1'H1", "a | 1'o0 | 1'D0", "1'O1 & b",
            # the same net on both sides of an operator (a circuit gate's fan-in is a set)
            "a ^ a", "a ~^ a", "a & a", "a | a", "(a ^ a) | b", "a ^ b ^ a", "(a & b) ^ (a & b)", "~(a ~^ a) & b", "a ^ a ^ a",
            "1'b0", "1'b1", "1'h0", "1'h1", "a & 1'b1", "a | 1'b0", "a ^ 1'b1 ^ b", "1'b0 ? a : b", "a ? 1'b1 : 1'b0", "a & b | c & d", "a | b & c | d", "a ^ b & c ^ d", "a | b ^ c & d"]
    seen, res = set(), []
    for e in out:
        if e not in seen:
            seen.add(e)
            res.append(e)
    return res


def check_function(c, net, inputs, fn):
    """fn(assignment)->bool; compare with node `net` of circuit c."""
    if set(free_nodes(c)) != set(inputs):
        return {"problem": "free signals of the parsed circuit are not the declared inputs (an undriven or aliased net)", "free": sorted(free_nodes(c)), "inputs": sorted(inputs)}
    if net not in c:
        return {"problem": "declared net missing from the circuit", "net": net}
    for a in assignments(sorted(inputs)):
        try:
            got = simulate(c, a)[net]
        except (ModelRaise, ValueError, KeyError) as e:
            return {"problem": f"circuit cannot be evaluated: {e}"}
        want = fn(a)
        if got != want:
            return {"problem": "net computes a different function than the netlist denotes", "net": net, "assignment": a, "value": got, "expected": want}
    return None


def precedence_rule(chk, lark):
    """Operator precedence and associativity from the expanded rule table (no parsing involved).

    level chain: nonterminals linked by unit productions from `expression` down to `primary`;
    a binary production  X -> L TOKEN R  hangs off level P (P -> X): left-associative iff L == P,
    and R must be the next tighter level (P's unit fall-through)."""
    term = {t.name: t.pattern.value for t in lark.terminals}
    prods = {}
    for r in lark.rules:
        prods.setdefault(str(r.origin.name), []).append([(str(s.name), s.is_term) for s in r.expansion])
    if "expression" not in prods:
        chk.note("C02.S.precedence: no `expression` rule; structural precedence rule abstains")
        return
    binary = {}  # gate rule -> list of (L, tokenvalue, R)
    for name, alts in prods.items():
        for alt in alts:
            if len(alt) == 3 and not alt[0][1] and alt[1][1] and not alt[2][1]:
                binary.setdefault(name, []).append((alt[0][0], term.get(alt[1][0], alt[1][0]), alt[2][0]))
    # depth of level nonterminals: follow unit productions whose target is not itself a gate/ternary rule
    depth = {"expression": 0}
    order = ["expression"]
    cur = "expression"
    fall = {}
    for _ in range(20):
        if any(alt and alt[0][1] for alt in prods.get(cur, [])):
            break  # a level with a terminal-first alternative (IDENTIFIER, "(") is the tightest one
        units = [alt[0][0] for alt in prods.get(cur, []) if len(alt) == 1 and not alt[0][1]]
        nxt = [u for u in units if u not in binary and u in prods and any(len(a) == 1 or len(a) == 3 for a in prods[u]) and u not in depth and not any(len(a) == 5 for a in prods[u])]
        if not nxt:
            break
        fall[cur] = nxt[0]
        cur = nxt[0]
        depth[cur] = len(order)
        order.append(cur)
    chk.ob("C02.S.precedence.level-chain", "grammar::expression level chain", len(order) >= 6, file=GR, func="grammar", fact={"levels_loosest_to_tightest": order},
           expect="expression > condition > or > xor > and > unary > primary linked by unit productions")
    want_rank = {"|": 0, "^": 1, "~^": 1, "^~": 1, "&": 2}
    seen_ops = {}
    for gate, alts in binary.items():
        parents = [p for p, alts2 in prods.items() if any(len(a) == 1 and a[0][0] == gate for a in alts2)]
        for (L, tok, R) in alts:
            if tok not in want_rank:
                continue
            P = parents[0] if parents else None
            seen_ops[tok] = depth.get(P)
            chk.ob("C02.S.precedence.left-associative", f"grammar::{tok}", P is not None and L == P, file=GR, func=gate, fact={"rule": f"{gate}: {L} '{tok}' {R}", "level": P},
                   expect="left operand is the level itself (left recursion => left associativity)")
            chk.ob("C02.S.precedence.right-operand-tighter", f"grammar::{tok}", P is not None and R == fall.get(P), file=GR, func=gate, fact={"rule": f"{gate}: {L} '{tok}' {R}", "next_tighter_level": fall.get(P)},
                   expect="right operand is the next tighter level")
    for a, b in (("|", "^"), ("^", "&"), ("|", "&"), ("~^", "&"), ("^~", "&"), ("|", "~^"), ("|", "^~")):
        da, db = seen_ops.get(a), seen_ops.get(b)
        chk.ob("C02.S.precedence.order", f"grammar::'{a}' looser than '{b}'", da is not None and db is not None and da < db, file=GR, func="grammar", fact={"level_depths": {k: v for k, v in seen_ops.items()}},
               expect="Verilog-2001: & binds tighter than ^ ~^ ^~, which bind tighter than |")
    chk.ob("C02.S.precedence.order", "grammar::^ ~^ ^~ share a level", len({seen_ops.get(x) for x in ("^", "~^", "^~")}) == 1 and seen_ops.get("^") is not None, file=GR, func="grammar", fact={"level_depths": seen_ops}, expect="same level")
    # unary operators apply to a primary; parentheses re-enter at or above the loosest binary level
    un = [alt for alt in prods.get("not_gate", []) if len(alt) == 2 and alt[0][1]]
    # the operand is a primary, or the unary level itself (`~~a`, `!~a`: right recursion) - never a binary level (`~a & b` is `(~a) & b`)
    unary_levels = {order[-1]} | {lv for lv in order if any(len(a) == 1 and a[0][0] == "not_gate" for a in prods.get(lv, []))}
    chk.ob("C02.S.precedence.unary", "grammar::~ ! apply to a primary", bool(un) and all(a[1][0] in unary_levels for a in un) and {term.get(a[0][0]) for a in un} == {"~", "!"}, file=GR, func="not_gate",
           fact={"alternatives": [[term.get(x[0], x[0]) if x[1] else x[0] for x in a] for a in un]}, expect="not_gate: ('!'|'~') primary  (or the unary level itself)")
    par = [alt for alt in prods.get(order[-1], []) if len(alt) == 3 and alt[0][1] and term.get(alt[0][0]) == "("]
    loosest_binary = min([d for d in seen_ops.values() if d is not None] or [99])
    chk.ob("C02.S.precedence.parentheses", "grammar::( ) re-enter at the loosest level", bool(par) and all(depth.get(a[1][0], 99) <= loosest_binary for a in par), file=GR, func=order[-1],
           fact={"parenthesised": [a[1][0] for a in par], "depths": depth}, expect="'(' <level at or above |> ')'")
    tern = [alt for alt in prods.get("ternary", []) if len(alt) == 5]
    chk.ob("C02.S.precedence.conditional", "grammar::?: is the loosest operator", bool(tern) and all(term.get(a[1][0]) == "?" and term.get(a[3][0]) == ":" and depth.get(a[0][0], -1) >= 2 for a in tern)
           and any(len(a) == 1 and a[0][0] == "ternary" for a in prods.get("condition", [])), file=GR, func="ternary", fact={"alternatives": [[x[0] for x in a] for a in tern]}, expect="condition: or | ternary;  ternary: or '?' or ':' or")


def run(chk):
    repo = chk.repo
    chk.explanation = ("verilog.lark loaded as data with lark; the transformer callbacks of parsing/verilog.py evaluated from source by the checker's evaluator bottom-up over the parse trees of model netlists "
                       "(reference Circuit model); the resulting circuits are simulated exhaustively against a reference Verilog expression parser/evaluator and gate functions; rule/callback agreement; port-list rejection.")
    chk.assume("lark's LALR engine builds the parse tree the grammar defines; lark's Transformer calls the method named after each rule bottom-up (reproduced by the driver in verilogmodel.full_parse)")
    P = Package(repo)
    # ---- G: grammar / callbacks ------------------------------------------
    lark = load_lark(repo.grammar_text)
    rule_names = {str(r.origin.name) for r in lark.rules}
    cls = repo.cls(FILE, "_VerilogCircuitGraphTransformer")
    # the transformer may be spread over base classes of the module: their methods are its methods
    family, grew = ["_VerilogCircuitGraphTransformer"], True
    while grew:
        grew = False
        for cn in list(family):
            cd = repo.classes.get((FILE, cn))
            for b in (cd.bases if cd is not None else ()):
                bn = ast.unparse(b).split(".")[-1]
                if (FILE, bn) in repo.classes and bn not in family:
                    family.append(bn)
                    grew = True
    family_nodes = [repo.classes[(FILE, cn)] for cn in family]
    family_methods = [m for cn in family for m in repo.methods(FILE, cn)]
    # ... or over classes of other modules of the package (a mixin with the grammar-independent part)
    family_files = {FILE}
    for (rel_, cn_) in repo.class_mro.get((FILE, "_VerilogCircuitGraphTransformer"), [])[1:]:
        if (rel_, cn_) in repo.classes and repo.classes[(rel_, cn_)] not in family_nodes:
            family_nodes.append(repo.classes[(rel_, cn_)])
            family_methods += [m for m in repo.methods(rel_, cn_) if m.file == rel_]
            family_files.add(rel_)
    # helpers - as opposed to callbacks lark calls by rule name - are the methods the class itself reaches through `self.<name>`
    # and the ones that are not plain methods (properties, static / class methods)
    helpers = {"__init__"} | {n.attr for cd in family_nodes for n in ast.walk(cd) if isinstance(n, ast.Attribute) and isinstance(n.value, ast.Name) and n.value.id == "self"}
    helpers |= {n.attr for cd in family_nodes for n in ast.walk(cd) if isinstance(n, ast.Attribute) and isinstance(n.value, ast.Call) and isinstance(n.value.func, ast.Name) and n.value.func.id == "super"}
    # ... or that helper classes of the module reach through a reference to the transformer (`self.transformer.add_blackbox(...)`)
    helpers |= {n.attr for f_ in sorted(family_files) for n in ast.walk(repo.tree[f_]) if isinstance(n, ast.Attribute) and isinstance(n.value, ast.Attribute)}
    helpers |= {m.node.name for m in family_methods
                if any(ast.unparse(d).split(".")[-1] in ("property", "staticmethod", "classmethod", "cached_property", "setter") for d in m.node.decorator_list)}
    # lark hands a callback the children of the matched rule: a method that takes nothing besides `self` cannot be one (a public
    # helper kept for callers of the class, whoever calls it)
    takes_children = lambda a: bool(a.posonlyargs[1:] or a.args[1:] or a.vararg) if not a.posonlyargs else bool(a.posonlyargs[1:] or a.args or a.vararg)  # noqa: E731
    callbacks = [m for m in family_methods if m.node.name not in helpers and not m.node.name.startswith("_") and takes_children(m.node.args)]
    callbacks = list({m.node.name: m for m in callbacks}.values())
    for m in callbacks:
        chk.ob("C02.G.callback-names-a-rule", f"{m.node.name}", m.node.name in rule_names, file=FILE, func=m.qual, line=m.node.lineno,
               fact={"callback": m.node.name}, expect="a rule of verilog.lark (an orphan callback is never invoked: lark returns a bare Tree)")
    chk.floor("transformer callbacks", len(callbacks), 12)
    need_cb = ["module", "input_declaration", "output_declaration", "module_instantiation", "assignment", "not_gate", "and_gate", "or_gate", "xor_gate", "xnor_gate", "ternary", "constant_zero", "constant_one"]
    have = {m.node.name for m in callbacks}
    # a callback may also be a class-level name bound to a callable (`and_gate = partialmethod(_operator_gate, "and", 2)`)
    have |= {t.id for cnode in family_nodes for st in cnode.body if isinstance(st, (ast.Assign, ast.AnnAssign)) and isinstance(getattr(st, "value", None), (ast.Call, ast.Name, ast.Lambda))
             for t in (st.targets if isinstance(st, ast.Assign) else [st.target]) if isinstance(t, ast.Name)}
    # ... or a method a registration hook of the hierarchy stores on the class when the class statement runs (`setattr(cls, f"{gate}_gate", ...)`
    # in `__init_subclass__`): read off the class the evaluator built
    from ..verilogmodel import prepare_parser_env

    built = prepare_parser_env(P).get("_VerilogCircuitGraphTransformer")
    if type(built).__name__ == "UserClass":
        from ..userclass import _MISSING

        have |= {r for r in need_cb if built._uc_lookup(r) is not _MISSING}
    else:
        # ... or a callable that a class decorator of the package stores on the class (`setattr(cls, rule, make_rule(...))`): the
        # decorator is evaluated with the class standing in (what it installs is what instances find)
        from ..pkgenv import installed_by_decorators

        have |= {r for r, v in installed_by_decorators(P, FILE, "_VerilogCircuitGraphTransformer").items() if callable(v) or hasattr(v, "_cg_fdef")}
    for r in need_cb:
        chk.ob("C02.G.rule-has-callback", r, r in have and r in rule_names, file=FILE, func=f"_VerilogCircuitGraphTransformer.{r}", fact={"rule_in_grammar": r in rule_names, "callback": r in have},
               expect="rule present in the grammar with a transformer callback")

    # ---- S: precedence / associativity read off the grammar's rule table ----
    precedence_rule(chk, lark)

    # ---- E: expression semantics ------------------------------------------
    n_parse = 0
    for e in expr_family(chk.tier):
        text = module_text(["a", "b", "c", "d"], ["o"], [], [f"assign o = {e};"])
        n_parse += 1
        key = f"assign::{e}"
        try:
            c = full_parse(P, text)
        except ParseError as ex:
            chk.ob("C02.E.expression", key, False, file=FILE, func="_VerilogCircuitGraphTransformer", fact={"netlist_expression": e, "error": str(ex)[:160]}, expect="accepted and evaluated")
            continue
        ref = parse_expr(e)
        prob = check_function(c, "o", ["a", "b", "c", "d"], lambda a, ref=ref: eval_expr(ref, a))
        if prob is None and (c.inputs() != {"a", "b", "c", "d"} or c.outputs() != {"o"}):
            prob = {"problem": "inputs/outputs differ from the declared ports", "inputs": sorted(c.inputs()), "outputs": sorted(c.outputs())}
        chk.ob("C02.E.expression", key, prob is None, file=FILE, func="_VerilogCircuitGraphTransformer", fact=prob or {"expression": e}, expect="o == Verilog value of the expression for every valuation")
    # several assignments per statement, nets defined after use
    text = module_text(["a", "b"], ["o", "p"], ["w", "v"], ["assign o = w | v, p = ~w;", "assign w = a & b;", "assign v = a ^ b;"])
    n_parse += 1
    try:
        c = full_parse(P, text)
        prob = check_function(c, "o", ["a", "b"], lambda a: (a["a"] and a["b"]) or (a["a"] != a["b"])) or check_function(c, "p", ["a", "b"], lambda a: not (a["a"] and a["b"])) \
            or check_function(c, "w", ["a", "b"], lambda a: a["a"] and a["b"])
    except ParseError as ex:
        prob = {"error": str(ex)[:160]}
    chk.ob("C02.E.expression", "assign::list of assignments, use before definition", prob is None, file=FILE, func="_VerilogCircuitGraphTransformer.assignment", fact=prob or {}, expect="every declared net computes its Verilog value")
    text = module_text(["a"], ["o"], [], ["assign o = 1'bx;"])
    try:
        c = full_parse(P, text)
        drv = c.fanin("o") if "o" in c else set()
        ok = "o" in c and (c.type("o") == "x" or (len(drv) == 1 and c.type(next(iter(drv))) == "x"))
        prob = None if ok else {"problem": "o is not the x constant", "type": c.type("o") if "o" in c else None}
    except ParseError as ex:
        prob = {"error": str(ex)[:160]}
    chk.ob("C02.E.expression", "assign::1'bx", prob is None, file=FILE, func="_VerilogCircuitGraphTransformer.constant_x", fact=prob or {}, expect="o driven by the x constant")

    # a primitive instance listing one net twice
    for t_, ports_, fn_ in (("xor", "o, a, a", lambda v: False), ("xnor", "o, a, a", lambda v: True), ("xor", "o, a, b, a", lambda v: v["b"]), ("xnor", "o, a, b, b", lambda v: not v["a"]),
                            ("and", "o, a, a", lambda v: v["a"]), ("nor", "o, a, b, a", lambda v: not (v["a"] or v["b"]))):
        text = module_text(["a", "b"], ["o"], [], [f"{t_} g0 ({ports_});"])
        n_parse_p = 1
        try:
            c = full_parse(P, text)
            prob = check_function(c, "o", ["a", "b"], fn_)
        except ParseError as ex:
            prob = {"error": str(ex)[:160]}
        chk.ob("C02.P.primitive", f"primitive::{t_}({ports_.replace(' ', '')}) repeated operand", prob is None, file=FILE, func="_VerilogCircuitGraphTransformer.module_instantiation", fact=prob or {},
               expect="the gate function over the operands as listed (a net listed twice counts twice)")
    # ---- P: primitive instances --------------------------------------------
    voc_gates = ["and", "nand", "or", "nor", "xor", "xnor", "buf", "not"]
    for t in voc_gates:
        for k in ([1] if t in ("buf", "not") else [1, 2, 3]):
            ins = ["a", "b", "c"][:k]
            text = module_text(ins, ["o", "p"], [], [f"{t} g0(o, {', '.join(ins)}), g1(p, {', '.join(reversed(ins))});"])
            n_parse += 1
            key = f"primitive::{t}{k}"
            try:
                c = full_parse(P, text)
                fn = lambda a, t=t, ins=ins: bool_gate(t if not (k == 1 and t in ("and", "or", "xor")) else "buf" if t in ("and", "or", "xor") else t, [a[i] for i in ins]) if k > 1 or t in ("buf", "not") else (a[ins[0]] if t in ("and", "or", "xor") else not a[ins[0]])
                prob = check_function(c, "o", ins, fn) or check_function(c, "p", ins, fn)
                if prob is None and (c.type("o") != t or c.fanin("o") != set(ins)):
                    prob = {"problem": "instance is not the named primitive over its operands", "type": c.type("o"), "fanin": sorted(c.fanin("o"))}
                if prob is None and (c.inputs() != set(ins) or c.outputs() != {"o", "p"}):
                    prob = {"problem": "inputs/outputs differ from the declared ports"}
            except ParseError as ex:
                prob = {"error": str(ex)[:160]}
            chk.ob("C02.P.primitive", key, prob is None, file=FILE, func="_VerilogCircuitGraphTransformer.module_instantiation", fact=prob or {}, expect="first port driven with the gate function of the remaining ports")
    text = module_text(["a"], ["o"], [], ["and g0(.x(o), .y(a));"])
    try:
        full_parse(P, text)
        prob = {"problem": "named ports on a primitive accepted"}
    except ParseError as ex:
        prob = None
    chk.ob("C02.P.primitive", "primitive::named ports rejected", prob is None, file=FILE, func="_VerilogCircuitGraphTransformer.module_instantiation", fact=prob or {}, expect="error")

    # ---- B: blackbox instances ----------------------------------------------
    ff = RefBlackBox("dff", ["clk", "d"], ["q", "qn"])
    cases = {
        "all-connected": (["dff u0 (.clk(ck), .d(a), .q(w), .qn(v));", "assign o = w & ~v;"], {"clk": "ck", "d": "a", "q": "w", "qn": "v"}),
        "expression-free, two instances": (["dff u0 (.clk(ck), .d(a), .q(w), .qn(v)), u1 (.clk(ck), .d(w), .q(o), .qn(t));"], {"clk": "ck", "d": "a", "q": "w", "qn": "v"}),
        "unconnected-pins": (["dff u0 (.clk(ck), .d(a), .q(o), .qn());"], {"clk": "ck", "d": "a", "q": "o", "qn": None}),
        "unconnected-input-pin": (["dff u0 (.clk(), .d(a), .q(o), .qn(v));"], {"clk": None, "d": "a", "q": "o", "qn": "v"}),
        "one-net-on-two-input-pins": (["dff u0 (.clk(a), .d(a), .q(o), .qn(v));"], {"clk": "a", "d": "a", "q": "o", "qn": "v"}),
        "feedback-net-on-input-and-output-pin": (["dff u0 (.clk(ck), .d(w), .q(w), .qn(v));", "assign o = w;"], {"clk": "ck", "d": "w", "q": "w", "qn": "v"}),
        # a net named like an *output pin* of the cell (q), driven by a gate and attached to an input pin: only nets attached to
        # output pins are the instance's to drive
        "net-named-like-an-output-pin-on-an-input-pin": (["and g0 (q, a, ck);", "dff u0 (.clk(ck), .d(q), .q(w), .qn(v));", "assign o = w & q;"], {"clk": "ck", "d": "q", "q": "w", "qn": "v"}),
        # pins omitted from the connection list - some of them, all of them (an empty list)
        "omitted-pins": (["dff u0 (.d(a), .q(o));"], {"clk": None, "d": "a", "q": "o", "qn": None}),
        "every-pin-omitted": (["dff u0 ();", "assign o = a;"], {"clk": None, "d": None, "q": None, "qn": None}),
        "every-pin-omitted, second instance connected": (["dff u0 (), u1 (.clk(ck), .d(a), .q(o));"], {"clk": None, "d": None, "q": None, "qn": None}),
    }
    for name, (body, conns) in cases.items():
        text = module_text(["ck", "a"], ["o"], ["w", "v", "t", "q"], body)
        n_parse += 1
        try:
            c = full_parse(P, text, [ff])
            prob = None
            if "u0" not in c.blackboxes or c.blackboxes["u0"] is not ff:
                prob = {"problem": "instance not recorded with its blackbox type", "registry": sorted(c.blackboxes)}
            else:
                for pin, net in conns.items():
                    pn = f"u0.{pin}"
                    if pn not in c:
                        prob = {"problem": "pin node missing", "pin": pn}
                        break
                    if pin in ff.inputs():
                        want = {net} if net else set()
                        if c.type(pn) != "bb_input" or c.fanin(pn) != want:
                            prob = {"problem": "input pin not attached to the named net", "pin": pn, "fanin": sorted(c.fanin(pn)), "expected": sorted(want)}
                            break
                    else:
                        want = {net} if net else set()
                        if c.type(pn) != "bb_output" or c.fanout(pn) != want:
                            prob = {"problem": "output pin not attached to the named net", "pin": pn, "fanout": sorted(c.fanout(pn)), "expected": sorted(want)}
                            break
            if prob is None and (c.inputs() != {"ck", "a"} or c.outputs() != {"o"}):
                prob = {"problem": "inputs/outputs differ from the declared ports", "inputs": sorted(c.inputs()), "outputs": sorted(c.outputs())}
            if prob is None and "q" in c and name.startswith("net-named-like-an-output-pin") and (c.type("q") != "and" or c.fanin("q") != {"a", "ck"}):
                prob = {"problem": "a net driven by a gate was re-typed because it is named like an output pin", "type": c.type("q"), "fanin": sorted(c.fanin("q"))}
        except ParseError as ex:
            prob = {"error": str(ex)[:200]}
        chk.ob("C02.B.blackbox-instance", f"blackbox::{name}", prob is None, file=FILE, func="_VerilogCircuitGraphTransformer.module_instantiation", fact=prob or {}, expect="instance recorded; every pin attached to the named net")
    text = module_text(["ck"], ["o"], ["v"], ["dff u0 (.clk(1'b0), .d(1'b0), .q(o), .qn(v));"])
    try:
        c = full_parse(P, text, [ff])
        drv = {pin: sorted(c.fanin(f"u0.{pin}")) for pin in ("clk", "d")}
        prob = None if all(len(v) == 1 and c.type(v[0]) == "0" for v in drv.values()) else {"problem": "a constant used on two pins is not attached to both", "drivers": drv}
    except ParseError as ex:
        prob = {"error": str(ex)[:200]}
    chk.ob("C02.B.blackbox-instance", "blackbox::one constant on two pins", prob is None, file=FILE, func="_VerilogCircuitGraphTransformer.add_blackbox", fact=prob or {}, expect="both pins driven by the constant 0")
    text = module_text(["a"], ["o"], [], ["mystery u0 (.d(a), .q(o));"])
    try:
        full_parse(P, text, [ff])
        prob = {"problem": "unknown module accepted"}
    except ParseError:
        prob = None
    chk.ob("C02.B.blackbox-instance", "blackbox::undefined module rejected", prob is None, file=FILE, func="_VerilogCircuitGraphTransformer.module_instantiation", fact=prob or {}, expect="error")

    # ---- R: port list vs declarations ----------------------------------------
    rej = {
        "input not in port list": module_text(["a", "b"], ["o"], [], ["assign o = a & b;"], ports=["a", "o"]),
        "output not in port list": module_text(["a", "b"], ["o", "p"], [], ["assign o = a & b;", "assign p = a;"], ports=["a", "b", "o"]),
        "port never declared": module_text(["a", "b"], ["o"], [], ["assign o = a & b;"], ports=["a", "b", "o", "z"]),
        "port declared only as a wire": module_text(["a", "b"], ["o"], ["w"], ["assign w = a | b;", "assign o = a & b;"], ports=["a", "b", "w", "o"]),
        # the same number of ports as declarations, but different ones: one declared port missing AND one undeclared name listed
        "same size, an input missing and an undeclared name listed": module_text(["a", "c"], ["y"], [], ["assign y = a & c;"], ports=["a", "b", "y"]),
        "same size, an output missing and an undeclared name listed": module_text(["a", "b"], ["y", "z"], [], ["assign y = a & b;", "assign z = a;"], ports=["a", "b", "y", "q"]),
        "same size, every listed name undeclared": module_text(["a", "c"], ["y"], [], ["assign y = a & c;"], ports=["q", "r", "s"]),
        "empty port list with declared ports": "module m ();\n  input a, b;\n  output y;\n  assign y = a & b;\nendmodule\n",
        "empty port list with a blank, declared ports": "module m ( );\n  input a;\n  output y;\n  assign y = ~a;\nendmodule\n",
        "port declared as a wire and driven, declarations last": "module m (a, w, o);\n  assign w = ~a;\n  assign o = w;\n  wire w;\n  output o;\n  input a;\nendmodule\n",
    }
    for name, text in rej.items():
        n_parse += 1
        try:
            c = full_parse(P, text)
            prob = {"problem": "accepted", "inputs": sorted(c.inputs()), "outputs": sorted(c.outputs())}
        except ParseError as ex:
            # a header the grammar itself refuses (an empty port list) is rejected by the parser generator's own error
            prob = None if ex.kind in ("VerilogParsingError", "ValueError") or name.startswith("empty port list") else {"problem": f"rejected with {ex.kind} instead of a parsing error", "error": str(ex)[:120]}
        chk.ob("C02.R.port-list-rejected", name, prob is None, file=FILE, func="_VerilogCircuitGraphTransformer.module", fact=prob or {}, expect="VerilogParsingError")
    text = module_text(["a", "b"], ["o"], ["w"], ["assign w = a | b;", "assign o = w;"])
    try:
        c = full_parse(P, text)
        prob = None if (c.inputs() == {"a", "b"} and c.outputs() == {"o"}) else {"inputs": sorted(c.inputs()), "outputs": sorted(c.outputs())}
    except ParseError as ex:
        prob = {"error": str(ex)[:120]}
    chk.ob("C02.D.declared-ports", "consistent port list accepted", prob is None, file=FILE, func="_VerilogCircuitGraphTransformer.module", fact=prob or {}, expect="inputs/outputs == declared ports")
    # ---- O: any ordering of declarations, instances and assigns -------------
    decls = ["input a, b;", "input ck;", "output o, p;", "output q;", "wire w, v;", "wire t;"]
    stmts = ["nand g0 (w, a, b);", "assign o = w ^ b;", "assign p = w;", "dff u0 (.clk(ck), .d(o), .q(v), .qn());", "or g1 (q, v, 1'b0, t);", "not g2 (t, a);"]
    ports = ["a", "b", "ck", "o", "p", "q"]
    ffo = RefBlackBox("dff", ["clk", "d"], ["q", "qn"])

    def order_text(items):
        return "module m (" + ", ".join(ports) + ");\n" + "".join(f"  {x}\n" for x in items) + "endmodule\n"

    def describe(c):
        fr = sorted(free_nodes(c))
        rows = []
        for a_ in assignments(fr):
            v = simulate(c, a_)
            rows.append(tuple(v[n] for n in ("o", "p", "q", "w", "t", "u0.d", "u0.clk")))
        return {"inputs": sorted(c.inputs()), "outputs": sorted(c.outputs()), "free": fr, "instances": sorted(c.blackboxes),
                "types": {n: c.type(n) for n in ("a", "b", "ck", "o", "p", "q", "w", "v", "t")}, "rows": rows}

    orders = {
        "declarations first": decls + stmts,
        "declarations last": stmts + decls,
        "everything reversed": (decls + stmts)[::-1],
        "interleaved": [decls[0], stmts[1], decls[2], stmts[0], stmts[3], decls[4], decls[1], stmts[4], decls[3], stmts[2], stmts[5], decls[5]],
        "outputs declared after their drivers": [decls[0], decls[1], decls[4], decls[5]] + stmts + [decls[2], decls[3]],
        "uses before definitions": decls + stmts[::-1],
    }
    ref_desc = None
    for oname, items in orders.items():
        n_parse += 1
        try:
            d_ = describe(full_parse(P, order_text(items), [ffo]))
            if ref_desc is None:
                ref_desc = d_
                want_rows = []
                for a_ in assignments(d_["free"]):
                    w_ = not (a_["a"] and a_["b"])
                    o_ = w_ != a_["b"]
                    t_ = not a_["a"]
                    want_rows.append((o_, w_, a_["u0.q"] or t_, w_, t_, o_, a_["ck"]))
                prob = None if (d_["inputs"] == ["a", "b", "ck"] and d_["outputs"] == ["o", "p", "q"] and d_["free"] == ["a", "b", "ck", "u0.q", "u0.qn"] and d_["rows"] == want_rows) else \
                    {"problem": "reference order does not denote the expected circuit", "inputs": d_["inputs"], "outputs": d_["outputs"], "free": d_["free"]}
            else:
                diff = [k for k in d_ if d_[k] != ref_desc[k]]
                prob = None if not diff else {"problem": "the circuit depends on the order of the module items", "differs_in": diff, "got": {k: str(d_[k])[:120] for k in diff[:2]}, "declarations-first": {k: str(ref_desc[k])[:120] for k in diff[:2]}}
        except ParseError as ex:
            prob = {"error": str(ex)[:200]}
        except (KeyError, ModelRaise) as ex:
            prob = {"problem": "a declared net is missing from the circuit", "error": str(ex)[:120]}
        except ValueError as ex:
            prob = {"problem": "the circuit is not well formed (a single-input gate with several drivers, ...)", "error": str(ex)[:120]}
        chk.ob("C02.O.item-order", f"order::{oname}", prob is None, file=FILE, func="_VerilogCircuitGraphTransformer", fact=prob or {"items": len(items)}, expect="the same circuit for every ordering of declarations, instances and assigns")

    # the same orderings (and a few expression netlists with uses before definitions) with the repository's own Circuit class under
    # the transformer: `relabel`, `add(allow_redefinition=True)`, `connect` ... are circuit.py's code then
    from ..pkgenv import to_ref as _to_ref

    PFS = Package(repo, full_stack=True)
    fs_texts = {f"order::{oname}": (order_text(items), [ffo]) for oname, items in orders.items()}
    fs_texts["assign to a net used earlier"] = (module_text(["a", "b", "c"], ["o", "p"], ["w"], ["and g0 (o, w, c);", "or g1 (p, w, a);", "assign w = a ^ b;"]), [])
    fs_texts["assign of an operator expression to a net used twice earlier"] = (module_text(["a", "b", "c"], ["o", "p"], ["w", "v"], ["assign v = w & c;", "assign o = v | w;", "assign p = ~w;", "assign w = (a & b) | c;"]), [])
    for tname, (text_, bbs_) in fs_texts.items():
        n_parse += 1
        try:
            want_c = full_parse(P, text_, bbs_)
            bbs_full = [PFS.cg.BlackBox(b.name, sorted(b.inputs()), sorted(b.outputs())) for b in bbs_]
            got_c = _to_ref(full_parse(PFS, text_, bbs_full))
            prob = None
            if got_c._snapshot()[1:3] != want_c._snapshot()[1:3] or sorted(got_c.blackboxes) != sorted(want_c.blackboxes):
                ga, wa = got_c._snapshot(), want_c._snapshot()
                prob = {"problem": "the circuit differs from the one the documented Circuit semantics give", "nodes_differ": sorted(set(dict(ga[1])) ^ set(dict(wa[1])))[:6],
                        "edges_only_here": sorted(set(ga[2]) - set(wa[2]))[:6], "edges_missing": sorted(set(wa[2]) - set(ga[2]))[:6]}
        except ParseError as ex:
            prob = {"error": str(ex)[:200]}
        except ModelRaise as ex:
            prob = {"error": str(ex)[:200]}
        chk.ob("C02.O.item-order", f"{tname}@full-stack", prob is None, file=FILE, func="_VerilogCircuitGraphTransformer", fact=prob or {}, expect="the same circuit with circuit.py's own class under the transformer")

    # ---- W: the diagnostics flags only report ---------------------------------
    # `warnings=True` prints about unused nets, `error_on_warning=True` turns such a report into VerilogParsingWarning: neither
    # changes the circuit that is returned
    warn_cases = {
        "nothing to report": (module_text(["a", "b"], ["o"], ["w"], ["and g0(w, a, b);", "assign o = ~w;"]), [], False),
        "nothing to report, all three constants in use": (module_text(["a", "b"], ["o", "p", "q"], [], ["assign o = a & 1'bx;", "assign p = b | 1'b0;", "assign q = a ^ 1'b1;"]), [], False),
        "an unused input": (module_text(["a", "b", "spare"], ["o"], [], ["assign o = a & b;"]), [], True),
        "a wire that drives nothing": (module_text(["a", "b"], ["o"], ["w", "dead"], ["and g0(w, a, b);", "or g1(dead, a, w);", "assign o = w;"]), [], True),
        "a wire without a driver": (module_text(["a"], ["o"], ["float"], ["and g0(o, a, float);"]), [], True),
        "an unconnected blackbox output": (module_text(["ck", "a"], ["o"], [], ["dff u0 (.clk(ck), .d(a), .q(o), .qn());"]), [ff], True),
    }
    for name, (text, bbs, reportable) in warn_cases.items():
        n_parse += 3
        try:
            base = full_parse(P, text, bbs)
            loud = full_parse(P, text, bbs, True, False)
            prob = None if loud._snapshot()[:3] == base._snapshot()[:3] and set(loud.blackboxes) == set(base.blackboxes) else {
                "problem": "warnings=True changes the circuit", "nodes_without_flag": sorted(base.nodes()), "nodes_with_flag": sorted(loud.nodes())}
            if prob is None:
                try:
                    strict = full_parse(P, text, bbs, True, True)
                    if reportable:
                        prob = {"problem": "error_on_warning=True accepts a netlist with an unused net"}
                    elif strict._snapshot()[:3] != base._snapshot()[:3]:
                        prob = {"problem": "error_on_warning=True changes the circuit of a netlist with nothing to report"}
                except ParseError as ex:
                    if not reportable or ex.kind != "VerilogParsingWarning":
                        prob = {"problem": "error_on_warning=True", "error": str(ex)[:160], "something_to_report": reportable}
        except ParseError as ex:
            prob = {"error": str(ex)[:200]}
        chk.ob("C02.W.flags-only-report", f"warnings::{name}", prob is None, file=FILE, func="_VerilogCircuitGraphTransformer.check_for_warnings", fact=prob or {},
               expect="the same circuit with and without warnings=True; VerilogParsingWarning under error_on_warning=True exactly when there is something to report")

    # ---- C: through io.verilog_to_circuit (module extraction + any preprocessing), with comments -------------------
    com_cases = {
        "line comments": ("// header comment\n" + module_text(["a", "b"], ["o"], ["w"], ["and g0(w, a, b); // trailing comment", "// assign o = 1'b0;", "assign o = ~w;"]), {"o": lambda v: not (v["a"] and v["b"])}),
        "block comment": (module_text(["a", "b"], ["o"], ["w"], ["/* multi", "   line */ or g0(w, a, b);", "assign o = w /* inline */ ^ a;"]), {"o": lambda v: (v["a"] or v["b"]) != v["a"]}),
        "slashes inside a block comment, code after it, later block comment": (module_text(["a", "b"], ["o", "p"], ["w"], ["/* see http://x.y // old: assign o = a; */ nand g0(w, a, b);", "assign o = w;", "/* second */ assign p = w & a;"]),
                                                                               {"o": lambda v: not (v["a"] and v["b"]), "p": lambda v: (not (v["a"] and v["b"])) and v["a"]}),
    }
    # block comments whose delimiters carry extra stars (doc-comment style): the comment still ends at the first `*/`
    com_cases["block comments opened or closed with several stars"] = (module_text(["a", "b"], ["o", "p"], ["w", "v"], ["/** doc **/ and g0(w, a, b);", "/***/ or g1(v, a, b);", "/* plain */ assign o = w;", "/**** x ***/ assign p = v ^ w; /* end **/"]),
                                                                        {"o": lambda v: v["a"] and v["b"], "p": lambda v: (v["a"] or v["b"]) != (v["a"] and v["b"])})
    # identifiers that contain the keywords the entry point cuts the module out with
    com_cases["nets named x_endmodule / endmodule_x / my_module"] = (module_text(["a", "b"], ["o", "p"], ["x_endmodule", "endmodule_x", "my_module"],
                                                                                 ["and g0(x_endmodule, a, b);", "or g1(endmodule_x, a, b);", "not g2(my_module, a);", "assign o = x_endmodule ^ endmodule_x;", "assign p = my_module;"]),
                                                                     {"o": lambda v: (v["a"] and v["b"]) != (v["a"] or v["b"]), "p": lambda v: not v["a"]})
    for name, (text, fns) in com_cases.items():
        r = P.call("io.py", "verilog_to_circuit", text, "m")
        n_parse += 1
        if r[0] != "return" or not isinstance(r[1], RefCircuit):
            prob = {"problem": "rejected", "result": str(r)[:160]}
        else:
            c = r[1]
            prob = None
            for net, fn in fns.items():
                prob = prob or check_function(c, net, sorted(c.inputs()), fn)
            if prob is None and c.inputs() != {x for x in ("a", "b") if f"input {x}" in text or f", {x};" in text or f"input a, {x}" in text}:
                pass
        chk.ob("C02.C.comments-and-entry-point", name, prob is None, file="io.py", func="verilog_to_circuit", fact=prob or {}, expect="comments are ignored; every net computes what the netlist denotes")
    # ---- N: synthetic-name namespace ------------------------------------------
    ns_cases = {
        "input named tie_0 next to a constant": (["tie_0", "a"], ["o", "p"], [], ["assign o = tie_0 & a;", "assign p = 1'b0 | a;"], {"o": lambda v: v["tie_0"] and v["a"], "p": lambda v: v["a"]}),
        "input named tie_1 next to a constant": (["tie_1", "a"], ["p"], [], ["assign p = 1'b1 & a & ~tie_1;"], {"p": lambda v: v["a"] and not v["tie_1"]}),
        "net named like a later synthetic gate": (["a", "c"], ["o1", "o3"], ["not_a"], ["buf b0(not_a, c);", "assign o1 = ~a;", "and g(o3, not_a, a);"], {"o1": lambda v: not v["a"], "o3": lambda v: v["c"] and v["a"], "not_a": lambda v: v["c"]}),
        "net named like an earlier synthetic gate": (["a", "c"], ["o1", "o2", "o3"], ["not_a"], ["assign o1 = ~a;", "buf b0(not_a, c);", "assign o2 = not_a;", "and g(o3, not_a, a);"],
                                                     {"o1": lambda v: not v["a"], "o2": lambda v: v["c"], "o3": lambda v: v["c"] and v["a"], "not_a": lambda v: v["c"]}),
        "net named and_a_b defined after the expression": (["a", "b", "c"], ["o", "p"], ["and_a_b"], ["assign o = (a & b) | c;", "or g(and_a_b, c, a);", "assign p = and_a_b;"],
                                                             {"o": lambda v: (v["a"] and v["b"]) or v["c"], "p": lambda v: v["c"] or v["a"], "and_a_b": lambda v: v["c"] or v["a"]}),
    }
    # a repeated sub-expression needs a second name (`and_a_b_0`) while a net with a numeric suffix makes another expression's name end
    # in digits (`and_a_b_1`): the fresh name must be probed against the graph, not counted
    ns_cases["repeated sub-expression next to a net with a numeric suffix"] = (["a", "b", "b_1", "c", "d"], ["y0", "y1", "y2", "y3"], [],
                                                                               ["assign y0 = (a & b_1) | c;", "assign y1 = (a & b) ^ c;", "assign y2 = (a & b) | d;", "assign y3 = (a & b) & d;"],
                                                                               {"y0": lambda v: (v["a"] and v["b_1"]) or v["c"], "y1": lambda v: (v["a"] and v["b"]) != v["c"], "y2": lambda v: (v["a"] and v["b"]) or v["d"],
                                                                                "y3": lambda v: v["a"] and v["b"] and v["d"]})
    # operand names that join to the same string: the synthetic gate names (`and_a_b_c`) of two different expressions coincide
    ns_cases["operand names joining to one string (and)"] = (["a", "b_c", "a_b", "c"], ["o1", "o2"], [], ["assign o1 = a & b_c;", "assign o2 = a_b & c;"],
                                                             {"o1": lambda v: v["a"] and v["b_c"], "o2": lambda v: v["a_b"] and v["c"]})
    ns_cases["operand names joining to one string (xor, nested)"] = (["n_1_n", "x_2_3", "n_1", "n_x_2_3", "e"], ["y0", "y1"], [], ["assign y0 = (n_1_n ^ x_2_3) | e;", "assign y1 = (n_1 ^ n_x_2_3) & e;"],
                                                                     {"y0": lambda v: (v["n_1_n"] != v["x_2_3"]) or v["e"], "y1": lambda v: (v["n_1"] != v["n_x_2_3"]) and v["e"]})
    ns_cases["the same sub-expression twice, then a different one under the same joined name"] = (["a", "b_c", "a_b", "c", "d"], ["o1", "o2", "o3"], [], ["assign o1 = (a | b_c) & d;", "assign o2 = (a | b_c) ^ d;", "assign o3 = (a_b | c) & d;"],
        {"o1": lambda v: (v["a"] or v["b_c"]) and v["d"], "o2": lambda v: (v["a"] or v["b_c"]) != v["d"], "o3": lambda v: (v["a_b"] or v["c"]) and v["d"]})
    for name, (ins, outs, wires, body, fns) in ns_cases.items():
        text = module_text(ins, outs, wires, body)
        n_parse += 1
        try:
            c = full_parse(P, text)
            prob = None
            for net, fn in fns.items():
                prob = prob or check_function(c, net, ins, fn)
        except ParseError as ex:
            prob = {"error": str(ex)[:160]}
        chk.ob("C02.N.namespace", name, prob is None, file=FILE, func="_VerilogCircuitGraphTransformer", fact=prob or {}, expect="declared nets keep the meaning the netlist gives them")
        if name.startswith(("repeated sub-expression", "operand names joining", "the same sub-expression twice")):
            # ... and with circuit.py's own class under the transformer: the fresh names come from Circuit.uid itself then
            n_parse += 1
            try:
                c = _to_ref(full_parse(PFS, text))
                prob = None
                for net, fn in fns.items():
                    prob = prob or check_function(c, net, ins, fn)
            except (ParseError, ModelRaise) as ex:
                prob = {"error": str(ex)[:160]}
            chk.ob("C02.N.namespace", f"{name}@full-stack", prob is None, file=FILE, func="_VerilogCircuitGraphTransformer", fact=prob or {}, expect="declared nets keep the meaning the netlist gives them")
    chk.floor("model netlists parsed", n_parse, 150)
    chk.extra["netlists"] = n_parse
