"""
C17 - supergate decomposition covers the circuit with independent-input blocks.

Decided:
  N   (third-party contract, read statically from the installed networkx source) whether
      nx.immediate_dominators keeps the start node as a key; tx.supergates must not assume a key the
      library deletes (remove vs discard / membership guard)
  D   (template evaluation over the reference Circuit model; the dominator computation is modelled by
      the textbook definition) on model circuits with reconvergence, shared fan-out, wide gates and
      several outputs: every returned block is a single-output sub-circuit of the fan-in-limited
      circuit with exactly the circuit's internal wiring; blocks are in topological order; together
      they contain every gate in the cone of the outputs; the inputs of each block have pairwise
      disjoint (reflexive) transitive fan-in; with construct_supercircuit=True, filling every
      supergate blackbox with its block gives a circuit equivalent to the original
Not decided: maximality / minimality of the cover; circuits outside the model families.
"""
import ast
import itertools
import re
from pathlib import Path

from ..core import AnalysisError
from ..minieval import ModelRaise
from ..pkgenv import Package
from ..refmodel import RefBlackBox, RefCircuit, build, free_nodes, simulate
from ..semantic import assignments, deep_circuits, guarded, one_gate_circuits, two_level_circuits

FILE = "tx.py"


def networkx_fact():
    """Does the installed networkx delete idom[start]?  Read from source, never imported."""
    for base in ("/venv/lib", "/usr/lib", "/usr/local/lib"):
        for p in Path(base).glob("python3*/site-packages/networkx/algorithms/dominance.py"):
            src = p.read_text()
            tree = ast.parse(src)
            for fn in ast.walk(tree):
                if isinstance(fn, ast.FunctionDef) and fn.name == "immediate_dominators":
                    deletes = any(isinstance(n, ast.Delete) and any(isinstance(t, ast.Subscript) and isinstance(t.slice, ast.Name) and t.slice.id == "start" for t in n.targets) for n in ast.walk(fn))
                    return str(p), deletes
    return None, None


@guarded
def check_blocks(P, c, blocks):
    c2r = P.call(FILE, "limit_fanin", c, 2)
    c2 = c2r[1]
    if not isinstance(blocks, list) or not all(isinstance(b, RefCircuit) for b in blocks):
        return {"problem": "supergates() does not return a list of circuits"}
    produced = {}
    pos_of_output = {}
    for idx, b in enumerate(blocks):
        for o in b.outputs():
            pos_of_output.setdefault(o, idx)
    for idx, b in enumerate(blocks):
        for i in b.inputs():
            if c2.type(i) != "input" and i in pos_of_output and pos_of_output[i] > idx:
                return {"problem": "blocks are not in topological order: the supergate that outputs an input of this block comes later", "block_output": sorted(b.outputs()), "input": i,
                        "order": [sorted(x.outputs())[0] if x.outputs() else None for x in blocks]}
    for idx, b in enumerate(blocks):
        outs = b.outputs()
        if len(outs) != 1:
            return {"problem": "block is not single-output", "block": idx, "outputs": sorted(outs)}
        ins = b.inputs()
        for n in b.nodes():
            if n not in c2:
                return {"problem": "block node not in the fan-in-limited circuit", "node": n}
            if n not in ins:
                if len(b.fanin(n)) > 2:
                    return {"problem": "a gate of a supergate has more than two inputs (the decomposition works on the fan-in-limited circuit)", "node": n, "fanin": sorted(b.fanin(n))}
                if b.type(n) != c2.type(n):
                    return {"problem": "block node type differs from the circuit", "node": n, "type": b.type(n), "expected": c2.type(n)}
                if b.fanin(n) != c2.fanin(n):
                    return {"problem": "block wiring differs from the circuit", "node": n, "fanin": sorted(b.fanin(n)), "expected": sorted(c2.fanin(n))}
        # inputs pairwise independent
        for i, j in itertools.combinations(sorted(ins), 2):
            ci = {i} | c2.graph.ancestors(i)
            cj = {j} | c2.graph.ancestors(j)
            if ci & cj:
                return {"problem": "two inputs of a block share transitive fan-in (reconvergence enters through two inputs)", "block_output": sorted(outs), "inputs": [i, j], "shared": sorted(ci & cj)[:4]}
        # topological order
        for i in ins:
            if c2.type(i) != "input" and i not in produced:
                if any(i in (b2.nodes() - b2.inputs()) for b2 in blocks[idx + 1:]):
                    return {"problem": "blocks are not in topological order", "block_output": sorted(outs), "input": i}
        for n in b.nodes() - ins:
            produced[n] = idx
    cone = set()
    for o in c2.outputs():
        cone |= {o} | c2.graph.ancestors(o)
    gates = {n for n in cone if c2.type(n) not in ("input",)}
    missing = gates - set(produced)
    if missing:
        return {"problem": "a gate in the cone of the outputs is in no block", "missing": sorted(missing)[:6]}
    return None


@guarded
def check_super(P, c, res):
    if not isinstance(res, tuple) or len(res) != 2:
        return {"problem": "construct_supercircuit=True does not return (circuit, map)"}
    superc, sgmap = res
    full = superc.copy()
    for name in list(full.blackboxes):
        if name not in sgmap:
            return {"problem": "blackbox without a supergate", "name": name}
        full.fill_blackbox(name, sgmap[name])
    if full.blackboxes:
        return {"problem": "blackboxes left after filling"}
    if full.inputs() != c.inputs() or full.outputs() != c.outputs():
        return {"problem": "io of the super-circuit differs", "inputs": sorted(full.inputs()), "outputs": sorted(full.outputs())}
    if set(free_nodes(full)) != c.inputs():
        return {"problem": "undriven nodes in the filled super-circuit", "free": sorted(free_nodes(full))}
    for a in assignments(sorted(c.inputs())):
        v0, v1 = simulate(c, a), simulate(full, a)
        for o in c.outputs():
            if v0[o] != v1[o]:
                return {"problem": "filled super-circuit is not equivalent", "output": o, "assignment": a}
    return None


def run(chk):
    repo = chk.repo
    chk.explanation = ("networkx's immediate_dominators contract read from the installed source; tx.supergates evaluated by the checker's evaluator over the reference Circuit model (dominators by the textbook "
                       "definition) on model circuits and its result checked against the listed structural clauses and, for the super-circuit, equivalence after filling.")
    chk.assume("reference dominator computation (iterative definition) stands in for networkx.immediate_dominators; start node is not a key (networkx >= 3)")
    fi = repo.func(FILE, "supergates")
    # ---- N: contract -----------------------------------------------------
    path, deletes = networkx_fact()
    if path is None:
        chk.note("installed networkx source not found; assuming start is not a key of immediate_dominators (networkx >= 3)")
        deletes = True
    assumes = []
    from ..astutil import enclosing, parents_map

    pm = parents_map(fi.node)
    for n in ast.walk(fi.node):
        if isinstance(n, ast.Call) and isinstance(n.func, ast.Attribute) and n.func.attr == "remove" and isinstance(n.func.value, ast.Subscript):
            base = n.func.value
            if n.args and ast.unparse(n.args[0]) == ast.unparse(base.slice):
                guarded_by_membership = any(any(isinstance(op, ast.In) for cmp_ in ast.walk(i.test) if isinstance(cmp_, ast.Compare) for op in cmp_.ops) for i in enclosing(n, pm, (ast.If,)))
                in_try = any(True for t in enclosing(n, pm, (ast.Try,)))
                if not guarded_by_membership and not in_try:
                    assumes.append(n)
    chk.ob("C17.N.dominator-contract", "supergates::start node assumed to be its own dominator-tree child", not (deletes and assumes), file=FILE, func="supergates", line=assumes[0].lineno if assumes else fi.node.lineno,
           fact={"networkx_source": path, "library_deletes_idom_start": deletes, "unguarded_remove_sites": [ast.unparse(a) for a in assumes]},
           expect="no `x[start].remove(start)` when the library does not keep the start node (use discard / a membership test)")
    # ---- D: decomposition -------------------------------------------------
    P = Package(repo)
    from ..corpus import corpus

    fams = list(deep_circuits()) + list(one_gate_circuits(max_arity=4, types=["and", "nor", "xor", "not"])) + list(two_level_circuits(limit=30 if chk.tier == "quick" else 150))
    fams += [(f"corpus::{k}", c) for k, tags, c in corpus(chk.tier, exclude=("x", "names"))]
    # sub-cones without any primary input (a gate over tie cells only) in front of the output, and a tie cell as the output's operand
    fams.append(("constant-sub-cone-gating-the-output", build({"a": ("input", []), "k1": ("1", []), "k0": ("0", []), "en": ("xor", ["k1", "k0"]), "o": ("and", ["a", "en"])}, outputs=["o"])))
    fams.append(("constant-sub-cone-two-levels", build({"a": ("input", []), "b": ("input", []), "k1": ("1", []), "k0": ("0", []), "e1": ("nor", ["k1", "k0"]), "e2": ("not", ["e1"]), "g": ("or", ["a", "e2"]),
                                                        "o": ("xor", ["g", "b"])}, outputs=["o"])))
    # wide gates of different families over the same nets (the fan-in limiting in front of the decomposition builds helper gates for each)
    for fa_, fb_ in (("and", "or"), ("nand", "xor")):
        I_ = ("input", [])
        fams.append((f"wide-gates-over-the-same-nets::{fa_}-and-{fb_}", build({"x": I_, "y": I_, "z": I_, "p": (fa_, ["x", "y", "z"]), "q": (fb_, ["x", "y", "z"]), "o": ("xor", ["p", "q"])}, outputs=["o"])))
    # two cones sharing logic: the cone of o1 swallows, as interior nodes, a chain of two supergate heads of the other cone (gb <- gc),
    # both fed by tie cells only (dropped from a minimal cover, they have to come back - with everything THEY read)
    fams.append(("chain-of-swallowed-heads-fed-by-tie-cells", build({"x": ("input", []), "y": ("input", []), "t0": ("0", []), "t1": ("1", []), "u0": ("1", []), "u1": ("0", []),
                                                                       "gc": ("xor", ["t0", "t1"]), "gd": ("and", ["u0", "u1"]), "gb": ("and", ["gc", "gd"]), "o2": ("and", ["gb", "x"]),
                                                                       "o1a": ("and", ["gb", "y"]), "o1b": ("or", ["t0", "y"]), "o1": ("or", ["o1a", "o1b"])}, outputs=["o2", "o1"])))
    # a circuit that went through limit_fanin(c, 3) before (an earlier pass with a wider bound must not make the decomposition's own
    # limiting to two inputs skip anything): the result of the repository's own limit_fanin on a 5-input nand and a 6-input xor
    wide_ = build({**{f"i{j_}": ("input", []) for j_ in range(6)}, "w": ("nand", [f"i{j_}" for j_ in range(5)]), "p": ("xor", [f"i{j_}" for j_ in range(6)]), "o": ("or", ["w", "p"])}, outputs=["o"])
    r3_ = P.call(FILE, "limit_fanin", wide_, 3)
    if r3_[0] == "return" and isinstance(r3_[1], RefCircuit):
        fams.append(("result-of-an-earlier-limit_fanin(c, 3)", r3_[1]))
    fams.append(("tie-cell-operand-of-the-output", build({"a": ("input", []), "k1": ("1", []), "o": ("and", ["a", "k1"])}, outputs=["o"])))
    n = 0
    multi_out = [
        ("shared-logic-3-outputs", build({"a": ("input", []), "b": ("input", []), "c": ("input", []), "g0": ("and", ["a", "b"]), "g1": ("or", ["g0", "c"]), "g2": ("nand", ["g1", "a"]),
                                          "g3": ("xor", ["g2", "g0"]), "g4": ("nor", ["g2", "c"])}, outputs=["g3", "g4", "g1"])),
        ("internal-in-one-cone-root-in-another", build({"i0": ("input", []), "i1": ("input", []), "i2": ("input", []), "g0": ("or", ["i0", "i1"]), "g2": ("xor", ["g0", "i2"]),
                                                       "g3": ("xor", ["g2", "i0"]), "g4": ("buf", ["g2"])}, outputs=["g3", "g4"])),
        # a wide gate that is an output and feeds two more outputs: after fan-in limiting its tree is shared by three cones, and the
        # supergates of two cones each contain, as an internal node, a net the other one reads
        ("wide-gate-shared-by-three-outputs", build({"i0": ("input", []), "i1": ("input", []), "i2": ("input", []), "i3": ("input", []), "i4": ("input", []),
                                                     "g0": ("nand", ["i0", "i1", "i2", "i3", "i4"]), "g1": ("nand", ["g0", "i2", "i3", "i4"]), "g2": ("or", ["g0", "i1"])}, outputs=["g0", "g1", "g2"])),
        ("wide-gate-shared-by-two-parity-outputs", build({"i0": ("input", []), "i1": ("input", []), "i2": ("input", []), "i3": ("input", []), "i4": ("input", []),
                                                          "g0": ("nand", ["i0", "i1", "i2", "i3", "i4"]), "g2": ("xor", ["g0", "i0", "i1", "i4"]), "g4": ("xor", ["g0", "i4"]), "g5": ("xnor", ["g4", "i2"])}, outputs=["g2", "g5"])),
        # a block x shared by two outputs: internal to the supergate of the deeper output (the stem p reconverges above x), read as an
        # input by the supergate of the shallower one
        ("shared-block-internal-to-the-deeper-supergate", build({"a": ("input", []), "b": ("input", []), "c": ("input", []), "d": ("input", []), "e": ("input", []), "p": ("and", ["a", "b"]), "q": ("and", ["c", "d"]),
                                                                 "x": ("and", ["p", "q"]), "p_n": ("not", ["p"]), "p_d": ("xor", ["p_n", "e"]), "f": ("or", ["x", "p_d"]), "e_x": ("and", ["x", "e"])}, outputs=["f", "e_x"])),
        ("chain-of-roots", build({"a": ("input", []), "b": ("input", []), "g0": ("nand", ["a", "b"]), "g2": ("not", ["g0"]), "g3": ("and", ["g2", "a"]), "g4": ("or", ["g3", "g2"])}, outputs=["g4", "g3", "g0"])),
    ]
    salts = range(12) if chk.tier == "quick" else range(48)
    from ..pkgenv import FullStackCaller

    FS = FullStackCaller(repo)
    runs = [(f"{name}", c, 0, P) for name, c in fams] + [(f"{name}@order{s}", c, s, P) for name, c in multi_out + [x for x in fams if len(x[1].outputs()) > 1] for s in salts]
    runs += [(f"{name}@full-stack", c, 0, FS) for name, c in multi_out + [x for x in fams if x[0] in ("reconv", "consts", "fanout", "corpus::shared-subtree-under-two-outputs", "corpus::many-outputs-sharing-logic", "corpus::net-and-its-buffer")]]
    for name, c, salt, caller in runs:
        RefCircuit._salt = salt  # explores the iteration orders of the internal *set of circuits*
        snap = c._snapshot()
        r = caller.call(FILE, "supergates", c)
        RefCircuit._salt = 0
        n += 1
        key = f"supergates::{name}"
        if r[0] != "return":
            chk.ob("C17.D.decomposition", key, False, file=FILE, func="supergates", line=fi.node.lineno, fact={"result": str(r)[:160]})
            continue
        prob = check_blocks(caller, c, r[1])  # the fan-in-limited circuit as the same kind of evaluation computes it
        if prob is None and c._snapshot() != snap:
            prob = {"problem": "argument modified"}
        chk.ob("C17.D.decomposition", key, prob is None, file=FILE, func="supergates", line=fi.node.lineno, fact=prob or {"blocks": len(r[1])},
               expect="single-output blocks with the circuit's wiring, topological order, cover of the output cones, pairwise independent inputs")
        if len(c.outputs()) == 1:
            r = caller.call(FILE, "supergates", c, True)
            n += 1
            key = f"supergates::supercircuit::{name}"
            if r[0] != "return":
                chk.ob("C17.D.supercircuit", key, False, file=FILE, func="supergates", line=fi.node.lineno, fact={"result": str(r)[:160]})
            else:
                prob = check_super(caller, c, r[1])
                chk.ob("C17.D.supercircuit", key, prob is None, file=FILE, func="supergates", line=fi.node.lineno, fact=prob or {"blackboxes": len(r[1][1])}, expect="filling every supergate blackbox reproduces an equivalent circuit")
    multi = next(c for k, c in deep_circuits() if k == "reconv")
    r = P.call(FILE, "supergates", multi, True)
    chk.ob("C17.D.supercircuit", "supergates::supercircuit::multi-output rejected", r[0] == "raise" and r[1] == "ValueError", file=FILE, func="supergates", fact={"result": str(r)[:100]}, expect="ValueError")
    from ..stale import circuit_snapshot, stale_state_rule
    from ..minieval import ModelRaise as _MR

    def _mk_call(file_, fname_, *extra):
        def _call(c):
            r = P.call(file_, fname_, c, *extra)
            if r[0] != "return":
                raise _MR(r[1], r[2] if len(r) > 2 else "")
            return r[1]
        return _call

    def _sg_snapshot(blocks):
        return sorted((sorted(b.outputs()), sorted(b.inputs()), sorted((x, b.type(x)) for x in b.nodes())) for b in blocks)

    stale_state_rule(chk, "C17.H.no-stale-state", _mk_call(FILE, "supergates"), _sg_snapshot, FILE, "supergates")
    chk.floor("supergate evaluations", n, 40)
