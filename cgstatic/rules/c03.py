"""
C03 - Verilog write -> read round trip preserves the circuit.

Decided (io.circuit_to_verilog, io.verilog_to_circuit, io.to_file / io.from_file evaluated from
io.py's source by cgstatic's evaluator; the text is parsed with the grammar-as-data + callbacks
driver of C02; an in-memory file model stands in for the file system):
  T   for model circuits covering every gate type at fan-in 1..3, multi-level circuits, constants
      (incl. x), outputs that are inputs or constants, blackbox instances with connected and
      unconnected pins, escaped identifiers - and both styles (gate primitives / assign statements):
      reading back the written text gives the same name, input set, output set, blackbox instances
      (same type, same net on every pin) and the same function at every output and blackbox input
      pin (exhaustive simulation)
  I   without constant nodes the gate-primitive form round-trips to an identical graph (nodes,
      types, edges, output marks)
  F   the same through to_file/from_file for both suffix/format spellings; an unknown suffix or
      format raises ValueError
  A   the writer leaves its argument unchanged
Not decided: circuits outside the model families; real file I/O.
"""
import itertools

from ..minieval import Model, ModelRaise
from ..pkgenv import Package
from ..refmodel import RefBlackBox, RefCircuit, build, free_nodes, simulate
from ..semantic import assignments, deep_circuits, guarded, one_gate_circuits

FILE = "io.py"


def model_circuits():
    for k, c in one_gate_circuits(max_arity=3):
        yield k, c, []
    for k, c in deep_circuits():
        yield k, c, []
    from ..corpus import corpus

    for k, tags, c in corpus("quick"):
        yield f"corpus::{k}", c, []
    # wide gates (the writer may wrap long port lists) and combinational loops (lint does not reject them)
    for t in ("and", "xnor", "nor"):
        for k in (7, 8, 9, 16, 17):
            ins = [f"i{j}" for j in range(k)]
            yield f"wide-{t}{k}", build({**{i_: ("input", []) for i_ in ins}, f"{t}_o": (t, ins), "p": ("not", [f"{t}_o"])}, outputs=[f"{t}_o", "p"], name="wide"), []
    yield "sr-latch", build({"s": ("input", []), "r": ("input", []), "e": ("input", []), "q": ("nor", ["r", "qn"]), "qn": ("nor", ["s", "q"]), "o": ("and", ["q", "e"])}, outputs=["o", "qn"], name="latch"), []
    yield "loop-through-three-gates", build({"a": ("input", []), "g1": ("nand", ["a", "g3"]), "g2": ("not", ["g1"]), "g3": ("or", ["g2", "a"]), "o": ("buf", ["g2"])}, outputs=["o"], name="ring"), []
    yield "const-output", build({"a": ("input", []), "k": ("1", []), "z": ("0", []), "g": ("and", ["a", "k"])}, outputs=["k", "g", "z"], name="co"), []
    yield "x-constant", build({"a": ("input", []), "u": ("x", []), "g": ("or", ["a", "u"])}, outputs=["g"], name="xc"), []
    yield "undriven-gate", build({"a": ("input", []), "f": ("buf", []), "g": ("nand", ["a", "f"])}, outputs=["g"], name="ud"), []
    ff = RefBlackBox("dff", ["clk", "d"], ["q", "qn"])
    yield "blackbox", build({"a": ("input", []), "ck": ("input", []), "u0.clk": ("bb_input", ["ck"]), "u0.d": ("bb_input", ["g"]), "u0.q": ("bb_output", []), "u0.qn": ("bb_output", []),
                             "w": ("buf", ["u0.q"]), "v": ("buf", ["u0.qn"]), "g": ("xor", ["a", "w"]), "o": ("nor", ["w", "v"])}, outputs=["o"], name="bbx", blackboxes={"u0": ff}), [ff]
    yield "blackbox-unconnected", build({"a": ("input", []), "u0.clk": ("bb_input", []), "u0.d": ("bb_input", ["a"]), "u0.q": ("bb_output", []), "u0.qn": ("bb_output", []),
                                         "o": ("buf", ["u0.q"])}, outputs=["o"], name="bbu", blackboxes={"u0": ff}), [ff]
    yield "two-instances", build({"a": ("input", []), "u0.clk": ("bb_input", ["a"]), "u0.d": ("bb_input", ["a"]), "u0.q": ("bb_output", []), "u0.qn": ("bb_output", []), "w": ("buf", ["u0.q"]),
                                  "u1.clk": ("bb_input", ["a"]), "u1.d": ("bb_input", ["w"]), "u1.q": ("bb_output", []), "u1.qn": ("bb_output", []), "o": ("buf", ["u1.q"]), "p": ("buf", ["u0.qn"])},
                                 outputs=["o", "p"], name="bb2", blackboxes={"u0": ff, "u1": ff}), [ff]
    # instance names one of which is the beginning of the others (a register r1, r10, r11): every instance keeps its own pins
    spec_ = {"a": ("input", []), "ck": ("input", [])}
    prev_ = "a"
    for inst_ in ("r1", "r10", "r11", "r1_b"):
        spec_.update({f"{inst_}.clk": ("bb_input", ["ck"]), f"{inst_}.d": ("bb_input", [prev_]), f"{inst_}.q": ("bb_output", []), f"{inst_}.qn": ("bb_output", []), f"w_{inst_}": ("buf", [f"{inst_}.q"])})
        prev_ = f"w_{inst_}"
    yield "instance-names-that-begin-with-another-instance-name", build(spec_, outputs=[prev_, "w_r1"], name="regs", blackboxes={i_: ff for i_ in ("r1", "r10", "r11", "r1_b")}), [ff]
    # one net on two input pins of one instance (set and reset tied together)
    ffrs = RefBlackBox("ffrs", ["d", "r", "s"], ["q"])
    yield "one-net-on-two-input-pins", build({"a": ("input", []), "rst": ("input", []), "u0.d": ("bb_input", ["a"]), "u0.r": ("bb_input", ["rst"]), "u0.s": ("bb_input", ["rst"]), "u0.q": ("bb_output", []),
                                              "o": ("buf", ["u0.q"])}, outputs=["o"], name="tied", blackboxes={"u0": ffrs}), [ffrs]
    # cell types spelled like a primitive keyword in another letter case (Verilog is case sensitive: BUF, Not, NAND are module names)
    for tname in ("BUF", "Not", "NAND", "Xor"):
        cell = RefBlackBox(tname, ["a"], ["y"])
        yield f"blackbox-type-named-{tname}", build({"i": ("input", []), "u0.a": ("bb_input", ["i"]), "u0.y": ("bb_output", []), "o": ("buf", ["u0.y"])}, outputs=["o"], name="kw", blackboxes={"u0": cell}), [cell]
    yield "escaped-net-on-blackbox-pins", build({"\\d[0]": ("input", []), "ck": ("input", []), "u0.clk": ("bb_input", ["ck"]), "u0.d": ("bb_input", ["\\d[0]"]), "u0.q": ("bb_output", []), "u0.qn": ("bb_output", []),
                                                  "\\q[0]": ("buf", ["u0.q"]), "o": ("not", ["\\q[0]"])}, outputs=["o", "\\q[0]"], name="escbb", blackboxes={"u0": ff}), [ff]
    # `$` inside a plain identifier is legal Verilog (the writer emits such names as they are)
    yield "dollar-inside-plain-identifiers", build({"a$1": ("input", []), "b": ("input", []), "n$x": ("nand", ["a$1", "b"]), "o$": ("xor", ["n$x", "a$1"])}, outputs=["o$", "n$x"], name="dollar"), []
    yield "escaped-identifiers-with-a-plain-body", build({"\\en": ("input", []), "en": ("input", []), "\\sum": ("xor", ["\\en", "en"]), "o": ("nand", ["\\sum", "en"])}, outputs=["o", "\\sum"], name="escplain"), []
    yield "escaped-identifiers", build({"\\a[0]": ("input", []), "\\b.x": ("input", []), "\\n$1": ("nand", ["\\a[0]", "\\b.x"]), "o": ("not", ["\\n$1"])}, outputs=["o", "\\n$1"], name="esc"), []
    # an escaped instance name (its pins are written through the instance, under their own names)
    yield "escaped-instance-name", build({"a": ("input", []), "ck": ("input", []), "\\i[0].clk": ("bb_input", ["ck"]), "\\i[0].d": ("bb_input", ["a"]), "\\i[0].q": ("bb_output", []), "\\i[0].qn": ("bb_output", []),
                                          "o": ("buf", ["\\i[0].q"])}, outputs=["o"], name="escinst", blackboxes={"\\i[0]": ff}), [ff]
    # module names that are not made of word characters only: `$` in a plain name, an escaped name
    yield "module-name-with-a-dollar", build({"a": ("input", []), "y": ("not", ["a"])}, outputs=["y"], name="top$1"), []
    yield "escaped-module-name", build({"a": ("input", []), "b": ("input", []), "y": ("nor", ["a", "b"])}, outputs=["y"], name="\\top.1"), []
    # escaped net names in which a keyword follows a character that is not a word character
    yield "escaped-net-names-ending-in-endmodule", build({"a": ("input", []), "\\q-endmodule": ("not", ["a"]), "\\endmodule": ("buf", ["\\q-endmodule"]), "\\x[module": ("and", ["a", "\\endmodule"])},
                                                          outputs=["\\q-endmodule", "\\x[module"], name="esckw"), []
    # no ports at all: a constant feeding a blackbox pin; and a blackbox type without pins
    yield "no-ports", build({"k": ("1", []), "u0.clk": ("bb_input", ["k"]), "u0.d": ("bb_input", ["k"]), "u0.q": ("bb_output", []), "u0.qn": ("bb_output", [])}, outputs=[], name="noports", blackboxes={"u0": ff}), [ff]
    nop = RefBlackBox("nop", [], [])
    yield "blackbox-type-without-pins", build({"a": ("input", []), "y": ("buf", ["a"])}, outputs=["y"], name="nopins", blackboxes={"u0": nop}), [nop]
    yield "output-is-input-and-gate-mix", build({"a": ("input", []), "b": ("input", []), "c": ("input", []), "n": ("nor", ["a", "b", "c"]), "x": ("xnor", ["n", "a"]), "y": ("buf", ["x"]), "i": ("not", ["y"])},
                                                outputs=["a", "i", "n"], name="mix"), []


@guarded
def compare(c, d, identical):
    if d.name != c.name:
        return {"problem": "name differs", "name": d.name, "expected": c.name}
    if d.inputs() != c.inputs():
        return {"problem": "input set differs", "inputs": sorted(d.inputs()), "expected": sorted(c.inputs())}
    if d.outputs() != c.outputs():
        return {"problem": "output set differs", "outputs": sorted(d.outputs()), "expected": sorted(c.outputs())}
    if set(d.blackboxes) != set(c.blackboxes) or any(d.blackboxes[k] is not c.blackboxes[k] for k in c.blackboxes):
        return {"problem": "blackbox instances differ", "instances": sorted(d.blackboxes), "expected": sorted(c.blackboxes)}
    for inst, bb in c.blackboxes.items():
        for pin in bb.inputs():
            pn = f"{inst}.{pin}"
            if pn not in d or d.type(pn) != "bb_input" or d.fanin(pn) != c.fanin(pn):
                return {"problem": "blackbox input pin attached to a different net", "pin": pn, "net": sorted(d.fanin(pn)) if pn in d else None, "expected": sorted(c.fanin(pn))}
        for pin in bb.outputs():
            pn = f"{inst}.{pin}"
            if pn not in d or d.type(pn) != "bb_output" or d.fanout(pn) != c.fanout(pn):
                return {"problem": "blackbox output pin attached to a different net", "pin": pn, "net": sorted(d.fanout(pn)) if pn in d else None, "expected": sorted(c.fanout(pn))}
    if identical:
        if set(d.nodes()) != set(c.nodes()):
            return {"problem": "graph not identical: node sets differ", "extra": sorted(set(d.nodes()) - set(c.nodes())), "missing": sorted(set(c.nodes()) - set(d.nodes()))}
        for n in c.nodes():
            if d.type(n) != c.type(n) or d.fanin(n) != c.fanin(n) or d.is_output(n) != c.is_output(n):
                return {"problem": "graph not identical", "node": n, "type": d.type(n), "fanin": sorted(d.fanin(n)), "expected_type": c.type(n), "expected_fanin": sorted(c.fanin(n))}
    # function at every output and blackbox input pin
    has_x = any(c.type(n) == "x" for n in c.nodes())
    fc, fd = set(free_nodes(c)), set(free_nodes(d))
    if fc != fd:
        return {"problem": "free signals differ (a net became undriven or driven)", "free": sorted(fd), "expected": sorted(fc)}
    if has_x:
        return None
    if not c.graph.is_dag() or not d.graph.is_dag():
        # cyclic: same consistent valuations, projected onto the original nodes (brute force over all node values)
        from ..satpipe import consistent_valuations

        if len(d.nodes()) > 14:
            return None if identical else {"problem": "cyclic circuit too large to compare after a non-identical round trip", "nodes": len(d.nodes())}
        nodes = sorted(c.nodes())
        if not set(nodes) <= set(d.nodes()):
            return {"problem": "nodes lost in the round trip", "missing": sorted(set(nodes) - set(d.nodes()))}
        pc = {tuple(v[n] for n in nodes) for v in consistent_valuations(c)}
        pd = {tuple(v[n] for n in nodes) for v in consistent_valuations(d)}
        return None if pc == pd else {"problem": "consistent valuations of the cyclic circuit differ after the round trip", "only_original": len(pc - pd), "only_read_back": len(pd - pc)}
    if len(fc) > 10:
        if identical:
            return None  # an identical graph computes the same function; too wide to enumerate
        # wide gates through the assign style: weight 0 / 1 / 2 / n-1 / n input vectors
        fl = sorted(fc)
        vecs = [dict.fromkeys(fl, False), dict.fromkeys(fl, True)]
        for i_ in range(len(fl)):
            vecs.append({**dict.fromkeys(fl, False), fl[i_]: True})
            vecs.append({**dict.fromkeys(fl, True), fl[i_]: False})
            if i_ + 1 < len(fl):
                vecs.append({**dict.fromkeys(fl, False), fl[i_]: True, fl[i_ + 1]: True})
        assign_iter = vecs
    else:
        assign_iter = assignments(sorted(fc))
    obs = sorted(c.outputs() | c.filter_type("bb_input"))
    for a in assign_iter:
        vc, vd = simulate(c, a), simulate(d, a)
        for n in obs:
            if vc[n] != vd[n]:
                return {"problem": "function differs after the round trip", "node": n, "assignment": a, "value": vd[n], "expected": vc[n]}
    return None


class MemFS(Model):
    def __init__(self):
        self.files = {}
        self.mtime = {}
        self._clock = 0

    def touch(self, path):
        # modification times advance in whole seconds only every other write: two quick writes can share a timestamp
        self._clock += 1
        self.mtime[path] = self._clock // 2

    def open(self, path, mode="r"):
        return MemFile(self, str(path), mode)


class MemFile(Model):
    def __init__(self, fs, path, mode):
        self._fs, self._path, self._mode = fs, path, mode
        if "w" in mode:
            fs.files[path] = ""
            fs.touch(path)
        elif path not in fs.files:
            raise ModelRaise("FileNotFoundError", path)

    def write(self, s):
        self._fs.files[self._path] += s

    def read(self):
        return self._fs.files[self._path]

    def __enter__(self):
        return self

    def __exit__(self, *a):
        return False


class MStat(Model):
    def __init__(self, size, mtime):
        self.st_size = size
        self.st_mtime = mtime
        self.st_mtime_ns = mtime * 1000000000


class MPath(Model):
    """pathlib.Path over the in-memory file system (`_fs` is set by the rule); equal and hashing equal when the paths are."""

    _fs = None

    def __init__(self, *parts):
        self._p = "/".join(str(x) for x in parts).replace("//", "/") if parts else "."

    def __eq__(self, o):
        return isinstance(o, MPath) and o._p == self._p

    def __hash__(self):
        return hash(("MPath", self._p))

    def __fspath__(self):
        return self._p

    def __truediv__(self, other):
        return MPath(self._p, other)

    @property
    def name(self):
        return self._p.rsplit("/", 1)[-1]

    @property
    def parent(self):
        return MPath(self._p.rsplit("/", 1)[0] if "/" in self._p else ".")

    def with_suffix(self, suf):
        base = self._p.rsplit(".", 1)[0] if "." in self.name else self._p
        return MPath(base + suf)

    def exists(self):
        return self._p in self._fs.files

    is_file = exists

    def stat(self):
        if self._p not in self._fs.files:
            raise ModelRaise("FileNotFoundError", self._p)
        return MStat(len(self._fs.files[self._p]), self._fs.mtime.get(self._p, 0))

    def read_text(self, *a, **k):
        if self._p not in self._fs.files:
            raise ModelRaise("FileNotFoundError", self._p)
        return self._fs.files[self._p]

    def write_text(self, text, *a, **k):
        self._fs.files[self._p] = text
        self._fs.touch(self._p)
        return len(text)

    def open(self, mode="r", *a, **k):
        return self._fs.open(self._p, mode)

    @property
    def stem(self):
        base = self._p.rsplit("/", 1)[-1]
        return base.rsplit(".", 1)[0] if "." in base else base

    @property
    def suffix(self):
        base = self._p.rsplit("/", 1)[-1]
        return "." + base.rsplit(".", 1)[1] if "." in base else ""

    def __str__(self):
        return self._p


def run(chk):
    repo = chk.repo
    chk.explanation = ("io.circuit_to_verilog and the reader are evaluated from source by the checker's evaluator on model circuits in both styles; the text is parsed with the grammar-as-data driver; "
                       "name / io sets / blackbox pins / function (exhaustive simulation) / graph identity are compared; to_file/from_file through an in-memory file model.")
    chk.assume("the C02 driver reproduces lark.Transformer; the in-memory file model stands in for open()/Path")
    from ..core import type_vocabulary
    from ..structural import dispatch_rule, vocabulary_rule

    vocabulary_rule(chk, repo, "C03.S.vocabulary", [(FILE, "circuit_to_verilog")])
    dispatch_rule(chk, repo, "C03.S.dispatch", FILE, "circuit_to_verilog", set(type_vocabulary(repo)["supported_types"]), min_branches=3)
    P = Package(repo)
    fw = repo.func(FILE, "circuit_to_verilog")
    n = 0
    for name, c, bbs in model_circuits():
        has_const = any(c.type(x) in ("0", "1", "x") for x in c.nodes())
        for behavioral in (False, True):
            snap = c._snapshot()
            r = P.call(FILE, "circuit_to_verilog", c, behavioral)
            n += 1
            key = f"roundtrip::{name}::{'assign' if behavioral else 'primitives'}"
            if r[0] != "return" or not isinstance(r[1], str):
                chk.ob("C03.T.roundtrip", key, False, file=FILE, func="circuit_to_verilog", line=fw.node.lineno, fact={"writer_result": str(r)[:200]})
                continue
            text = r[1]
            if c._snapshot() != snap:
                chk.ob("C03.A.writer-leaves-argument", key, False, file=FILE, func="circuit_to_verilog", line=fw.node.lineno, fact={"problem": "the circuit passed to the writer was modified"})
            r2 = P.call(FILE, "verilog_to_circuit", text, c.name, False, bbs)
            if r2[0] != "return" or not isinstance(r2[1], RefCircuit):
                chk.ob("C03.T.roundtrip", key, False, file=FILE, func="circuit_to_verilog", line=fw.node.lineno, fact={"problem": "the written text is rejected by the reader", "reader": str(r2)[:200], "text": text[:300]},
                       expect="the reader accepts what the writer emits")
                continue
            prob = compare(c, r2[1], identical=False)
            chk.ob("C03.T.roundtrip", key, prob is None, file=FILE, func="circuit_to_verilog", line=fw.node.lineno, fact=prob or {"nodes": len(c.nodes())},
                   expect="same name, inputs, outputs, blackbox pins and function")
            if not behavioral and not has_const:
                prob = compare(c, r2[1], identical=True)
                chk.ob("C03.I.identical-graph", f"roundtrip::{name}::primitives", prob is None, file=FILE, func="circuit_to_verilog", line=fw.node.lineno, fact=prob or {"nodes": len(c.nodes())},
                       expect="identical nodes, types, edges and output marks (no constant nodes, gate-primitive form)")
    # the same round trip with the repository's own Circuit class underneath the writer and the reader (add_blackbox, relabel, add ... are
    # circuit.py's code then): models with blackbox instances and escaped names
    from ..pkgenv import FullStackCaller, to_full

    FS = FullStackCaller(repo)
    for name, c, bbs in model_circuits():
        if not (c.blackboxes or name in ("escaped-identifiers-with-a-plain-body", "output-is-input-and-gate-mix", "reconv")):
            continue
        for behavioral in (False, True):
            key = f"roundtrip::{name}::{'assign' if behavioral else 'primitives'}@full-stack"
            n += 1
            r = FS.call(FILE, "circuit_to_verilog", c, behavioral)
            if r[0] != "return" or not isinstance(r[1], str):
                chk.ob("C03.T.roundtrip", key, False, file=FILE, func="circuit_to_verilog", line=fw.node.lineno, fact={"writer_result": str(r)[:200]})
                continue
            try:
                full_bbs = [FS.P.cg.BlackBox(b.name, sorted(b.inputs()), sorted(b.outputs())) for b in bbs]
            except ModelRaise as e_:
                chk.ob("C03.T.roundtrip", key, False, file=FILE, func="BlackBox", fact={"problem": str(e_)[:120]})
                continue
            r2 = FS.call(FILE, "verilog_to_circuit", r[1], c.name, False, full_bbs)
            if r2[0] != "return" or not isinstance(r2[1], RefCircuit):
                chk.ob("C03.T.roundtrip", key, False, file=FILE, func="circuit_to_verilog", line=fw.node.lineno, fact={"problem": "the written text is rejected by the reader", "reader": str(r2)[:200]})
                continue
            d = r2[1]
            # (the reference objects handed back carry their own BlackBox objects: compare the instances by type name and pins)
            prob = None
            if {k_: (b_.name, sorted(b_.inputs()), sorted(b_.outputs())) for k_, b_ in d.blackboxes.items()} != {k_: (b_.name, sorted(b_.inputs()), sorted(b_.outputs())) for k_, b_ in c.blackboxes.items()}:
                prob = {"problem": "blackbox instances differ", "instances": sorted(d.blackboxes)}
            else:
                d2 = RefCircuit(graph=d.graph, name=d.name, blackboxes=dict(c.blackboxes))
                prob = compare(c, d2, identical=False)
            chk.ob("C03.T.roundtrip", key, prob is None, file=FILE, func="circuit_to_verilog", line=fw.node.lineno, fact=prob or {"nodes": len(c.nodes())},
                   expect="same name, inputs, outputs, blackbox pins and function (circuit.py's own class underneath)")
    from ..stale import circuit_snapshot, stale_state_rule
    from ..minieval import ModelRaise as _MR

    def _mk_call(file_, fname_, *extra):
        def _call(c):
            r = P.call(file_, fname_, c, *extra)
            if r[0] != "return":
                raise _MR(r[1], r[2] if len(r) > 2 else "")
            return r[1]
        return _call

    for beh in (False, True):
        stale_state_rule(chk, "C03.H.no-stale-state", _mk_call(FILE, "circuit_to_verilog", beh), str, FILE, "circuit_to_verilog")
    # a read does not depend on the reads made before it in the same process (names the reader gave to sub-expressions of an earlier
    # text - and_a_b of `~(a & b)`, either operand order - must not be remembered): a circuit whose own nets carry such names, round
    # tripped in behavioural form after other texts were read, against the same round trip in a fresh environment
    from ..refmodel import build as _bld

    later = _bld({"and_a_b": ("input", []), "and_b_a": ("input", []), "xor_a_b": ("input", []), "x": ("buf", ["and_a_b"]), "y": ("buf", ["and_b_a"]), "z": ("buf", ["xor_a_b"]),
                  "o": ("nand", ["x", "y", "z"])}, outputs=["o", "x"], name="later")
    first_text = "module first (a, b, c, n, m);\n  input a, b, c;\n  output n, m;\n  assign n = ~(a & b);\n  assign m = a ^ b ^ c;\nendmodule\n"
    PH = Package(repo)
    prob = None
    r0 = PH.call(FILE, "verilog_to_circuit", first_text, "first")
    txt = PH.call(FILE, "circuit_to_verilog", later, True)
    fresh = Package(repo)
    txt2 = fresh.call(FILE, "circuit_to_verilog", later, True)
    if r0[0] != "return" or txt[0] != "return" or txt2[0] != "return":
        prob = {"problem": "cannot be carried out", "first_read": str(r0)[:80], "write": str(txt)[:80]}
    else:
        got = PH.call(FILE, "verilog_to_circuit", txt[1], "later")
        want = fresh.call(FILE, "verilog_to_circuit", txt2[1], "later")
        if got[0] != "return" or want[0] != "return" or got[1]._snapshot() != want[1]._snapshot():
            prob = {"problem": "the read differs from the same read in a fresh environment", "inputs": sorted(got[1].inputs()) if got[0] == "return" else str(got)[:100],
                    "inputs_in_a_fresh_environment": sorted(want[1].inputs()) if want[0] == "return" else str(want)[:100]}
    chk.ob("C03.H.no-state-between-reads", "behavioural text with nested expressions read first, then a circuit with nets named like its sub-expressions", prob is None, file="parsing/verilog.py",
           func="_VerilogCircuitGraphTransformer", fact=prob or {"reads": 2}, expect="the second read equals the same read in a fresh environment")
    # ---- F: to_file / from_file -------------------------------------------
    fs = MemFS()
    env_io = P.env(FILE)
    env_io["open"] = fs.open
    env_io["Path"] = MPath
    MPath._fs = fs
    picks = [x for x in model_circuits() if x[0] in ("reconv", "blackbox", "xnor3", "output-is-input-and-gate-mix")]
    for name, c, bbs in picks:
        for path, wfmt, rfmt, beh in ((f"/mem/{c.name}.v", "verilog", None, False), (f"/mem/{c.name}.v", "verilog", None, True), (f"/mem/{c.name}.txt", "verilog", "verilog", False),
                                      # the explicit format wins over a known extension (documented: "overrides the extension")
                                      (f"/mem/{c.name}.bench", "verilog", "verilog", False),
                                      # the file is not named after the module: from_file(path) infers the module and must keep *its* name
                                      (f"/mem/saved_copy_of_it.v", "verilog", None, False), (f"/mem/dir.d/{c.name}_2.v", "verilog", None, True),
                                      # a file name that is not a word (it is tried as the module name first)
                                      (f"/mem/x[1.v", "verilog", None, False), (f"/mem/a(b+.v", "verilog", None, True)):
            r = P.call(FILE, "to_file", c, path, wfmt, beh)
            n += 1
            key = f"file::{name}::{path.rsplit('/', 1)[1].replace(c.name, '<name>')}::{'assign' if beh else 'primitives'}"
            if r[0] != "return" or path not in fs.files:
                chk.ob("C03.F.files", key, False, file=FILE, func="to_file", fact={"result": str(r)[:160]})
                continue
            r2 = P.call(FILE, "from_file", path, None, rfmt, bbs)
            if r2[0] != "return" or not isinstance(r2[1], RefCircuit):
                chk.ob("C03.F.files", key, False, file=FILE, func="from_file", fact={"reader": str(r2)[:200]})
                continue
            has_const = any(c.type(x) in ("0", "1", "x") for x in c.nodes())
            prob = compare(c, r2[1], identical=(not beh and not has_const))
            chk.ob("C03.F.files", key, prob is None, file=FILE, func="to_file/from_file", fact=prob or {"bytes": len(fs.files[path])}, expect="round trip through to_file/from_file preserves the circuit")
    # one path written and read several times in one process, the texts having the same length and (half of the time) the same
    # modification time: every read returns what was written last
    same_len = {t_: build({"a": ("input", []), "b": ("input", []), "n1": (t_, ["a", "b"]), "o": ("buf", ["n1"])}, outputs=["o"], name="same") for t_ in ("and", "xor", "nor", "or_")[:3]}
    MPath._fs = fs
    prob = None
    for t_, cc in same_len.items():
        r = P.call(FILE, "to_file", cc, "/mem/reused.v")
        r2 = P.call(FILE, "from_file", "/mem/reused.v")
        n += 1
        if r[0] != "return" or r2[0] != "return" or not isinstance(r2[1], RefCircuit):
            prob = {"problem": "write / read fails", "write": str(r)[:80], "read": str(r2)[:80]}
            break
        if "n1" not in r2[1]:
            prob = {"problem": "the circuit read back lacks the gate that was written", "nodes": sorted(r2[1].nodes())}
            break
        if r2[1].type("n1") != t_:
            prob = {"problem": "from_file returned an earlier content of the same path", "written": t_, "read_back": r2[1].type("n1"), "text_lengths": "equal"}
            break
    chk.ob("C03.F.files", "file::one path rewritten with texts of equal length", prob is None, file=FILE, func="to_file/from_file", fact=prob or {"writes": len(same_len)}, expect="every read returns the circuit written last")
    c = picks[0][1]
    r = P.call(FILE, "to_file", c, "/mem/x.v", "vhdl")
    chk.ob("C03.F.files", "to_file::unknown format rejected", r[0] == "raise" and r[1] == "ValueError", file=FILE, func="to_file", fact={"result": str(r)[:100]}, expect="ValueError")
    fs.files["/mem/y.edif"] = "x"
    r = P.call(FILE, "from_file", "/mem/y.edif")
    chk.ob("C03.F.files", "from_file::unknown suffix rejected", r[0] == "raise" and r[1] == "ValueError", file=FILE, func="from_file", fact={"result": str(r)[:100]}, expect="ValueError")
    chk.floor("round trips", n, 60)
