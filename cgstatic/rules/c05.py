"""
C05 - fan-in / fan-out limiting and register insertion preserve function.

Decided:
  T   (syntactic, arity independent) limit_fanin's helper-gate table maps every multi-input type to
      its non-inverting base (and,nand->and; or,nor->or; xor,xnor->xor): T(a,b,rest)=T(base(a,b),rest)
      holds for every arity iff the helper is the base; keys == the multi-input types
  S   (template evaluation) limit_fanin / limit_fanout / insert_registers / acyclic_unroll evaluated
      by cgstatic's evaluator over the reference Circuit model on families of model circuits
      (every gate type at arity 1..5, multi-level circuits with reconvergence/constants/wide
      fan-out): same inputs and outputs, the bound k holds at every node, every original node keeps
      its function (exhaustive truth tables), k < 2 raises; inserted flops replaced by d->q wires
      give an equivalent circuit; acyclic_unroll of an acyclic circuit is equivalent
Not decided: behaviour on circuits larger than the model families; depth selection arithmetic of
insert_registers beyond what the families exercise.
"""
import ast

from ..astutil import local_assignments, walk_no_nested
from ..core import AnalysisError, ConstEnv, norm
from ..pkgenv import Package
from ..refmodel import RefBlackBox, RefCircuit, build, free_nodes, simulate
from ..semantic import guarded, assignments, deep_circuits, one_gate_circuits, two_level_circuits, values_table
from ..typetables import BASE_OF, MULTI_FANIN, reference_partition

FILE = "tx.py"


@guarded
def same_function(c_old, c_new, nodes, extra_free=None):
    """Every node of `nodes` has the same value in both circuits for every assignment of c_old's free nodes."""
    fr = free_nodes(c_old)
    fr_new = free_nodes(c_new)
    extra = [n for n in fr_new if n not in fr]
    for a in assignments(fr):
        v_old = simulate(c_old, a)
        for b in assignments(extra):
            full = dict(a)
            full.update(b)
            v_new = simulate(c_new, full)
            for n in nodes:
                if n not in v_new:
                    return {"problem": "node missing in result", "node": n}
                if v_old[n] != v_new[n]:
                    return {"problem": "function changed", "node": n, "assignment": a, "old": v_old[n], "new": v_new[n]}
    return None


def run(chk):
    repo = chk.repo
    reference_partition(repo)
    chk.explanation = (
        "Helper-gate table of limit_fanin compared with the algebraic base-gate table (arity independent); limit_fanin/limit_fanout/insert_registers/acyclic_unroll "
        "evaluated by the checker's evaluator over the reference Circuit model on exhaustive families of small model circuits and compared by truth table."
    )
    chk.assume("reference Circuit model (refmodel.RefCircuit) implements the documented Circuit API semantics; set iteration order in the evaluator is Python's")
    P = Package(repo)

    # ---- T: helper gate table (syntactic) ------------------------------
    fi = repo.func(FILE, "limit_fanin")
    table = None
    tline = None
    for n in walk_no_nested(fi.node):
        if isinstance(n, ast.Dict) and n.keys and all(isinstance(k, ast.Constant) and isinstance(k.value, str) for k in n.keys) and {k.value for k in n.keys} & MULTI_FANIN:
            try:
                table = {k.value: ConstEnv(repo, FILE).eval(v) for k, v in zip(n.keys, n.values)}
            except ValueError:
                raise AnalysisError("limit_fanin: helper-gate table is not a literal dict", FILE, n.lineno)
            tline = n.lineno
    if table is not None:
        chk.ob("C05.T.helper-table-keys", "limit_fanin::gatemap keys", set(table) >= MULTI_FANIN, file=FILE, func="limit_fanin", line=tline, fact={"keys": sorted(table)}, expect=sorted(MULTI_FANIN))
        for t in sorted(MULTI_FANIN):
            if t in table:
                chk.ob("C05.T.helper-is-base", f"limit_fanin::gatemap[{t!r}]", table[t] == BASE_OF[t], file=FILE, func="limit_fanin", line=tline,
                       fact={"type": t, "helper": table[t]}, expect=f"{BASE_OF[t]} (non-inverting base: {t}(a,b,rest) == {t}({BASE_OF[t]}(a,b),rest) for every arity)")
    else:
        chk.note("limit_fanin has no literal helper-gate table; only the template evaluation decides the helper gate")

    # ---- S: template evaluation ----------------------------------------
    fams = list(one_gate_circuits(max_arity=5)) + list(deep_circuits())
    if chk.tier == "thorough":
        fams += list(two_level_circuits())
    else:
        fams += list(two_level_circuits(limit=60))
    # wide gates of different families over the very same nets (a helper gate shared between them must be of the right family)
    for fa_, fb_ in (("and", "or"), ("nand", "xor"), ("nor", "and"), ("xnor", "or")):
        I_ = ("input", [])
        fams.append((f"same-nets::{fa_}-and-{fb_}", build({"x": I_, "y": I_, "z": I_, "w": I_, "p": (fa_, ["x", "y", "z", "w"]), "q": (fb_, ["x", "y", "z", "w"]), "r": (fa_, ["x", "y", "z"]), "o": ("xor", ["p", "q", "r"])},
                                                        outputs=["o", "p", "q"])))
    n_eval = 0
    # second pass over the repository's own Circuit class (full stack) for a subset: the transforms' queries and edits then run
    # circuit.py's code instead of the reference model's
    from ..pkgenv import FullStackCaller

    FS = FullStackCaller(repo)
    fs_subset = [(f"{k_}@full-stack", c_, FS) for k_, c_ in fams if k_ in ("reconv", "consts", "fanout", "in-is-out", "xnor5", "nand4", "or3", "xor4") or k_.startswith("t2::") and k_.endswith(("::7", "::21", "::40"))]
    for kname, c, caller in [(k_, c_, P) for k_, c_ in fams] + fs_subset:
        for k in (2, 3):
            snap = c._snapshot()
            r = caller.call(FILE, "limit_fanin", c, k)
            n_eval += 1
            key = f"limit_fanin::{kname}::k={k}"
            if r[0] != "return" or not isinstance(r[1], RefCircuit):
                chk.ob("C05.S.limit_fanin", key, False, file=FILE, func="limit_fanin", line=fi.node.lineno, fact={"result": str(r)[:200]})
                continue
            ck = r[1]
            prob = None
            if ck.inputs() != c.inputs() or ck.outputs() != c.outputs():
                prob = {"problem": "inputs/outputs changed", "inputs": sorted(ck.inputs()), "outputs": sorted(ck.outputs())}
            worst = max(len(ck.fanin(n)) for n in ck.nodes())
            if prob is None and worst > k:
                prob = {"problem": "fan-in bound exceeded", "max_fanin": worst}
            if prob is None and ck is c:
                prob = {"problem": "returned its argument"}
            if prob is None and c._snapshot() != snap:
                prob = {"problem": "argument modified"}
            if prob is None:
                prob = same_function(c, ck, sorted(c.nodes()))
            chk.ob("C05.S.limit_fanin", key, prob is None, file=FILE, func="limit_fanin", line=fi.node.lineno, fact=prob or {"nodes": len(ck.nodes()), "max_fanin": worst},
                   expect="same inputs/outputs, fan-in <= k everywhere, every original node computes the same function")
    fo = repo.func(FILE, "limit_fanout")
    # a heavily loaded driver of every kind: input, constant 0 / 1, gate, inverter, a driver that is itself an output
    fanout_models = []
    for dname, dspec in (("input", ("input", [])), ("const0", ("0", [])), ("const1", ("1", [])), ("gate", ("nand", ["a", "b"])), ("inverter", ("not", ["a"]))):
        for nl, as_out in ((4, False), (5, True)):
            spec = {"a": ("input", []), "b": ("input", []), "drv": dspec}
            for i in range(nl):
                spec[f"l{i}"] = (["and", "or", "xor", "nand", "nor"][i % 5], ["drv", "a" if i % 2 else "b"])
            spec["o"] = ("xor", [f"l{i}" for i in range(nl)])
            fanout_models.append((f"fanout::{dname}-drives-{nl}" + ("-and-is-an-output" if as_out and dname != "input" else ""), build(spec, outputs=["o"] + (["drv"] if as_out and dname != "input" else []))))
    # a net whose loads are all buffers (a signal exported on several output buffers, an input distributed through branch buffers)
    for dname, dspec in (("input", ("input", [])), ("gate", ("xor", ["a", "b"]))):
        spec = {"a": ("input", []), "b": ("input", []), "drv": dspec}
        for i in range(6):
            spec[f"e{i}"] = ("buf", ["drv"])
        spec["o"] = ("and", ["e4", "e5", "a"])
        fanout_models.append((f"fanout::{dname}-drives-six-buffers-only", build(spec, outputs=["o", "e0", "e1", "e2", "e3"])))
    # blackbox input pins are loads like any other: one net on the clock pin of five flops (and on a gate)
    ffm_ = RefBlackBox("ff", ["clk", "d"], ["q"])
    spec = {"ck": ("input", []), "a": ("input", []), "b": ("input", []), "en": ("and", ["ck", "a"])}
    for i in range(5):
        spec.update({f"r{i}.clk": ("bb_input", ["ck"]), f"r{i}.d": ("bb_input", ["a" if i % 2 else "b"]), f"r{i}.q": ("bb_output", []), f"q{i}": ("buf", [f"r{i}.q"])})
    spec["o"] = ("xor", [f"q{i}" for i in range(5)] + ["en"])
    fanout_models.append(("fanout::net-on-the-clock-pin-of-five-flops", build(spec, outputs=["o"], blackboxes={f"r{i}": ffm_ for i in range(5)})))
    for kname, c, caller in [(k_, c_, P) for k_, c_ in fams + fanout_models] + fs_subset + [(f"{k_}@full-stack", c_, FS) for k_, c_ in fanout_models[::3]]:
        if max(len(c.fanout(n)) for n in c.nodes()) < 3 and not kname.startswith(("fanout", "reconv", "wide")):
            continue
        for k in (2, 3):
            snap = c._snapshot()
            r = caller.call(FILE, "limit_fanout", c, k)
            n_eval += 1
            key = f"limit_fanout::{kname}::k={k}"
            if r[0] != "return" or not isinstance(r[1], RefCircuit):
                chk.ob("C05.S.limit_fanout", key, False, file=FILE, func="limit_fanout", line=fo.node.lineno, fact={"result": str(r)[:200]})
                continue
            ck = r[1]
            prob = None
            if ck.inputs() != c.inputs() or ck.outputs() != c.outputs():
                prob = {"problem": "inputs/outputs changed"}
            worst = max(len(ck.fanout(n)) for n in ck.nodes())
            if prob is None and worst > k:
                prob = {"problem": "fan-out bound exceeded", "max_fanout": worst}
            if prob is None and c._snapshot() != snap:
                prob = {"problem": "argument modified"}
            if prob is None:
                prob = same_function(c, ck, sorted(c.nodes()))
            chk.ob("C05.S.limit_fanout", key, prob is None, file=FILE, func="limit_fanout", line=fo.node.lineno, fact=prob or {"nodes": len(ck.nodes()), "max_fanout": worst},
                   expect="same inputs/outputs, fan-out <= k everywhere, every original node computes the same function")
    # the visiting order of `ck.nodes()` is a set-iteration order: explore it through renamings of one model
    base = {"a": ("input", []), "b": ("input", []), "d": ("and", ["a", "b"]), "x": ("not", ["d"]), "bf": ("buf", ["d"]), "l1": ("not", ["bf"]), "l2": ("buf", ["bf"]), "l3": ("nand", ["bf", "a"]),
            "l4": ("nor", ["bf", "b"]), "o": ("xor", ["l1", "l2", "l3", "l4", "x"])}
    pools = [["n%d" % i for i in range(10)], list("pqrstuvwxy"), ["k%d_" % (i * 7) for i in range(10)], ["zz", "a1", "m", "b7", "c", "q9", "e", "w2", "g", "h0"]]
    import itertools as _it

    namings = []
    for pool in pools:
        for rot in range(0, 10, 2 if chk.tier == "quick" else 1):
            names = pool[rot:] + pool[:rot]
            namings.append(dict(zip(base, names)))
    for i, ren in enumerate(namings):
        spec = {ren[n]: (t, [ren[f] for f in fi]) for n, (t, fi) in base.items()}
        c = build(spec, outputs=[ren["o"]])
        for fname, attr in (("limit_fanout", "fanout"), ("limit_fanin", "fanin")):
            r = P.call(FILE, fname, c, 2)
            n_eval += 1
            key = f"{fname}::buffer-behind-loaded-driver::naming{i}"
            if r[0] != "return":
                chk.ob(f"C05.S.{fname}", key, False, file=FILE, func=fname, fact={"result": str(r)[:160]})
                continue
            ck = r[1]
            worst = max(len(getattr(ck, attr)(n)) for n in ck.nodes())
            prob = {"problem": f"{attr} bound exceeded", "max": worst, "naming": ren} if worst > 2 else same_function(c, ck, sorted(c.nodes()))
            chk.ob(f"C05.S.{fname}", key, prob is None, file=FILE, func=fname, fact=prob or {"max": worst}, expect="bound holds at every node and every original node keeps its function, for every visiting order")
    # the shared corner-case corpus (feed-through ports, constants, shared operands, adversarial names ...)
    from ..corpus import corpus

    for cname_, tags, c in corpus(chk.tier, exclude=("x",)):
        for fname, attr in (("limit_fanin", "fanin"), ("limit_fanout", "fanout")):
            r = P.call(FILE, fname, c, 2)
            n_eval += 1
            key = f"{fname}::corpus::{cname_}"
            if r[0] == "raise" and r[1] == "ValueError" and "names" in tags:
                continue  # a clash with a helper-style name that is rejected loudly is not a wrong result
            if r[0] != "return":
                chk.ob(f"C05.S.{fname}", key, False, file=FILE, func=fname, fact={"result": str(r)[:160]})
                continue
            ck = r[1]
            worst = max(len(getattr(ck, attr)(n)) for n in ck.nodes())
            prob = {"problem": f"{attr} bound exceeded", "max": worst} if worst > 2 else None
            if prob is None and (ck.inputs() != c.inputs() or ck.outputs() != c.outputs()):
                prob = {"problem": "inputs/outputs changed"}
            prob = prob or same_function(c, ck, sorted(c.nodes()))
            chk.ob(f"C05.S.{fname}", key, prob is None, file=FILE, func=fname, fact=prob or {"max": worst}, expect="bound holds, io unchanged, every original node keeps its function")
    # helper names that already exist: a second pass with a smaller k, and a circuit that owns such a name
    wide = [c for k_, c in fams if k_ in ("xnor5", "nand5", "or5", "wide")]
    for c in wide:
        r1 = P.call(FILE, "limit_fanin", c, 4)
        if r1[0] != "return":
            continue
        for k2 in (2, 3):
            r2 = P.call(FILE, "limit_fanin", r1[1], k2)
            n_eval += 1
            key = f"limit_fanin::second pass::{c.name}:{sorted(c.outputs())}::k=4 then {k2}"
            if r2[0] != "return":
                chk.ob("C05.S.limit_fanin", key, False, file=FILE, func="limit_fanin", fact={"result": str(r2)[:160]})
                continue
            ck = r2[1]
            worst = max(len(ck.fanin(n)) for n in ck.nodes())
            prob = {"problem": "fan-in bound exceeded", "max_fanin": worst} if worst > k2 else ({"problem": "result is cyclic"} if ck.is_cyclic() else same_function(c, ck, sorted(c.nodes())))
            chk.ob("C05.S.limit_fanin", key, prob is None, file=FILE, func="limit_fanin", fact=prob or {"max_fanin": worst}, expect="a second pass keeps every original function")
    # wide gates that no primary output observes: dead logic, the next-state logic of a flop, a circuit without outputs - "no gate
    # has more than k fan-in" speaks of every gate
    from ..refmodel import RefBlackBox as _RBB2

    _ffu = _RBB2("ff", ["d"], ["q"])
    unobserved = {
        "dead wide gate": build({"a": ("input", []), "b": ("input", []), "c": ("input", []), "d": ("input", []), "dead": ("nand", ["a", "b", "c", "d"]), "o": ("and", ["a", "b"])}, outputs=["o"]),
        "no outputs at all": build({"a": ("input", []), "b": ("input", []), "c": ("input", []), "g": ("xor", ["a", "b", "c"]), "h": ("or", ["g", "a", "b", "c"])}, outputs=[]),
        "next-state logic of a flop": build({"a": ("input", []), "b": ("input", []), "c": ("input", []), "ns": ("nor", ["a", "b", "c", "w"]), "u.d": ("bb_input", ["ns"]), "u.q": ("bb_output", []), "w": ("buf", ["u.q"]),
                                              "o": ("not", ["a"])}, outputs=["o"], blackboxes={"u": _ffu}),
    }
    for uname, cu_ in unobserved.items():
        for k in (2, 3):
            r = P.call(FILE, "limit_fanin", cu_, k)
            n_eval += 1
            key = f"limit_fanin::{uname}::k={k}"
            if r[0] != "return":
                chk.ob("C05.S.limit_fanin", key, False, file=FILE, func="limit_fanin", fact={"result": str(r)[:160]})
                continue
            ck = r[1]
            worst = max(len(ck.fanin(n_)) for n_ in ck.nodes())
            prob = {"problem": "fan-in bound exceeded at a gate no output observes", "max_fanin": worst, "gate": next(n_ for n_ in sorted(ck.nodes()) if len(ck.fanin(n_)) == worst)} if worst > k else same_function(cu_, ck, sorted(cu_.nodes()))
            chk.ob("C05.S.limit_fanin", key, prob is None, file=FILE, func="limit_fanin", fact=prob or {"max_fanin": worst}, expect="no gate has more than k fan-in, observed by an output or not")
    owned = build({"a": ("input", []), "b": ("input", []), "c": ("input", []), "d": ("input", []), "g_limit_fanin_0": ("or", ["a", "d"]), "g": ("nand", ["a", "b", "c", "g_limit_fanin_0"]),
                   "g_limit_fanout_0": ("not", ["a"]), "o": ("xor", ["g", "g_limit_fanout_0", "b", "c"])}, outputs=["o", "g"])
    for fname, attr in (("limit_fanin", "fanin"), ("limit_fanout", "fanout")):
        r = P.call(FILE, fname, owned, 2)
        n_eval += 1
        prob = {"result": str(r)[:160]} if r[0] != "return" else same_function(owned, r[1], sorted(owned.nodes()))
        chk.ob(f"C05.S.{fname}", f"{fname}::circuit that owns a helper-style name", prob is None, file=FILE, func=fname, fact=prob or {}, expect="existing nodes are never overwritten (uid)")
    for i, ren in enumerate(namings[:10]):
        spec = {"a": ("input", []), "c": ("input", []), "d": ("input", []), "b": ("buf", ["a"]), "f1": ("xor", ["a", "b", "c"]), "f2": ("xnor", ["a", "d"]), "g": ("and", ["a", "c"]), "h": ("or", ["a", "d"])}
        keys = list(spec)
        pool = list(ren.values())[:len(keys)]
        m = dict(zip(keys, pool))
        c = build({m[n]: (t, [m[f] for f in fi]) for n, (t, fi) in spec.items()}, outputs=[m["f1"], m["f2"], m["g"], m["h"]])
        for k in (2, 3):
            r = P.call(FILE, "limit_fanout", c, k)
            n_eval += 1
            key = f"limit_fanout::load fed by a net and by its buffer::naming{i}::k={k}"
            if r[0] != "return":
                chk.ob("C05.S.limit_fanout", key, False, file=FILE, func="limit_fanout", fact={"result": str(r)[:160]})
                continue
            ck = r[1]
            worst = max(len(ck.fanout(n)) for n in ck.nodes())
            prob = {"problem": "fan-out bound exceeded", "max": worst} if worst > k else same_function(c, ck, sorted(c.nodes()))
            chk.ob("C05.S.limit_fanout", key, prob is None, file=FILE, func="limit_fanout", fact=prob or {"max": worst}, expect="bound holds and every original node keeps its function")
    for fname in ("limit_fanin", "limit_fanout"):
        c = fams[0][1]
        for k in (1, 0):
            r = P.call(FILE, fname, c, k)
            chk.ob("C05.S.k-guard", f"{fname}::k={k} rejected", r[0] == "raise" and r[1] == "ValueError", file=FILE, func=fname, fact={"result": str(r)[:80]}, expect="ValueError")

    # ---- insert_registers ----------------------------------------------
    fr_ = repo.func(FILE, "insert_registers")
    def _registers_only_splice(key, c, r, snap, d_port="d", q_port="q", extra_inputs=("clk",), original=None):
        """the obligation on a returned circuit; `original`: the circuit whose function must be kept (the argument by default)"""
        orig = original if original is not None else c
        if r[0] != "return" or not isinstance(r[1], RefCircuit):
            chk.ob("C05.S.insert_registers", key, False, file=FILE, func="insert_registers", line=fr_.node.lineno, fact={"result": str(r)[:200]})
            return
        cr = r[1]
        prob = None
        if c._snapshot() != snap:
            prob = {"problem": "argument modified"}
        # replace every flop by a wire d -> q
        w = cr.copy()
        n_ff = 0
        for inst, bb in list(w.blackboxes.items()):
            n_ff += 1
            d, q = f"{inst}.{d_port}", f"{inst}.{q_port}"
            if d not in w or q not in w:
                prob = prob or {"problem": "flop pins missing", "instance": inst}
                continue
            drv = sorted(w.fanin(d))
            lds = sorted(w.fanout(q))
            if len(drv) != 1 or len(lds) != 1:
                prob = prob or {"problem": "flop d/q not spliced into a wire", "instance": inst, "d_drivers": drv, "q_loads": lds}
                continue
            for p in list(bb.io()):
                if f"{inst}.{p}" in w:
                    w.graph.remove_node(f"{inst}.{p}")
            w.graph.add_edge(drv[0], lds[0])
        w.blackboxes.clear()
        if prob is None:
            if not (orig.inputs() <= w.inputs() <= orig.inputs() | set(extra_inputs)) or w.outputs() != orig.outputs():
                prob = {"problem": "inputs/outputs changed", "inputs": sorted(w.inputs()), "outputs": sorted(w.outputs())}
        if prob is None:
            und = sorted(n_ for n_ in w.nodes() if w.type(n_) not in ("input", "0", "1", "x") and not w.fanin(n_))
            if und:
                prob = {"problem": "a wire was cut and left without a driver", "undriven": und[:6]}
        if prob is None:
            prob = same_function(orig, w, sorted(orig.outputs()))
        chk.ob("C05.S.insert_registers", key, prob is None, file=FILE, func="insert_registers", line=fr_.node.lineno, fact=prob or {"flops": n_ff},
               expect="flops only splice existing wires: replacing each by a d->q wire gives an equivalent circuit")

    for kname, c in list(deep_circuits()) + list(two_level_circuits(limit=12)):
        for stages in (1, 2):
            snap = c._snapshot()
            r = P.call(FILE, "insert_registers", c, stages)
            n_eval += 1
            key = f"insert_registers::{kname}::stages={stages}"
            if r[0] == "raise" and r[1] == "ValueError" and "range()" in (r[2] or ""):
                chk.note(f"insert_registers({kname}, {stages}) raises ValueError (depth increment rounds to 0 on a shallow circuit); nothing is returned, so no obligation")
                continue
            _registers_only_splice(key, c, r, snap)
    # other flop definitions and port names; a request the function refuses (ValueError: a flop without the pin the default
    # `other_flop_io` names, an instance name already taken on a second application) carries no obligation - a circuit that is
    # returned does
    from ..refmodel import RefBlackBox as _RBB

    flops = [
        ("own flop with clk and rst", dict(ff=_RBB("dffr", ["data", "clk", "rst"], ["out"]), d_port="data", q_port="out", other_flop_io={"clk": "clk", "rst": "rst"}), ("data", "out", ("clk", "rst"))),
        ("own flop without other pins", dict(ff=_RBB("lat", ["d"], ["q"]), other_flop_io={}), ("d", "q", ())),
        ("own flop without the clk pin, default other_flop_io", dict(ff=_RBB("lat", ["d"], ["q"])), ("d", "q", ("clk",))),
        # `other_flop_io` maps circuit nodes to flop ports: an existing input as the clock, a new node named differently from the port
        ("clock taken from an existing input", dict(other_flop_io={"a": "clk"}), ("d", "q", ())),
        ("clock node named differently from the port", dict(other_flop_io={"sysclk": "clk"}), ("d", "q", ("sysclk",))),
    ]
    for kname, c in list(deep_circuits())[:3]:
        for fname_, kw, (dp, qp, extra) in flops:
            snap = c._snapshot()
            if "a" in kw.get("other_flop_io", {}) and "a" not in c.inputs():
                continue
            r = P.call(FILE, "insert_registers", c, 1, **kw)
            n_eval += 1
            if r[0] == "raise" and r[1] == "ValueError" and "without the clk pin" in fname_:
                continue  # the only request among these that the flop cannot serve
            _registers_only_splice(f"insert_registers::{kname}::{fname_}", c, r, snap, dp, qp, extra)
        # applied to its own result: the first boundary nodes already own a flop
        snap = c._snapshot()
        r1 = P.call(FILE, "insert_registers", c, 1)
        if r1[0] == "return" and isinstance(r1[1], RefCircuit):
            mid = r1[1]
            snap_mid = mid._snapshot()
            r2 = P.call(FILE, "insert_registers", mid, 1)
            n_eval += 1
            if not (r2[0] == "raise" and r2[1] in ("ValueError", "NotImplementedError")):
                _registers_only_splice(f"insert_registers::{kname}::applied to its own result", mid, r2, snap_mid, original=c)

    # ---- acyclic_unroll on acyclic circuits ----------------------------
    fa = repo.func(FILE, "acyclic_unroll")
    for kname, c in list(deep_circuits()) + list(one_gate_circuits(max_arity=2)):
        r = P.call(FILE, "acyclic_unroll", c)
        n_eval += 1
        key = f"acyclic_unroll::acyclic::{kname}"
        if r[0] != "return" or not isinstance(r[1], RefCircuit):
            chk.ob("C05.S.acyclic_unroll-identity", key, False, file=FILE, func="acyclic_unroll", line=fa.node.lineno, fact={"result": str(r)[:200]})
            continue
        cu = r[1]
        prob = None
        if cu.inputs() != c.inputs() or cu.outputs() != c.outputs():
            prob = {"problem": "inputs/outputs changed", "inputs": sorted(cu.inputs()), "outputs": sorted(cu.outputs())}
        if prob is None:
            prob = same_function(c, cu, sorted(c.outputs()))
        chk.ob("C05.S.acyclic_unroll-identity", key, prob is None, file=FILE, func="acyclic_unroll", line=fa.node.lineno, fact=prob or {"nodes": len(cu.nodes())},
               expect="acyclic_unroll of an acyclic circuit is equivalent to it")
    from ..stale import circuit_snapshot, stale_state_rule
    from ..minieval import ModelRaise

    for fname in ("limit_fanin", "limit_fanout"):
        def _call(c, fname=fname):
            r = P.call(FILE, fname, c, 2)
            if r[0] != "return":
                raise ModelRaise(r[1], r[2] if len(r) > 2 else "")
            return r[1]

        stale_state_rule(chk, "C05.H.no-stale-state", _call, circuit_snapshot, FILE, fname)
    # results must not depend on earlier calls (mutable default arguments, module-level tables); the caller's dict of
    # extra flop connections is left alone
    from ..stale import earlier_calls_rule
    from ..pkgenv import Package as _Pkg

    dcs = list(deep_circuits())
    seq_inputs = [(f"{kn}#{rep}", (lambda cc=cc: cc.copy())) for rep in (1, 2) for kn, cc in dcs[:3]]
    for fname, extra in (("insert_registers", (1,)), ("insert_registers", (2,)), ("limit_fanin", (2,)), ("limit_fanout", (2,))):
        def _mk(fname=fname, extra=extra):
            PF = _Pkg(repo)

            def _call(cc):
                r = PF.call(FILE, fname, cc, *extra)
                if r[0] != "return":
                    raise ModelRaise(r[1], r[2] if len(r) > 2 else "")
                return r[1]
            return _call

        n_eval += earlier_calls_rule(chk, "C05.H.no-state-between-calls", _mk, circuit_snapshot, FILE, f"{fname}{extra}", seq_inputs)
    for kn, cc in dcs[:3]:
        mine = {"clk": sorted(cc.inputs())[0]}  # an existing net drives the clock pins
        before = dict(mine)
        r = P.call(FILE, "insert_registers", cc, 1, other_flop_io=mine)
        if r[0] == "raise" and r[1] == "ValueError":
            continue  # the default flop has no such pin: rejected, nothing to compare
        chk.ob("C05.H.caller-dict-untouched", f"insert_registers::{kn}", mine == before, file=FILE, func="insert_registers", fact={"dict_after": str(mine)[:120], "result": str(r)[:60]},
               expect="the other_flop_io dict passed in is not modified")
    chk.floor("template evaluations", n_eval, 150)
